// Minimal JSON value + writer (the driver has zero crate dependencies).
use std::fmt::Write;

#[derive(Clone, Debug)]
pub enum J {
    Null,
    Bool(bool),
    Int(i128),
    Str(String),
    Arr(Vec<J>),
    Obj(Vec<(String, J)>),
    Raw(String),
}

impl J {
    pub fn s<S: Into<String>>(s: S) -> J {
        J::Str(s.into())
    }
    pub fn obj() -> J {
        J::Obj(Vec::new())
    }
    pub fn set<S: Into<String>>(mut self, k: S, v: J) -> J {
        if let J::Obj(ref mut o) = self {
            o.push((k.into(), v));
        }
        self
    }
    pub fn put<S: Into<String>>(&mut self, k: S, v: J) {
        if let J::Obj(ref mut o) = self {
            o.push((k.into(), v));
        }
    }
    pub fn write(&self, out: &mut String) {
        match self {
            J::Null => out.push_str("null"),
            J::Bool(b) => out.push_str(if *b { "true" } else { "false" }),
            J::Int(i) => {
                // python json reads arbitrary precision ints
                let _ = write!(out, "{}", i);
            }
            J::Str(s) => write_str(s, out),
            J::Raw(r) => out.push_str(r),
            J::Arr(a) => {
                out.push('[');
                for (i, x) in a.iter().enumerate() {
                    if i > 0 {
                        out.push(',');
                    }
                    x.write(out);
                }
                out.push(']');
            }
            J::Obj(o) => {
                out.push('{');
                for (i, (k, v)) in o.iter().enumerate() {
                    if i > 0 {
                        out.push(',');
                    }
                    write_str(k, out);
                    out.push(':');
                    v.write(out);
                }
                out.push('}');
            }
        }
    }
}

fn write_str(s: &str, out: &mut String) {
    out.push('"');
    for c in s.chars() {
        match c {
            '"' => out.push_str("\\\""),
            '\\' => out.push_str("\\\\"),
            '\n' => out.push_str("\\n"),
            '\r' => out.push_str("\\r"),
            '\t' => out.push_str("\\t"),
            c if (c as u32) < 0x20 => {
                let _ = write!(out, "\\u{:04x}", c as u32);
            }
            c => out.push(c),
        }
    }
    out.push('"');
}
