// mcv-export: rustc_private driver that exports resolved MIR instances of the
// workspace crates as JSON facts. See /verif/DESIGN.md section 3.1.
//
// Environment:
//   MCV_OUT    directory to write <crate>.json into (no export when unset)
//   MCV_CRATES comma separated crate names to export (others compile normally)
//   MCV_WS     comma separated crate names whose callees are followed (bodies exported)
#![feature(rustc_private)]
#![allow(rustc::potential_query_instability)]

extern crate rustc_abi;
extern crate rustc_data_structures;
extern crate rustc_driver;
extern crate rustc_hir;
extern crate rustc_interface;
extern crate rustc_middle;
extern crate rustc_span;

mod json;
use json::J;

use rustc_driver::Compilation;
use rustc_hir::def::DefKind;
use rustc_hir::def_id::{DefId, LOCAL_CRATE};
use rustc_middle::mir::{self, Body, Operand, Place, Rvalue, StatementKind, TerminatorKind};
use rustc_middle::ty::{self, EarlyBinder, GenericArgsRef, Instance, InstanceKind, Ty, TyCtxt, TypingEnv};
use rustc_span::Span;
use std::collections::{BTreeMap, HashMap, HashSet, VecDeque};

static CRATE: std::sync::OnceLock<String> = std::sync::OnceLock::new();

fn fixc(s: String) -> String {
    match CRATE.get() {
        Some(c) if s.contains("crate::") => s.replace("crate::", &format!("{}::", c)),
        _ => s,
    }
}

macro_rules! pp {
    ($e:expr) => {
        fixc(ty::print::with_crate_prefix!(ty::print::with_no_trimmed_paths!($e)))
    };
}

static PRE: std::sync::Mutex<Vec<(String, String)>> = std::sync::Mutex::new(Vec::new());

struct Cb;

impl rustc_driver::Callbacks for Cb {
    fn after_expansion<'tcx>(&mut self, _c: &rustc_interface::interface::Compiler, tcx: TyCtxt<'tcx>) -> Compilation {
        if std::env::var("MCV_OUT").is_ok() {
            let name = tcx.crate_name(LOCAL_CRATE).to_string();
            let crates = std::env::var("MCV_CRATES").unwrap_or_default();
            if crates.split(',').any(|c| c == name) {
                let _ = CRATE.set(name.clone());
                pre_coroutines(tcx, &name);
            }
        }
        Compilation::Continue
    }

    fn after_analysis<'tcx>(&mut self, _c: &rustc_interface::interface::Compiler, tcx: TyCtxt<'tcx>) -> Compilation {
        if let Ok(out) = std::env::var("MCV_OUT") {
            let name = tcx.crate_name(LOCAL_CRATE).to_string();
            let crates = std::env::var("MCV_CRATES").unwrap_or_default();
            if crates.split(',').any(|c| c == name) {
                let _ = CRATE.set(name.clone());
                export(tcx, &out, &name);
            }
        }
        Compilation::Continue
    }
}

fn main() {
    let mut args: Vec<String> = std::env::args().collect();
    // wrapper mode: cargo passes the path of the real rustc as argv[1]
    if args.len() > 1 && !args[1].starts_with('-') && (args[1].ends_with("rustc") || args[1].contains("/rustc")) {
        args.remove(1);
    }
    let code = rustc_driver::catch_with_exit_code(|| rustc_driver::run_compiler(&args, &mut Cb));
    std::process::exit(if code == std::process::ExitCode::SUCCESS { 0 } else { 1 });
}

// ---------------------------------------------------------------------------

struct Ex<'tcx> {
    tcx: TyCtxt<'tcx>,
    ws: HashSet<String>,
    seen: HashMap<Instance<'tcx>, usize>,
    queue: VecDeque<(Instance<'tcx>, TypingEnv<'tcx>, u32)>,
    adts: BTreeMap<String, J>,
    ext: BTreeMap<String, J>,
    panic_memo: HashMap<DefId, (u8, String)>, // 0 no, 1 yes, 2 unknown, 3 alloc-only
    renames: BTreeMap<String, String>,
    max_instances: usize,
}

fn krate_name(tcx: TyCtxt<'_>, d: DefId) -> String {
    tcx.crate_name(d.krate).to_string()
}

fn ty_str<'tcx>(t: Ty<'tcx>) -> String {
    pp!(format!("{}", t))
}

fn span_json(tcx: TyCtxt<'_>, sp: Span) -> J {
    let sm = tcx.sess.source_map();
    let mut o = J::obj();
    let (orig, exp) = if sp.from_expansion() {
        let ed = sp.ctxt().outer_expn_data();
        let mut name = String::new();
        if let rustc_span::ExpnKind::Macro(_, sym) = ed.kind {
            name = sym.to_string();
        } else {
            name.push_str(&format!("{:?}", ed.kind));
        }
        (sp.source_callsite(), Some(name))
    } else {
        (sp, None)
    };
    let lo = sm.lookup_char_pos(orig.lo());
    let file = match &lo.file.name {
        rustc_span::FileName::Real(r) => {
            r.local_path().map(|p| p.to_string_lossy().to_string()).unwrap_or_else(|| format!("{:?}", r))
        }
        other => format!("{:?}", other),
    };
    o.put("f", J::s(file));
    o.put("l", J::Int(lo.line as i128));
    if let Some(m) = exp {
        o.put("m", J::s(m));
        // position inside the macro definition
        let d = sm.lookup_char_pos(sp.lo());
        o.put("ml", J::Int(d.line as i128));
    }
    o
}

impl<'tcx> Ex<'tcx> {
    fn is_ws(&self, d: DefId) -> bool {
        self.ws.contains(&krate_name(self.tcx, d))
    }

    fn def_path(&self, d: DefId) -> String {
        pp!(self.tcx.def_path_str(d))
    }

    /// re-exported workspace types/traits print under their visible path in dependent crates: remember the real path
    fn note_rename(&mut self, d: DefId) {
        if d.is_local() || !self.is_ws(d) {
            return;
        }
        let vis = pp!(self.tcx.def_path_str(d));
        let real = fixc(ty::print::with_no_visible_paths!(ty::print::with_no_trimmed_paths!(self.tcx.def_path_str(d))));
        if vis != real {
            self.renames.insert(vis, real);
        }
    }

    fn inst_key(&self, i: Instance<'tcx>) -> String {
        let base = pp!(self.tcx.def_path_str_with_args(i.def_id(), i.args));
        match i.def {
            InstanceKind::Item(_) => base,
            other => format!("{}#{}", base, shim_name(&other)),
        }
    }

    fn ty_json(&mut self, t: Ty<'tcx>) -> J {
        let mut o = J::obj();
        o.put("s", J::s(ty_str(t)));
        let k = match t.kind() {
            ty::Bool => "bool".to_string(),
            ty::Char => "char".to_string(),
            ty::Int(i) => format!("int:{}", i.name_str()),
            ty::Uint(u) => format!("int:{}", u.name_str()),
            ty::Float(f) => format!("float:{}", f.name_str()),
            ty::Adt(def, args) => {
                let p = self.def_path(def.did());
                self.note_adt(*def, args);
                o.put("adt", J::s(p));
                o.put("args", J::Arr(args.iter().map(|a| J::s(pp!(format!("{}", a)))).collect()));
                "adt".to_string()
            }
            ty::Ref(_, inner, m) => {
                let ij = self.ty_json(*inner);
                o.put("to", ij);
                o.put("mut", J::Bool(m.is_mut()));
                "ref".to_string()
            }
            ty::RawPtr(inner, m) => {
                let ij = self.ty_json(*inner);
                o.put("to", ij);
                o.put("mut", J::Bool(m.is_mut()));
                "ptr".to_string()
            }
            ty::Tuple(ts) => {
                let v: Vec<J> = ts.iter().map(|x| self.ty_json(x)).collect();
                o.put("elems", J::Arr(v));
                "tuple".to_string()
            }
            ty::Array(e, n) => {
                let ej = self.ty_json(*e);
                o.put("elem", ej);
                if let Some(v) = n.try_to_target_usize(self.tcx) {
                    o.put("len", J::Int(v as i128));
                } else {
                    o.put("len", J::s(format!("{}", n)));
                }
                "array".to_string()
            }
            ty::Slice(e) => {
                let ej = self.ty_json(*e);
                o.put("elem", ej);
                "slice".to_string()
            }
            ty::Str => "str".to_string(),
            ty::Never => "never".to_string(),
            ty::Param(_) => "param".to_string(),
            ty::FnDef(d, a) => {
                o.put("fn", J::s(pp!(self.tcx.def_path_str_with_args(*d, a))));
                "fndef".to_string()
            }
            ty::FnPtr(..) => "fnptr".to_string(),
            ty::Closure(d, _) => {
                o.put("def", J::s(self.def_path(*d)));
                "closure".to_string()
            }
            ty::Coroutine(d, _) => {
                o.put("def", J::s(self.def_path(*d)));
                "coroutine".to_string()
            }
            ty::CoroutineClosure(d, _) => {
                o.put("def", J::s(self.def_path(*d)));
                "coroutine_closure".to_string()
            }
            ty::Dynamic(..) => "dyn".to_string(),
            ty::Alias(..) => "alias".to_string(),
            ty::Foreign(..) => "foreign".to_string(),
            _ => "other".to_string(),
        };
        o.put("k", J::s(k));
        o
    }

    fn note_adt(&mut self, def: ty::AdtDef<'tcx>, _args: GenericArgsRef<'tcx>) {
        self.note_rename(def.did());
        if self.is_ws(def.did()) {
            // the type printer uses the visible (re-exported) path even for local items, the def-path printer the defining path
            let t = self.tcx.type_of(def.did()).instantiate_identity().skip_norm_wip();
            let ts = ty_str(t);
            let vis = ts.split('<').next().unwrap_or("").to_string();
            let real = self.def_path(def.did());
            if !vis.is_empty() && vis != real {
                self.renames.insert(vis, real);
            }
        }
        let p = self.def_path(def.did());
        if self.adts.contains_key(&p) {
            return;
        }
        let mut o = J::obj();
        o.put("kind", J::s(if def.is_enum() { "enum" } else if def.is_union() { "union" } else { "struct" }));
        o.put("transparent", J::Bool(def.repr().transparent()));
        o.put("krate", J::s(krate_name(self.tcx, def.did())));
        let gens = self.tcx.generics_of(def.did());
        let ps: Vec<J> = gens.own_params.iter().map(|p| J::s(p.name.to_string())).collect();
        o.put("params", J::Arr(ps));
        let mut vs = Vec::new();
        for v in def.variants().iter() {
            let mut vo = J::obj();
            vo.put("name", J::s(v.name.to_string()));
            vo.put("fields", J::Arr(v.fields.iter().map(|f| J::s(f.name.to_string())).collect()));
            let mut tys = Vec::new();
            for f in v.fields.iter() {
                let ft = self.tcx.type_of(f.did).instantiate_identity().skip_norm_wip();
                tys.push(J::s(ty_str(ft)));
            }
            vo.put("tys", J::Arr(tys));
            vs.push(vo);
        }
        o.put("variants", J::Arr(vs));
        // discriminant values for enums
        if def.is_enum() {
            let ds: Vec<J> = def.discriminants(self.tcx).map(|(_, d)| J::Int(d.val as i128)).collect();
            o.put("discrs", J::Arr(ds));
        }
        self.adts.insert(p, o);
    }

    fn enqueue(&mut self, i: Instance<'tcx>, env: TypingEnv<'tcx>, depth: u32) {
        if self.seen.contains_key(&i) {
            return;
        }
        if !self.is_ws(i.def_id()) {
            return;
        }
        if self.seen.len() >= self.max_instances || depth > 24 {
            return;
        }
        match i.def {
            InstanceKind::Item(d) => {
                if !self.tcx.is_mir_available(d) {
                    return;
                }
            }
            InstanceKind::ClosureOnceShim { .. } | InstanceKind::ReifyShim(..) | InstanceKind::FnPtrShim(..) => {}
            _ => return,
        }
        let n = self.seen.len();
        self.seen.insert(i, n);
        self.queue.push_back((i, env, depth));
    }

    fn mono<T: ty::TypeFoldable<TyCtxt<'tcx>>>(&self, inst: Instance<'tcx>, env: TypingEnv<'tcx>, v: T) -> T {
        inst.instantiate_mir_and_normalize_erasing_regions(self.tcx, env, EarlyBinder::bind(v))
    }

    // -- callee description ------------------------------------------------

    fn callee_json(&mut self, d: DefId, args: GenericArgsRef<'tcx>, env: TypingEnv<'tcx>, depth: u32) -> J {
        let tcx = self.tcx;
        let mut o = J::obj();
        o.put("path", J::s(self.def_path(d)));
        o.put("full", J::s(pp!(tcx.def_path_str_with_args(d, args))));
        o.put("args", J::Arr(args.iter().map(|a| J::s(pp!(format!("{}", a)))).collect()));
        o.put("krate", J::s(krate_name(tcx, d)));
        if let Some(tr) = tcx.trait_of_assoc(d) {
            self.note_rename(tr);
            o.put("trait", J::s(self.def_path(tr)));
            if args.len() > 0 {
                if let Some(t0) = args.get(0).and_then(|a| a.as_type()) {
                    o.put("self_ty", J::s(ty_str(t0)));
                }
            }
        }
        if let DefKind::Ctor(of, _) = tcx.def_kind(d) {
            // tuple struct / variant constructor used as a function
            let mut c = J::obj();
            match of {
                rustc_hir::def::CtorOf::Struct => {
                    let adt = tcx.parent(d);
                    c.put("adt", J::s(self.def_path(adt)));
                    c.put("variant", J::Int(0));
                }
                rustc_hir::def::CtorOf::Variant => {
                    let var = tcx.parent(d);
                    let adt = tcx.parent(var);
                    c.put("adt", J::s(self.def_path(adt)));
                    let ad = tcx.adt_def(adt);
                    let idx = ad.variant_index_with_id(var);
                    c.put("variant", J::Int(idx.as_usize() as i128));
                }
            }
            o.put("ctor", c);
        }
        let resolved = match tcx.def_kind(d) {
            DefKind::Fn | DefKind::AssocFn | DefKind::Ctor(..) => {
                if matches!(tcx.def_kind(d), DefKind::Ctor(..)) {
                    None
                } else {
                    Instance::try_resolve(tcx, env, d, args).ok().flatten()
                }
            }
            _ => None,
        };
        if let Some(inst) = resolved {
            o.put("resolved", J::Bool(true));
            let rd = inst.def_id();
            o.put("rpath", J::s(self.def_path(rd)));
            o.put("rkey", J::s(self.inst_key(inst)));
            o.put("rkrate", J::s(krate_name(tcx, rd)));
            o.put("rkind", J::s(shim_name(&inst.def)));
            o.put("rargs", J::Arr(inst.args.iter().map(|a| J::s(pp!(format!("{}", a)))).collect()));
            if let Some(imp) = tcx.impl_of_assoc(rd) {
                o.put("impl_self", J::s(ty_str(tcx.type_of(imp).instantiate_identity().skip_norm_wip())));
            }
            if matches!(tcx.def_kind(rd), DefKind::Fn | DefKind::AssocFn) {
                let sig = tcx.fn_sig(rd).instantiate_identity().skip_norm_wip();
                o.put("unsafe", J::Bool(sig.safety().is_unsafe()));
            }
            // `<T as Into<U>>::into` / `<T as TryInto<U>>::try_into` are blanket wrappers: also resolve the
            // `<U as From<T>>::from` / `<U as TryFrom<T>>::try_from` they forward to.
            {
                let rp = self.def_path(rd);
                let which = if rp == "<T as std::convert::Into<U>>::into" || rp == "<T as core::convert::Into<U>>::into" {
                    Some((rustc_span::sym::From, "from"))
                } else if rp == "<T as std::convert::TryInto<U>>::try_into" || rp == "<T as core::convert::TryInto<U>>::try_into" {
                    Some((rustc_span::sym::TryFrom, "try_from"))
                } else {
                    None
                };
                if let Some((trait_sym, meth)) = which {
                    if let Some(trait_did) = tcx.get_diagnostic_item(trait_sym) {
                        let m = tcx
                            .associated_items(trait_did)
                            .in_definition_order()
                            .find(|it| it.name().as_str() == meth)
                            .map(|it| it.def_id);
                        if let (Some(mdid), true) = (m, inst.args.len() >= 2) {
                            let t_ty = inst.args.type_at(0);
                            let u_ty = inst.args.type_at(1);
                            let nargs = tcx.mk_args(&[u_ty.into(), t_ty.into()]);
                            if let Some(inner) = Instance::try_resolve(tcx, env, mdid, nargs).ok().flatten() {
                                let mut v = J::obj();
                                v.put("rkey", J::s(self.inst_key(inner)));
                                v.put("rpath", J::s(self.def_path(inner.def_id())));
                                v.put("rkrate", J::s(krate_name(tcx, inner.def_id())));
                                o.put("via", v);
                                if self.is_ws(inner.def_id()) {
                                    self.enqueue(inner, env, depth + 1);
                                }
                            }
                        }
                    }
                }
            }
            // a provided method of `Iterator` (try_for_each, for_each, fold, ..) called on a workspace iterator type runs that
            // type's `next` inside std: make the `next` instance part of the closure, so that the analysis can interpret the adaptor
            if !self.is_ws(rd) {
                if let (Some(tr), Some(it_tr)) = (tcx.trait_of_assoc(rd), tcx.get_diagnostic_item(rustc_span::sym::Iterator)) {
                    if tr == it_tr && inst.args.len() >= 1 {
                        let mut self_ty = inst.args.type_at(0);
                        while let ty::Ref(_, inner, _) = self_ty.kind() {
                            self_ty = *inner;
                        }
                        let ws_adt = match self_ty.kind() {
                            ty::Adt(adt, _) => self.is_ws(adt.did()),
                            _ => false,
                        };
                        if ws_adt {
                            let nx = tcx
                                .associated_items(it_tr)
                                .in_definition_order()
                                .find(|it| it.name().as_str() == "next")
                                .map(|it| it.def_id);
                            if let Some(ndid) = nx {
                                let nargs = tcx.mk_args(&[self_ty.into()]);
                                if let Some(inner) = Instance::try_resolve(tcx, env, ndid, nargs).ok().flatten() {
                                    let mut v = J::obj();
                                    v.put("rkey", J::s(self.inst_key(inner)));
                                    v.put("rpath", J::s(self.def_path(inner.def_id())));
                                    o.put("iter_next", v);
                                    if self.is_ws(inner.def_id()) {
                                        self.enqueue(inner, env, depth + 1);
                                    }
                                }
                            }
                        }
                    }
                }
            }
            if self.is_ws(rd) {
                self.enqueue(inst, env, depth + 1);
            } else {
                let p = self.def_path(rd);
                if !self.ext.contains_key(&p) {
                    let (code, why) = self.may_panic(rd, 0);
                    let mut e = J::obj();
                    e.put("may_panic", J::s(match code { 0 => "no", 1 => "yes", 3 => "alloc", _ => "unknown" }));
                    e.put("why", J::s(why));
                    e.put("krate", J::s(krate_name(tcx, rd)));
                    e.put("mir", J::Bool(tcx.is_mir_available(rd)));
                    self.ext.insert(p, e);
                }
            }
        } else {
            o.put("resolved", J::Bool(false));
            if matches!(tcx.def_kind(d), DefKind::Fn | DefKind::AssocFn) {
                let sig = tcx.fn_sig(d).instantiate_identity().skip_norm_wip();
                o.put("unsafe", J::Bool(sig.safety().is_unsafe()));
            }
        }
        o
    }

    /// Conservative scan of a non-workspace callee: can it panic?
    fn may_panic(&mut self, d: DefId, depth: u32) -> (u8, String) {
        if let Some(r) = self.panic_memo.get(&d) {
            return r.clone();
        }
        let tcx = self.tcx;
        let path = self.def_path(d);
        // classification of diverging leaves
        let leaf = |p: &str| -> Option<u8> {
            if p.starts_with("core::panicking::")
                || p.starts_with("std::rt::")
                || p.starts_with("std::panicking::")
                || p == "core::option::expect_failed"
                || p == "core::option::unwrap_failed"
                || p == "core::result::unwrap_failed"
                || p.starts_with("core::slice::index::slice_")
                || p.starts_with("core::str::slice_error_fail")
                || p.starts_with("core::slice::copy_from_slice_impl::len_mismatch_fail")
                || p.contains("::len_mismatch_fail")
                || p.starts_with("core::cell::panic_already")
                || p.starts_with("core::num::overflow_panic")
            {
                return Some(1);
            }
            if p.starts_with("alloc::raw_vec::capacity_overflow")
                || p.starts_with("alloc::raw_vec::handle_error")
                || p.starts_with("alloc::alloc::handle_alloc_error")
            {
                return Some(3);
            }
            None
        };
        if let Some(c) = leaf(&path) {
            let r = (c, path.clone());
            self.panic_memo.insert(d, r.clone());
            return r;
        }
        if depth > 7 {
            return (2, format!("depth limit at {}", path));
        }
        if !matches!(tcx.def_kind(d), DefKind::Fn | DefKind::AssocFn | DefKind::Closure) || !tcx.is_mir_available(d) {
            let r = (2u8, format!("no MIR for {}", path));
            self.panic_memo.insert(d, r.clone());
            return r;
        }
        // provisional entry to cut recursion
        self.panic_memo.insert(d, (0, String::new()));
        let body: &Body<'tcx> = tcx.optimized_mir(d);
        let env = TypingEnv::post_analysis(tcx, d);
        let mut worst: (u8, String) = (0, String::new());
        let upd = |c: u8, w: String, worst: &mut (u8, String)| {
            // order of severity: yes(1) > unknown(2) > alloc(3) > no(0)
            let rank = |x: u8| match x { 1 => 3, 2 => 2, 3 => 1, _ => 0 };
            if rank(c) > rank(worst.0) {
                *worst = (c, w);
            }
        };
        for bb in body.basic_blocks.iter() {
            if bb.is_cleanup {
                continue;
            }
            let Some(term) = &bb.terminator else { continue };
            match &term.kind {
                TerminatorKind::Assert { cond, expected, msg, .. } => {
                    let trivially = match cond {
                        Operand::Constant(c) => c.const_.try_eval_bool(tcx, env) == Some(*expected),
                        Operand::RuntimeChecks(_) => true,
                        _ => false,
                    };
                    if !trivially {
                        upd(1, format!("assert {:?} in {}", assert_name(msg), path), &mut worst);
                    }
                }
                TerminatorKind::Call { func, target, .. } => {
                    if let Some((cd, cargs)) = func.const_fn_def() {
                        let cp = self.def_path(cd);
                        if let Some(c) = leaf(&cp) {
                            upd(c, format!("{} <- {}", cp, path), &mut worst);
                            continue;
                        }
                        if tcx.intrinsic(cd).is_some() {
                            continue;
                        }
                        let res = Instance::try_resolve(tcx, env, cd, cargs).ok().flatten();
                        match res {
                            Some(inst) => {
                                if let InstanceKind::Item(rd) = inst.def {
                                    let (c, w) = self.may_panic(rd, depth + 1);
                                    if c != 0 {
                                        upd(c, w, &mut worst);
                                    }
                                } else if let InstanceKind::Virtual(..) = inst.def {
                                    upd(2, format!("virtual call {} in {}", cp, path), &mut worst);
                                }
                            }
                            None => {
                                // Calls of a closure/fn parameter are attributed to the argument, not to this callee.
                                let is_fn_trait = tcx
                                    .trait_of_assoc(cd)
                                    .map(|t| tcx.is_fn_trait(t))
                                    .unwrap_or(false);
                                if !is_fn_trait {
                                    upd(2, format!("unresolved {} in {}", cp, path), &mut worst);
                                }
                            }
                        }
                        let _ = target;
                    } else {
                        upd(2, format!("indirect call in {}", path), &mut worst);
                    }
                }
                _ => {}
            }
        }
        self.panic_memo.insert(d, worst.clone());
        worst
    }

    // -- MIR export ---------------------------------------------------------

    fn place_json(&mut self, inst: Instance<'tcx>, env: TypingEnv<'tcx>, body: &Body<'tcx>, p: &Place<'tcx>) -> J {
        let mut o = J::obj();
        o.put("l", J::Int(p.local.as_usize() as i128));
        if !p.projection.is_empty() {
            let mut v = Vec::new();
            let mut cur = mir::PlaceTy::from_ty(self.mono(inst, env, body.local_decls[p.local].ty));
            for e in p.projection.iter() {
                let ej = match e {
                    mir::ProjectionElem::Deref => {
                        let mut d = J::obj();
                        d.put("k", J::s("deref"));
                        d.put("raw", J::Bool(cur.ty.is_raw_ptr()));
                        d
                    }
                    mir::ProjectionElem::Field(f, _) => {
                        let mut d = J::obj();
                        d.put("k", J::s("field"));
                        d.put("i", J::Int(f.as_usize() as i128));
                        if let ty::Adt(def, _) = cur.ty.kind() {
                            let vi = cur.variant_index.unwrap_or(rustc_abi::FIRST_VARIANT);
                            if let Some(fd) = def.variant(vi).fields.get(f) {
                                d.put("n", J::s(fd.name.to_string()));
                            }
                            d.put("adt", J::s(self.def_path(def.did())));
                            if def.is_union() {
                                d.put("union", J::Bool(true));
                            }
                        }
                        d
                    }
                    mir::ProjectionElem::Downcast(name, vi) => {
                        let mut d = J::obj();
                        d.put("k", J::s("downcast"));
                        d.put("v", J::Int(vi.as_usize() as i128));
                        if let Some(n) = name {
                            d.put("n", J::s(n.to_string()));
                        }
                        d
                    }
                    mir::ProjectionElem::Index(l) => {
                        let mut d = J::obj();
                        d.put("k", J::s("index"));
                        d.put("l", J::Int(l.as_usize() as i128));
                        d
                    }
                    mir::ProjectionElem::ConstantIndex { offset, min_length, from_end } => {
                        let mut d = J::obj();
                        d.put("k", J::s("cindex"));
                        d.put("off", J::Int(offset as i128));
                        d.put("min", J::Int(min_length as i128));
                        d.put("from_end", J::Bool(from_end));
                        d
                    }
                    mir::ProjectionElem::Subslice { from, to, from_end } => {
                        let mut d = J::obj();
                        d.put("k", J::s("subslice"));
                        d.put("from", J::Int(from as i128));
                        d.put("to", J::Int(to as i128));
                        d.put("from_end", J::Bool(from_end));
                        d
                    }
                    other => {
                        let mut d = J::obj();
                        d.put("k", J::s("other"));
                        d.put("dbg", J::s(format!("{:?}", other)));
                        d
                    }
                };
                v.push(ej);
                let e2 = self.mono(inst, env, e);
                cur = cur.projection_ty(self.tcx, e2);
            }
            o.put("p", J::Arr(v));
        }
        o
    }

    fn const_json(&mut self, inst: Instance<'tcx>, env: TypingEnv<'tcx>, c: &mir::ConstOperand<'tcx>, depth: u32) -> J {
        let tcx = self.tcx;
        let k = self.mono(inst, env, c.const_);
        let t = k.ty();
        let mut o = J::obj();
        o.put("ty", J::s(ty_str(t)));
        match t.kind() {
            ty::FnDef(d, a) => {
                let cj = self.callee_json(*d, a, env, depth);
                o.put("fn", cj);
                return o;
            }
            _ => {}
        }
        if let mir::Const::Unevaluated(uv, _) = k {
            if let Some(p) = uv.promoted {
                o.put("promoted", J::Int(p.as_usize() as i128));
            }
        }
        if t.is_integral() || t.is_bool() || t.is_char() {
            if let Some(si) = k.try_eval_scalar_int(tcx, env) {
                let size = si.size();
                let bits = si.to_bits(size);
                let v: i128 = if t.is_signed() { size.sign_extend(bits) as i128 } else { bits as i128 };
                // u128 values beyond i128::MAX are not expected (no u128 constants that large in scope)
                o.put("v", J::Int(v));
            }
        } else if t.is_floating_point() {
            if let Some(si) = k.try_eval_scalar_int(tcx, env) {
                let size = si.size();
                o.put("bits", J::Int(si.to_bits(size) as i128));
            }
        } else {
            // try to read string / byte-array constants
            if let Ok(val) = k.eval(tcx, env, c.span) {
                if let (mir::ConstValue::Slice { .. }, Some(bytes)) = (val, if matches!(val, mir::ConstValue::Slice { .. }) { val.try_get_slice_bytes_for_diagnostics(tcx) } else { None }) {
                    o.put("bytes", J::s(hex(bytes)));
                } else if let mir::ConstValue::Scalar(mir::interpret::Scalar::Ptr(ptr, _)) = val {
                    // reference to an array constant such as &[0xf6]
                    let (prov, off) = ptr.into_raw_parts();
                    if let Some(ga) = tcx.try_get_global_alloc(prov.alloc_id()) {
                        if let mir::interpret::GlobalAlloc::Memory(al) = ga {
                            let al = al.inner();
                            let len = al.len();
                            let start = off.bytes() as usize;
                            if start <= len && al.provenance().ptrs().is_empty() {
                                let b = al.inspect_with_uninit_and_ptr_outside_interpreter(start..len);
                                o.put("alloc", J::s(hex(b)));
                            }
                        }
                    }
                } else if let mir::ConstValue::ZeroSized = val {
                    o.put("zst", J::Bool(true));
                }
            }
        }
        o.put("s", J::s(pp!(format!("{}", k))));
        o
    }

    fn operand_json(&mut self, inst: Instance<'tcx>, env: TypingEnv<'tcx>, body: &Body<'tcx>, op: &Operand<'tcx>, depth: u32) -> J {
        match op {
            Operand::Copy(p) => J::obj().set("copy", self.place_json(inst, env, body, p)),
            Operand::Move(p) => J::obj().set("move", self.place_json(inst, env, body, p)),
            Operand::Constant(c) => J::obj().set("const", self.const_json(inst, env, c, depth)),
            Operand::RuntimeChecks(rc) => J::obj().set("rtcheck", J::s(format!("{:?}", rc))),
        }
    }

    fn rvalue_json(&mut self, inst: Instance<'tcx>, env: TypingEnv<'tcx>, body: &Body<'tcx>, rv: &Rvalue<'tcx>, depth: u32) -> J {
        let mut o = J::obj();
        match rv {
            Rvalue::Use(op, _) => {
                o.put("rv", J::s("use"));
                o.put("a", self.operand_json(inst, env, body, op, depth));
            }
            Rvalue::Repeat(op, n) => {
                o.put("rv", J::s("repeat"));
                o.put("a", self.operand_json(inst, env, body, op, depth));
                let n = self.mono(inst, env, *n);
                if let Some(v) = n.try_to_target_usize(self.tcx) {
                    o.put("n", J::Int(v as i128));
                } else {
                    o.put("n", J::s(format!("{}", n)));
                }
            }
            Rvalue::Ref(_, bk, p) => {
                o.put("rv", J::s("ref"));
                o.put("mut", J::Bool(matches!(bk, mir::BorrowKind::Mut { .. })));
                o.put("p", self.place_json(inst, env, body, p));
            }
            Rvalue::RawPtr(k, p) => {
                o.put("rv", J::s("rawptr"));
                o.put("mut", J::Bool(matches!(k, mir::RawPtrKind::Mut)));
                o.put("p", self.place_json(inst, env, body, p));
            }
            Rvalue::Cast(k, op, t) => {
                o.put("rv", J::s("cast"));
                o.put("kind", J::s(format!("{:?}", k)));
                o.put("a", self.operand_json(inst, env, body, op, depth));
                let t = self.mono(inst, env, *t);
                o.put("ty", self.ty_json(t));
                let from = self.mono(inst, env, op.ty(&body.local_decls, self.tcx));
                o.put("from", self.ty_json(from));
            }
            Rvalue::BinaryOp(op, ab) => {
                o.put("rv", J::s("bin"));
                o.put("op", J::s(format!("{:?}", op)));
                o.put("a", self.operand_json(inst, env, body, &ab.0, depth));
                o.put("b", self.operand_json(inst, env, body, &ab.1, depth));
            }
            Rvalue::UnaryOp(op, a) => {
                o.put("rv", J::s("un"));
                o.put("op", J::s(format!("{:?}", op)));
                o.put("a", self.operand_json(inst, env, body, a, depth));
            }
            Rvalue::Discriminant(p) => {
                o.put("rv", J::s("discr"));
                o.put("p", self.place_json(inst, env, body, p));
            }
            Rvalue::Aggregate(kind, ops) => {
                o.put("rv", J::s("agg"));
                match &**kind {
                    mir::AggregateKind::Array(_) => o.put("kind", J::s("array")),
                    mir::AggregateKind::Tuple => o.put("kind", J::s("tuple")),
                    mir::AggregateKind::Adt(d, vi, _, _, fi) => {
                        o.put("kind", J::s("adt"));
                        o.put("adt", J::s(self.def_path(*d)));
                        o.put("variant", J::Int(vi.as_usize() as i128));
                        let adt = self.tcx.adt_def(*d);
                        self.note_adt(adt, ty::GenericArgs::empty());
                        o.put("vname", J::s(adt.variant(*vi).name.to_string()));
                        if let Some(f) = fi {
                            o.put("union_field", J::Int(f.as_usize() as i128));
                        }
                    }
                    mir::AggregateKind::Closure(d, a) => {
                        o.put("kind", J::s("closure"));
                        let a = self.mono(inst, env, *a);
                        let ci = Instance::new_raw(*d, a);
                        o.put("key", J::s(self.inst_key(ci)));
                        o.put("def", J::s(self.def_path(*d)));
                        self.enqueue(ci, env, depth + 1);
                    }
                    mir::AggregateKind::Coroutine(d, a) => {
                        o.put("kind", J::s("coroutine"));
                        let a = self.mono(inst, env, *a);
                        let ci = Instance::new_raw(*d, a);
                        o.put("key", J::s(self.inst_key(ci)));
                        o.put("def", J::s(self.def_path(*d)));
                        self.enqueue(ci, env, depth + 1);
                    }
                    mir::AggregateKind::CoroutineClosure(d, _) => {
                        o.put("kind", J::s("coroutine_closure"));
                        o.put("def", J::s(self.def_path(*d)));
                    }
                    mir::AggregateKind::RawPtr(..) => o.put("kind", J::s("rawptr")),
                }
                let v: Vec<J> = ops.iter().map(|x| self.operand_json(inst, env, body, x, depth)).collect();
                o.put("ops", J::Arr(v));
            }
            Rvalue::CopyForDeref(p) => {
                o.put("rv", J::s("use"));
                o.put("a", J::obj().set("copy", self.place_json(inst, env, body, p)));
            }
            Rvalue::ThreadLocalRef(d) => {
                o.put("rv", J::s("tls"));
                o.put("def", J::s(self.def_path(*d)));
            }
            other => {
                o.put("rv", J::s("other"));
                o.put("dbg", J::s(format!("{:?}", other)));
            }
        }
        o
    }

    fn body_json(&mut self, inst: Instance<'tcx>, env: TypingEnv<'tcx>, body: &Body<'tcx>, depth: u32) -> J {
        let tcx = self.tcx;
        let mut o = J::obj();
        o.put("argc", J::Int(body.arg_count as i128));
        let mut locals = Vec::new();
        for (l, d) in body.local_decls.iter_enumerated() {
            let t = self.mono(inst, env, d.ty);
            let lj = self.ty_json(t);
            let _ = l;
            
            locals.push(lj);
        }
        o.put("locals", J::Arr(locals));
        // user variable names
        let mut names = Vec::new();
        for vdi in &body.var_debug_info {
            if let mir::VarDebugInfoContents::Place(p) = vdi.value {
                if p.projection.is_empty() {
                    names.push(J::Arr(vec![J::Int(p.local.as_usize() as i128), J::s(vdi.name.to_string())]));
                }
            }
        }
        o.put("names", J::Arr(names));
        let mut blocks = Vec::new();
        for (_bbi, bb) in body.basic_blocks.iter_enumerated() {
            let mut bj = J::obj();
            if bb.is_cleanup {
                bj.put("cleanup", J::Bool(true));
            }
            let mut stmts = Vec::new();
            for st in &bb.statements {
                let sj = match &st.kind {
                    StatementKind::Assign(b) => {
                        let (p, rv) = &**b;
                        let mut s = J::obj();
                        s.put("k", J::s("assign"));
                        s.put("p", self.place_json(inst, env, body, p));
                        s.put("r", self.rvalue_json(inst, env, body, rv, depth));
                        s.put("sp", span_json(tcx, st.source_info.span));
                        s
                    }
                    StatementKind::SetDiscriminant { place, variant_index } => {
                        let mut s = J::obj();
                        s.put("k", J::s("setdiscr"));
                        s.put("p", self.place_json(inst, env, body, place));
                        s.put("v", J::Int(variant_index.as_usize() as i128));
                        s.put("sp", span_json(tcx, st.source_info.span));
                        s
                    }
                    StatementKind::StorageLive(l) => {
                        J::obj().set("k", J::s("live")).set("l", J::Int(l.as_usize() as i128))
                    }
                    StatementKind::StorageDead(l) => {
                        J::obj().set("k", J::s("dead")).set("l", J::Int(l.as_usize() as i128))
                    }
                    StatementKind::Intrinsic(i) => {
                        let mut s = J::obj();
                        s.put("k", J::s("intrinsic"));
                        s.put("dbg", J::s(format!("{:?}", i)));
                        s.put("sp", span_json(tcx, st.source_info.span));
                        s
                    }
                    StatementKind::Nop
                    | StatementKind::FakeRead(..)
                    | StatementKind::PlaceMention(..)
                    | StatementKind::AscribeUserType(..)
                    | StatementKind::Coverage(..)
                    | StatementKind::ConstEvalCounter
                    | StatementKind::BackwardIncompatibleDropHint { .. } => continue,
                    #[allow(unreachable_patterns)]
                    other => {
                        let mut s = J::obj();
                        s.put("k", J::s("other"));
                        s.put("dbg", J::s(format!("{:?}", other)));
                        s
                    }
                };
                stmts.push(sj);
            }
            bj.put("s", J::Arr(stmts));
            let term = bb.terminator();
            let mut t = J::obj();
            t.put("sp", span_json(tcx, term.source_info.span));
            match &term.kind {
                TerminatorKind::Goto { target } => {
                    t.put("k", J::s("goto"));
                    t.put("t", J::Int(target.as_usize() as i128));
                }
                TerminatorKind::SwitchInt { discr, targets } => {
                    t.put("k", J::s("switch"));
                    t.put("d", self.operand_json(inst, env, body, discr, depth));
                    let dty = self.mono(inst, env, discr.ty(&body.local_decls, tcx));
                    t.put("dty", J::s(ty_str(dty)));
                    let mut vs = Vec::new();
                    for (v, tgt) in targets.iter() {
                        // sign-extend for signed discriminants
                        let val: i128 = if dty.is_signed() {
                            let size = match dty.kind() {
                                ty::Int(i) => i.bit_width().map(|b| rustc_abi::Size::from_bits(b)).unwrap_or(tcx.data_layout.pointer_size()),
                                _ => rustc_abi::Size::from_bits(128),
                            };
                            size.sign_extend(v) as i128
                        } else {
                            v as i128
                        };
                        vs.push(J::Arr(vec![J::Int(val), J::Int(tgt.as_usize() as i128)]));
                    }
                    t.put("vs", J::Arr(vs));
                    t.put("o", J::Int(targets.otherwise().as_usize() as i128));
                }
                TerminatorKind::Return => t.put("k", J::s("return")),
                TerminatorKind::Unreachable => t.put("k", J::s("unreachable")),
                TerminatorKind::UnwindResume => t.put("k", J::s("resume")),
                TerminatorKind::UnwindTerminate(_) => t.put("k", J::s("terminate")),
                TerminatorKind::Drop { place, target, unwind, .. } => {
                    t.put("k", J::s("drop"));
                    t.put("p", self.place_json(inst, env, body, place));
                    t.put("t", J::Int(target.as_usize() as i128));
                    if let mir::UnwindAction::Cleanup(b) = unwind {
                        t.put("u", J::Int(b.as_usize() as i128));
                    }
                    let pty = self.mono(inst, env, place.ty(&body.local_decls, tcx).ty);
                    t.put("ty", J::s(ty_str(pty)));
                    t.put("needs_drop", J::Bool(pty.needs_drop(tcx, env)));
                }
                TerminatorKind::Call { func, args, destination, target, unwind, .. } => {
                    t.put("k", J::s("call"));
                    let fty = self.mono(inst, env, func.ty(&body.local_decls, tcx));
                    match fty.kind() {
                        ty::FnDef(d, a) => {
                            let cj = self.callee_json(*d, a, env, depth);
                            t.put("f", cj);
                        }
                        _ => {
                            t.put("fop", self.operand_json(inst, env, body, func, depth));
                            t.put("fty", J::s(ty_str(fty)));
                        }
                    }
                    let v: Vec<J> = args.iter().map(|a| self.operand_json(inst, env, body, &a.node, depth)).collect();
                    t.put("args", J::Arr(v));
                    t.put("dest", self.place_json(inst, env, body, destination));
                    if let Some(tg) = target {
                        t.put("t", J::Int(tg.as_usize() as i128));
                    }
                    if let mir::UnwindAction::Cleanup(b) = unwind {
                        t.put("u", J::Int(b.as_usize() as i128));
                    }
                }
                TerminatorKind::TailCall { .. } => {
                    t.put("k", J::s("tailcall"));
                }
                TerminatorKind::Assert { cond, expected, msg, target, unwind } => {
                    t.put("k", J::s("assert"));
                    t.put("c", self.operand_json(inst, env, body, cond, depth));
                    t.put("e", J::Bool(*expected));
                    t.put("t", J::Int(target.as_usize() as i128));
                    if let mir::UnwindAction::Cleanup(b) = unwind {
                        t.put("u", J::Int(b.as_usize() as i128));
                    }
                    let mut m = J::obj();
                    m.put("kind", J::s(assert_name(msg)));
                    match &**msg {
                        mir::AssertKind::Overflow(op, a, b) => {
                            m.put("op", J::s(format!("{:?}", op)));
                            m.put("a", self.operand_json(inst, env, body, a, depth));
                            m.put("b", self.operand_json(inst, env, body, b, depth));
                        }
                        mir::AssertKind::BoundsCheck { len, index } => {
                            m.put("len", self.operand_json(inst, env, body, len, depth));
                            m.put("index", self.operand_json(inst, env, body, index, depth));
                        }
                        mir::AssertKind::OverflowNeg(a) | mir::AssertKind::DivisionByZero(a) | mir::AssertKind::RemainderByZero(a) => {
                            m.put("a", self.operand_json(inst, env, body, a, depth));
                        }
                        _ => {}
                    }
                    t.put("msg", m);
                }
                TerminatorKind::Yield { value, resume, resume_arg, drop } => {
                    t.put("k", J::s("yield"));
                    t.put("v", self.operand_json(inst, env, body, value, depth));
                    t.put("t", J::Int(resume.as_usize() as i128));
                    t.put("arg", self.place_json(inst, env, body, resume_arg));
                    if let Some(d) = drop {
                        t.put("drop", J::Int(d.as_usize() as i128));
                    }
                }
                TerminatorKind::CoroutineDrop => t.put("k", J::s("coroutine_drop")),
                TerminatorKind::FalseEdge { real_target, .. } => {
                    t.put("k", J::s("goto"));
                    t.put("t", J::Int(real_target.as_usize() as i128));
                }
                TerminatorKind::FalseUnwind { real_target, .. } => {
                    t.put("k", J::s("goto"));
                    t.put("t", J::Int(real_target.as_usize() as i128));
                }
                TerminatorKind::InlineAsm { .. } => t.put("k", J::s("asm")),
            }
            bj.put("t", t);
            blocks.push(bj);
        }
        o.put("blocks", J::Arr(blocks));
        o
    }

    fn instance_json(&mut self, inst: Instance<'tcx>, env: TypingEnv<'tcx>, depth: u32) -> Option<J> {
        let tcx = self.tcx;
        let d = inst.def_id();
        let mut o = J::obj();
        o.put("key", J::s(self.inst_key(inst)));
        o.put("path", J::s(self.def_path(d)));
        o.put("krate", J::s(krate_name(tcx, d)));
        o.put("kind", J::s(shim_name(&inst.def)));
        o.put("args", J::Arr(inst.args.iter().map(|a| J::s(pp!(format!("{}", a)))).collect()));
        o.put("depth", J::Int(depth as i128));
        let dk = tcx.def_kind(d);
        o.put("def_kind", J::s(format!("{:?}", dk)));
        o.put("sp", span_json(tcx, tcx.def_span(d)));
        if matches!(dk, DefKind::Fn | DefKind::AssocFn) {
            let sig = tcx.fn_sig(d).instantiate_identity().skip_norm_wip();
            o.put("unsafe", J::Bool(sig.safety().is_unsafe()));
            o.put("vis", J::s(format!("{:?}", tcx.visibility(d))));
            o.put("name", J::s(tcx.item_name(d).to_string()));
        }
        if let Some(imp) = tcx.impl_of_assoc(d) {
            let self_ty = tcx.type_of(imp).instantiate_identity().skip_norm_wip();
            o.put("impl_self", J::s(ty_str(self_ty)));
            if let Some(tr) = tcx.impl_opt_trait_ref(imp) {
                let tr = tr.instantiate_identity().skip_norm_wip();
                o.put("impl_trait", J::s(self.def_path(tr.def_id)));
                o.put("impl_trait_full", J::s(pp!(format!("{}", tr))));
            }
        }
        if let Some(tr) = tcx.trait_of_assoc(d) {
            o.put("trait_default_of", J::s(self.def_path(tr)));
        }
        if tcx.is_coroutine(d) {
            o.put("coroutine", J::Bool(true));
        }
        let body: &Body<'tcx> = tcx.instance_mir(inst.def);
        o.put("body", self.body_json(inst, env, body, depth));
        if let InstanceKind::Item(did) = inst.def {
            if !tcx.is_coroutine(did) && (did.is_local() || tcx.is_mir_available(did)) {
                // promoted constants that could not be evaluated to bytes are exported as bodies
                let proms = tcx.promoted_mir(did);
                let mut pv = Vec::new();
                for pb in proms.iter() {
                    pv.push(self.body_json(inst, env, pb, depth));
                }
                if !pv.is_empty() {
                    o.put("promoted", J::Arr(pv));
                }
            }
        }
        Some(o)
    }
}

fn hex(b: &[u8]) -> String {
    let mut s = String::with_capacity(b.len() * 2);
    for x in b {
        s.push_str(&format!("{:02x}", x));
    }
    s
}

fn assert_name<'tcx>(m: &mir::AssertKind<Operand<'tcx>>) -> String {
    match m {
        mir::AssertKind::BoundsCheck { .. } => "BoundsCheck".into(),
        mir::AssertKind::Overflow(..) => "Overflow".into(),
        mir::AssertKind::OverflowNeg(..) => "OverflowNeg".into(),
        mir::AssertKind::DivisionByZero(..) => "DivisionByZero".into(),
        mir::AssertKind::RemainderByZero(..) => "RemainderByZero".into(),
        mir::AssertKind::ResumedAfterReturn(..) => "ResumedAfterReturn".into(),
        mir::AssertKind::ResumedAfterPanic(..) => "ResumedAfterPanic".into(),
        mir::AssertKind::ResumedAfterDrop(..) => "ResumedAfterDrop".into(),
        mir::AssertKind::MisalignedPointerDereference { .. } => "MisalignedPointerDereference".into(),
        mir::AssertKind::NullPointerDereference => "NullPointerDereference".into(),
        mir::AssertKind::InvalidEnumConstruction(..) => "InvalidEnumConstruction".into(),
    }
}

fn shim_name(k: &InstanceKind<'_>) -> String {
    match k {
        InstanceKind::Item(_) => "item".into(),
        InstanceKind::Intrinsic(_) => "intrinsic".into(),
        InstanceKind::VTableShim(_) => "vtable_shim".into(),
        InstanceKind::ReifyShim(..) => "reify_shim".into(),
        InstanceKind::FnPtrShim(..) => "fnptr_shim".into(),
        InstanceKind::Virtual(..) => "virtual".into(),
        InstanceKind::ClosureOnceShim { .. } => "closure_once_shim".into(),
        InstanceKind::DropGlue(..) => "drop_glue".into(),
        InstanceKind::CloneShim(..) => "clone_shim".into(),
        other => format!("{:?}", std::mem::discriminant(other)),
    }
}

// ---------------------------------------------------------------------------

struct UnsafeVisitor<'tcx> {
    tcx: TyCtxt<'tcx>,
    out: Vec<J>,
}

impl<'tcx> rustc_hir::intravisit::Visitor<'tcx> for UnsafeVisitor<'tcx> {
    type NestedFilter = rustc_middle::hir::nested_filter::OnlyBodies;
    fn maybe_tcx(&mut self) -> Self::MaybeTyCtxt {
        self.tcx
    }
    fn visit_block(&mut self, b: &'tcx rustc_hir::Block<'tcx>) {
        if let rustc_hir::BlockCheckMode::UnsafeBlock(src) = b.rules {
            let owner = b.hir_id.owner.def_id;
            let mut o = J::obj();
            o.put("owner", J::s(pp!(self.tcx.def_path_str(owner.to_def_id()))));
            o.put("sp", span_json(self.tcx, b.span));
            o.put("user", J::Bool(matches!(src, rustc_hir::UnsafeSource::UserProvided)));
            o.put("from_expansion", J::Bool(b.span.from_expansion()));
            self.out.push(o);
        }
        rustc_hir::intravisit::walk_block(self, b);
    }
}

fn new_ex<'tcx>(tcx: TyCtxt<'tcx>, crate_name: &str) -> Ex<'tcx> {
    let ws: HashSet<String> = std::env::var("MCV_WS")
        .unwrap_or_else(|_| crate_name.to_string())
        .split(',')
        .map(|s| s.to_string())
        .collect();
    Ex {
        tcx,
        ws,
        seen: HashMap::new(),
        queue: VecDeque::new(),
        adts: BTreeMap::new(),
        ext: BTreeMap::new(),
        panic_memo: HashMap::new(),
        renames: BTreeMap::new(),
        max_instances: 0, // nothing is enqueued from pre-bodies
    }
}

/// Coroutine bodies before the state-machine transform (they still contain `Yield`).
fn pre_coroutines<'tcx>(tcx: TyCtxt<'tcx>, crate_name: &str) {
    let mut ex = new_ex(tcx, crate_name);
    let mut out = Vec::new();
    for ld in tcx.hir_body_owners() {
        let d = ld.to_def_id();
        if !tcx.is_coroutine(d) {
            continue;
        }
        let (steal, _) = tcx.mir_promoted(ld);
        if steal.is_stolen() {
            continue;
        }
        let body: Body<'tcx> = steal.borrow().clone();
        let inst = Instance::new_raw(d, ty::GenericArgs::identity_for_item(tcx, d));
        let env = TypingEnv::post_analysis(tcx, d);
        let bj = ex.body_json(inst, env, &body, 0);
        let mut s = String::new();
        bj.write(&mut s);
        out.push((ex.def_path(d), s));
    }
    *PRE.lock().unwrap() = out;
}

fn export<'tcx>(tcx: TyCtxt<'tcx>, out_dir: &str, crate_name: &str) {
    let ws: HashSet<String> = std::env::var("MCV_WS")
        .unwrap_or_else(|_| crate_name.to_string())
        .split(',')
        .map(|s| s.to_string())
        .collect();
    let mut ex = Ex {
        tcx,
        ws,
        seen: HashMap::new(),
        queue: VecDeque::new(),
        adts: BTreeMap::new(),
        ext: BTreeMap::new(),
        panic_memo: HashMap::new(),
        renames: BTreeMap::new(),
        max_instances: std::env::var("MCV_MAX").ok().and_then(|s| s.parse().ok()).unwrap_or(60000),
    };

    let mut root = J::obj();
    root.put("crate", J::s(crate_name));
    // enabled cfgs (features)
    let mut cfgs = Vec::new();
    for (k, v) in tcx.sess.config.iter() {
        if let Some(v) = v {
            if k.as_str() == "feature" || k.as_str() == "target_pointer_width" {
                cfgs.push(J::s(format!("{}={}", k, v)));
            }
        } else if k.as_str() == "atomic64" || k.as_str() == "atomic32" {
            cfgs.push(J::s(k.to_string()));
        }
    }
    root.put("cfg", J::Arr(cfgs));

    // 1. coroutines: grab the pre-transform bodies before anything forces optimized_mir
    let mut coros = Vec::new();
    for ld in tcx.hir_body_owners() {
        let d = ld.to_def_id();
        if tcx.is_coroutine(d) {
            let mut co = J::obj();
            co.put("path", J::s(ex.def_path(d)));
            co.put("sp", span_json(tcx, tcx.def_span(d)));
            let pre = PRE.lock().unwrap();
            let p = ex.def_path(d);
            match pre.iter().find(|(k, _)| *k == p) {
                Some((_, s)) => co.put("pre_body", J::Raw(s.clone())),
                None => co.put("pre_body", J::Null),
            }
            drop(pre);
            if let Some(w) = tcx.mir_coroutine_witnesses(d) {
                let mut fields = Vec::new();
                for f in w.field_tys.iter() {
                    let mut fj = ex.ty_json(f.ty);
                    fj.put("sp", span_json(tcx, f.source_info.span));
                    fj.put("ignore_for_traits", J::Bool(f.ignore_for_traits));
                    fields.push(fj);
                }
                co.put("saved", J::Arr(fields));
            }
            coros.push(co);
        }
    }
    root.put("coroutines", J::Arr(coros));

    // 2. roots: every local fn-like body owner, identity substitution
    for ld in tcx.hir_body_owners() {
        let d = ld.to_def_id();
        match tcx.def_kind(d) {
            DefKind::Fn | DefKind::AssocFn | DefKind::Closure => {}
            _ => continue,
        }
        let inst = Instance::new_raw(d, ty::GenericArgs::identity_for_item(tcx, d));
        let env = TypingEnv::post_analysis(tcx, d);
        let n = ex.seen.len();
        if !ex.seen.contains_key(&inst) {
            ex.seen.insert(inst, n);
            ex.queue.push_back((inst, env, 0));
        }
    }

    let mut insts = Vec::new();
    while let Some((inst, env, depth)) = ex.queue.pop_front() {
        if let Some(j) = ex.instance_json(inst, env, depth) {
            insts.push(j);
        }
    }
    root.put("truncated", J::Bool(ex.seen.len() >= ex.max_instances));
    root.put("instances", J::Arr(insts));

    // 3. impl tables of the traits of interest
    let mut impls = Vec::new();
    for tr in tcx.all_traits_including_private() {
        ex.note_rename(tr);
        let tp = ex.def_path(tr);
        let interesting = tp.starts_with("minicbor")
            || tp.starts_with("encode::")
            || tp.starts_with("decode::")
            || tp.starts_with("bytes::")
            || tp.starts_with("serde::ser::")
            || tp.starts_with("serde::de::")
            || tp.starts_with("serde_core::");
        if !interesting {
            continue;
        }
        for imp in tcx.all_impls(tr) {
            if !imp.is_local() {
                continue;
            }
            let mut o = J::obj();
            o.put("trait", J::s(tp.clone()));
            let self_ty = tcx.type_of(imp).instantiate_identity().skip_norm_wip();
            o.put("self_ty", J::s(ty_str(self_ty)));
            if let Some(trr) = tcx.impl_opt_trait_ref(imp) {
                let trr = trr.instantiate_identity().skip_norm_wip();
                o.put("trait_ref", J::s(pp!(format!("{}", trr))));
            }
            o.put("krate", J::s(krate_name(tcx, imp)));
            o.put("sp", span_json(tcx, tcx.def_span(imp)));
            let items: Vec<J> = tcx
                .associated_items(imp)
                .in_definition_order()
                .map(|it| J::s(it.name().to_string()))
                .collect();
            o.put("items", J::Arr(items));
            impls.push(o);
        }
    }
    root.put("impls", J::Arr(impls));

    // 4. unsafe blocks (HIR)
    let mut uv = UnsafeVisitor { tcx, out: Vec::new() };
    tcx.hir_visit_all_item_likes_in_crate(&mut uv);
    root.put("unsafe_blocks", J::Arr(uv.out));

    root.put("renames", J::Obj(ex.renames.iter().map(|(k, v)| (k.clone(), J::s(v.clone()))).collect()));
    root.put("adts", J::Obj(ex.adts.into_iter().collect()));
    root.put("ext", J::Obj(ex.ext.into_iter().collect()));

    let mut s = String::new();
    root.write(&mut s);
    let suffix = std::env::var("MCV_SUFFIX").unwrap_or_default();
    let path = format!("{}/{}{}.json", out_dir, crate_name, suffix);
    let tmp = format!("{}.tmp{}", path, std::process::id());
    std::fs::write(&tmp, s).expect("write export");
    std::fs::rename(&tmp, &path).expect("rename export");
}
