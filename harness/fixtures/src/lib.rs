//! Positive controls for the census rules whose expected count on minicbor is zero.
//! Each function violates exactly one rule; the rule must report it on every run
//! (py/mcv/rules/controls.py). Never executed, only type-checked and exported.
use minicbor::decode::{Decoder, Error};

/// F-ALLOC: an allocation sized by a decoded value.
pub fn alloc_by_input(d: &mut Decoder<'_>) -> Result<Vec<u8>, Error> {
    let n = d.u64()? as usize;
    Ok(Vec::with_capacity(n))
}

/// F-PANIC: unchecked index with a decoded value.
pub fn index_by_input(d: &mut Decoder<'_>) -> Result<u8, Error> {
    let n = d.u64()? as usize;
    Ok(d.input()[n])
}

/// F-PANIC: unchecked arithmetic on a decoded value.
pub fn add_overflow(d: &mut Decoder<'_>) -> Result<u64, Error> {
    Ok(d.u64()? + 1)
}

/// F-PANIC: a diverging call.
pub fn unwrap_input(d: &mut Decoder<'_>) -> u8 {
    d.u8().unwrap()
}

/// F-UNSAFE: an unsafe block that is not in the reviewed set.
pub fn unreviewed_unsafe(b: &[u8]) -> &str {
    unsafe { core::str::from_utf8_unchecked(b) }
}

/// F-FLOAT.cast: a narrowing float cast.
pub fn narrowing(x: f64) -> f32 {
    x as f32
}

/// F-FLOAT.arith: float arithmetic.
pub fn arith(x: f32) -> f32 {
    x + 1.0
}

/// F-PUT: a writer that bypasses Encoder::put.
pub fn bypass<W: minicbor::encode::Write>(w: &mut W) -> Result<(), W::Error> {
    w.write_all(&[0])
}

/// F-LOOP: a loop in a decoding path that consumes nothing.
pub fn spin(d: &mut Decoder<'_>) -> Result<u64, Error> {
    let mut n = 0u64;
    while d.position() < d.input().len() {
        n = n.wrapping_add(1);
    }
    Ok(n)
}

/// F-RECURSION: stack depth driven by the input (one frame per tag head).
pub fn recurse_on_tags(d: &mut Decoder<'_>) -> Result<u64, Error> {
    if d.datatype()? == minicbor::data::Type::Tag {
        d.tag()?;
        return recurse_on_tags(d)
    }
    d.u64()
}
