"""Value-range abstract interpreter over exported MIR (DESIGN.md 3.2).

Not symbolic execution: there is no constraint store and no solver.  Integer values are
linear forms over *symbols* whose current interval sets form the path's *cell*; control
flow on comparisons with constants partitions the cell (trace partitioning), everything
else is an opaque atom.  Bodies are interpreted abstractly, never executed.
"""
import os
import re
from . import mir

# ---------------------------------------------------------------------------
# interval sets: sorted tuples of disjoint inclusive (lo, hi)


def iv_norm(ivs):
    ivs = sorted((lo, hi) for lo, hi in ivs if lo <= hi)
    out = []
    for lo, hi in ivs:
        if out and lo <= out[-1][1] + 1:
            out[-1] = (out[-1][0], max(out[-1][1], hi))
        else:
            out.append((lo, hi))
    return tuple(out)


def iv_and(a, b):
    out = []
    for lo1, hi1 in a:
        for lo2, hi2 in b:
            lo, hi = max(lo1, lo2), min(hi1, hi2)
            if lo <= hi:
                out.append((lo, hi))
    return iv_norm(out)


def iv_sub(a, b):
    """a minus b"""
    out = list(a)
    for lo2, hi2 in b:
        nxt = []
        for lo, hi in out:
            if hi < lo2 or lo > hi2:
                nxt.append((lo, hi))
            else:
                if lo < lo2:
                    nxt.append((lo, lo2 - 1))
                if hi > hi2:
                    nxt.append((hi2 + 1, hi))
        out = nxt
    return iv_norm(out)


def iv_min(a):
    return a[0][0]


def iv_max(a):
    return a[-1][1]


def iv_str(a):
    def h(x):
        return hex(x) if abs(x) > 9 else str(x)
    return '{' + ','.join(h(lo) if lo == hi else '%s..%s' % (h(lo), h(hi)) for lo, hi in a) + '}'


# ---------------------------------------------------------------------------
# types

INT_RE = re.compile(r'^(u|i)(8|16|32|64|128|size)$')

# width of usize / isize in the program being interpreted: set by load.program() from the target_pointer_width the export
# recorded (64 for every configuration built for the host, 32 for the *-t32 configurations)
PTR_BITS = 64


def len_cap():
    """artificial bound on symbolic lengths / positions: far below usize::MAX so that sums of a few of them do not overflow, yet
    above the widest head class that can occur (8-byte heads on 64-bit targets, 4-byte heads on 32-bit ones)"""
    return 1 << (40 if PTR_BITS == 64 else 27)


def int_info(tys):
    """(bits, signed) for an integer type name, else None."""
    m = INT_RE.match(tys)
    if not m:
        return None
    bits = PTR_BITS if m.group(2) == 'size' else int(m.group(2))
    return bits, m.group(1) == 'i'


def ty_range(tys):
    if tys == 'bool':
        return ((0, 1),)
    if tys == 'char':
        return ((0, 0xD7FF), (0xE000, 0x10FFFF))
    ii = int_info(tys)
    if ii is None:
        return None
    bits, signed = ii
    if signed:
        return ((-(1 << (bits - 1)), (1 << (bits - 1)) - 1),)
    return ((0, (1 << bits) - 1),)


def ty_from_str(s):
    from .mir import canon as _canon
    s = _canon(s.strip())
    if INT_RE.match(s):
        return {'s': s, 'k': 'int:' + s}
    if s in ('bool', 'char', 'str'):
        return {'s': s, 'k': s}
    if s in ('f32', 'f64', 'f16'):
        return {'s': s, 'k': 'float:' + s}
    if s.startswith('&'):
        m = re.match(r"^&(?:'\w+ )?(mut )?(.*)$", s)
        return {'s': s, 'k': 'ref', 'mut': bool(m.group(1)), 'to': ty_from_str(m.group(2))}
    if s.startswith('[') and s.endswith(']'):
        inner = s[1:-1]
        if ';' in inner:
            e, n = inner.rsplit(';', 1)
            try:
                nn = int(n.strip())
            except ValueError:
                nn = n.strip()
            return {'s': s, 'k': 'array', 'elem': ty_from_str(e), 'len': nn}
        return {'s': s, 'k': 'slice', 'elem': ty_from_str(inner)}
    if s.startswith('('):
        return {'s': s, 'k': 'tuple' if s != '()' else 'tuple', 'elems': [] if s == '()' else None}
    if re.match(r'^[A-Z]\w*$', s):
        return {'s': s, 'k': 'param'}
    m = re.match(r'^([\w:]+)(<(.*)>)?$', s)
    if m:
        return {'s': s, 'k': 'adt', 'adt': m.group(1), 'args': split_args(m.group(3)) if m.group(3) else []}
    return {'s': s, 'k': 'other'}


def split_args(s):
    out, depth, cur = [], 0, ''
    for ch in s:
        if ch in '<([':
            depth += 1
        elif ch in '>)]':
            depth -= 1
        if ch == ',' and depth == 0:
            out.append(cur.strip())
            cur = ''
        else:
            cur += ch
    if cur.strip():
        out.append(cur.strip())
    return out


# ---------------------------------------------------------------------------
# values (immutable)


class Val:
    __slots__ = ()


class Int(Val):
    """c + sum(coeff * sym): exact mathematical value of an integer/bool/char."""
    __slots__ = ('terms', 'c')

    def __init__(self, terms, c):
        self.terms = tuple(sorted((s, k) for s, k in terms if k != 0))
        self.c = c

    @staticmethod
    def const(n):
        return Int((), n)

    @staticmethod
    def sym(s):
        return Int(((s, 1),), 0)

    def is_const(self):
        return not self.terms

    def single(self):
        """(sym, a, b) if the value is a*sym+b with one symbol."""
        if len(self.terms) == 1:
            return self.terms[0][0], self.terms[0][1], self.c
        return None

    def __eq__(self, o):
        return isinstance(o, Int) and self.terms == o.terms and self.c == o.c

    def __hash__(self):
        return hash((self.terms, self.c))

    def __repr__(self):
        if not self.terms:
            return str(self.c)
        s = ' + '.join(('%s' % n if k == 1 else '%d*%s' % (k, n)) for n, k in self.terms)
        return s if self.c == 0 else '%s + %d' % (s, self.c)


class Cond(Val):
    """boolean: true iff sym's value is in `tset`"""
    __slots__ = ('sym', 'tset')

    def __init__(self, sym, tset):
        self.sym = sym
        self.tset = tset

    def __repr__(self):
        return '(%s in %s)' % (self.sym, iv_str(self.tset))


class Atom(Val):
    """opaque, universally quantified value"""
    __slots__ = ('name', 'ty')

    def __init__(self, name, ty=None):
        self.name = name
        self.ty = ty or {'s': '?', 'k': 'other'}

    def __eq__(self, o):
        return isinstance(o, Atom) and self.name == o.name

    def __hash__(self):
        return hash(self.name)

    def __repr__(self):
        return '<%s>' % self.name


class Adt(Val):
    __slots__ = ('adt', 'variant', 'fields')

    def __init__(self, adt, variant, fields):
        self.adt = adt
        self.variant = variant
        self.fields = tuple(fields)

    def __repr__(self):
        return '%s#%d(%s)' % (self.adt.split('::')[-1], self.variant, ', '.join(map(repr, self.fields)))


class Tup(Val):
    __slots__ = ('fields',)

    def __init__(self, fields):
        self.fields = tuple(fields)

    def __repr__(self):
        return '(%s)' % ', '.join(map(repr, self.fields))


class Arr(Val):
    """array value with known elements"""
    __slots__ = ('elems',)

    def __init__(self, elems):
        self.elems = tuple(elems)

    def __repr__(self):
        return '[%s]' % ', '.join(map(repr, self.elems))


class BeBytes(Val):
    """[u8; n] holding the big-endian bytes of integer value `val` (val fits n bytes)"""
    __slots__ = ('val', 'n', 'kind')

    def __init__(self, val, n, kind='be'):
        self.val = val
        self.n = n
        self.kind = kind

    def __repr__(self):
        return '%s%d(%r)' % (self.kind, self.n, self.val)


class Ref(Val):
    __slots__ = ('key', 'path', 'mut', 'raw')

    def __init__(self, key, path=(), mut=False, raw=False):
        self.key = key
        self.path = tuple(path)
        self.mut = mut
        self.raw = raw

    def __repr__(self):
        return '&%s%s' % (self.key, ''.join('.%s' % (p,) for p in self.path))


class Slice(Val):
    """fat pointer: `base` is a Ref to an array-like cell (or None for opaque data), `data` names opaque data"""
    __slots__ = ('base', 'data', 'len')

    def __init__(self, base, data, len_):
        self.base = base
        self.data = data
        self.len = len_

    def __repr__(self):
        return 'slice(%r, len=%r)' % (self.base if self.base is not None else self.data, self.len)


class FnItem(Val):
    __slots__ = ('f',)

    def __init__(self, f):
        self.f = f

    def __repr__(self):
        return 'fn(%s)' % (self.f.get('rkey') or self.f.get('full'))


class Clo(Val):
    __slots__ = ('key', 'caps')

    def __init__(self, key, caps):
        self.key = key
        self.caps = tuple(caps)

    def __repr__(self):
        return 'closure(%s)' % self.key


class Str(Val):
    """constant &str / &[u8]"""
    __slots__ = ('b',)

    def __init__(self, b):
        self.b = b

    def __repr__(self):
        try:
            return repr(self.b.decode())
        except Exception:
            return 'h' + self.b.hex()


UNIT = Tup(())


# ---------------------------------------------------------------------------
# control exceptions


class NeedSplit(Exception):
    """re-run the current step with `sym`'s range partitioned at the given cut points (each cut c starts a new part)."""

    def __init__(self, sym, cuts):
        self.sym = sym
        self.cuts = cuts


class NeedVariant(Exception):
    """re-run the current step with the enum-typed atom stored at (key, path) refined to each variant."""

    def __init__(self, key, path, atom):
        self.key = key
        self.path = path
        self.atom = atom


class Abort(Exception):
    """the root cannot be summarised"""


# ---------------------------------------------------------------------------


class State:
    __slots__ = ('ranges', 'mem', 'events', 'flags', 'asserts', 'symty', 'extra')

    def __init__(self):
        self.ranges = {}
        self.mem = {}
        self.events = []
        self.flags = set()
        self.asserts = []
        self.symty = {}
        self.extra = {}

    def clone(self):
        s = State()
        s.ranges = dict(self.ranges)
        s.mem = dict(self.mem)
        s.events = list(self.events)
        s.flags = set(self.flags)
        s.asserts = list(self.asserts)
        s.symty = self.symty  # shared (append-only)
        s.extra = dict(self.extra)
        return s


class Frame:
    __slots__ = ('inst', 'body', 'fid', 'bb', 'dest', 'ret_bb', 'post', 'depth')

    def __init__(self, inst, body, fid, dest=None, ret_bb=None, post=None, depth=0):
        self.inst = inst
        self.body = body
        self.fid = fid
        self.bb = 0
        self.dest = dest
        self.ret_bb = ret_bb
        self.post = post
        self.depth = depth

    def clone(self):
        f = Frame(self.inst, self.body, self.fid, self.dest, self.ret_bb, self.post, self.depth)
        f.bb = self.bb
        return f


class Config:
    __slots__ = ('st', 'stack', 'steps')

    def __init__(self, st, stack):
        self.st = st
        self.stack = stack
        self.steps = 0

    def clone(self):
        c = Config(self.st.clone(), [f.clone() for f in self.stack])
        c.steps = self.steps
        return c


class Outcome:
    __slots__ = ('st', 'kind', 'value', 'why')

    def __init__(self, st, kind, value=None, why=None):
        self.st = st
        self.kind = kind      # 'return' | 'diverge'
        self.value = value
        self.why = why


class CallThen:
    """primitive result: call `fn` with `args`, then post-process the returned value"""

    def __init__(self, fn, args, post=None):
        self.fn = fn
        self.args = args
        self.post = post


class Fork:
    """primitive result: several alternative (state-mutator, value) outcomes"""

    def __init__(self, alts):
        self.alts = alts  # list of (callable(st) or None, value)


_counter = [0]


def fresh(prefix):
    _counter[0] += 1
    return '%s#%d' % (prefix, _counter[0])


MEM_BUDGET_GB = int(os.environ.get('MCV_MEM_BUDGET_GB', '10'))


def _rss_gb():
    try:
        with open('/proc/self/statm') as fh:
            return int(fh.read().split()[1]) * 4096 / (1 << 30)
    except Exception:
        return 0


class Machine:
    def __init__(self, prog, prims=None, overrides=None, max_configs=4000, max_steps=200000, max_depth=24):
        self.prog = prog
        from .mir import canon as _canon
        self.prims = prims or {}
        if any(_canon(_k) != _k for _k in self.prims):
            self.prims = dict(self.prims)
            for _k in list(self.prims):
                self.prims.setdefault(_canon(_k), self.prims[_k])
        self.overrides = dict(overrides or {})
        for _k in list(self.overrides):
            self.overrides.setdefault(std_name(_k), self.overrides[_k])
            self.overrides.setdefault(_canon(std_name(_k)), self.overrides[_k])
        self.max_configs = max_configs
        self.max_steps = max_steps
        self.max_depth = max_depth
        self.max_len = (1 << (PTR_BITS - 1)) - 1   # L2 machines bound lengths (length arithmetic is assumed not to overflow usize)
        self.cuts = set()              # loop-head blocks of the root body: a path ends when it reaches one of them a second time
        self.fid = 0
        self.visited_blocks = {}   # inst key -> set(bb)
        self.assert_sites = {}     # (inst key, bb) -> {'ok': n, 'open': n, info}
        self.opaque_calls = {}

    # -- symbols -----------------------------------------------------------

    def new_sym(self, st, name, tys, rng=None):
        n = fresh(name) if name in st.ranges else name
        r = rng if rng is not None else ty_range(tys)
        if r is None:
            raise Abort('no range for type %s' % tys)
        st.ranges[n] = r
        st.symty[n] = tys
        return n

    def rng(self, st, v):
        """interval (lo, hi) hull of an Int value in the current cell"""
        lo = hi = v.c
        for s, k in v.terms:
            r = st.ranges[s]
            a, b = iv_min(r) * k, iv_max(r) * k
            lo += min(a, b)
            hi += max(a, b)
        return lo, hi

    # -- argument construction --------------------------------------------------

    def make_value(self, st, ty, name, depth=0):
        k = ty.get('k', 'other')
        s = ty.get('s', '?')
        if k.startswith('int:') or k in ('bool', 'char'):
            return Int.sym(self.new_sym(st, name, s))
        if k == 'ref' or k == 'ptr':
            to = ty.get('to') or {'s': '?', 'k': 'other'}
            tk = to.get('k')
            if tk in ('slice', 'str'):
                ln = Int.sym(self.new_sym(st, name + '.len', 'usize', ((0, self.max_len),)))
                return Slice(None, name + '*', ln)
            key = ('arg', name)
            st.mem[key] = self.make_value(st, to, name + '*', depth + 1)
            return Ref(key, (), ty.get('mut', False))
        if k in ('slice', 'str'):
            return Slice(None, name, self.len_sym(st, name))
        if k == 'tuple':
            el = ty.get('elems')
            if el is not None:
                return Tup([self.make_value(st, e, '%s.%d' % (name, i), depth + 1) for i, e in enumerate(el)])
            return Atom(name, ty)
        if k == 'array' and isinstance(ty.get('len'), int) and ty['len'] <= 32:
            return Arr([self.make_value(st, ty['elem'], '%s[%d]' % (name, i), depth + 1) for i in range(ty['len'])])
        if k == 'adt':
            ad = self.prog.adts.get(ty.get('adt'))
            if ad and (ad['kind'] == 'struct' or (ad['kind'] == 'enum' and len(ad['variants']) == 1)) and depth < 4 and ad['krate'] in self.prog_ws():
                # (a one-variant enum has no discriminant to split on: expand it like a struct)
                return self.make_variant(st, ty, ad, 0, name, depth)
        return Atom(name, ty)

    def prog_ws(self):
        return set(self.prog.crates) | {'minicbor', 'minicbor_serde', 'minicbor_io'}

    def make_variant(self, st, ty, ad, vi, name, depth=0):
        v = ad['variants'][vi]
        params = ad.get('params', [])
        args = ty.get('args', [])
        sub = {}
        ai = [a for a in args if not a.startswith("'")]
        pi = [p for p in params if not p.startswith("'")]
        for p, a in zip(pi, ai):
            sub[p] = a
        fields = []
        for fn_, ft in zip(v['fields'], v['tys']):
            fts = sub.get(ft, ft)
            if fts != ft:
                fty = ty_from_str(fts)
            else:
                fty = ty_from_str(subst_str(ft, sub))
            fields.append(self.make_value(st, fty, '%s.%s' % (name, fn_), depth + 1))
        return Adt(ty.get('adt'), vi, fields)

    # -- memory ---------------------------------------------------------------

    def read_path(self, st, key, path):
        v = st.mem.get(key)
        if v is None:
            v = Atom('uninit:%s' % (key,))
        for p in path:
            v = self.project(st, v, p)
        if isinstance(v, Atom):
            rf = st.extra.get('refined')
            if rf and v.name in rf:
                return rf[v.name]
        return v

    def project(self, st, v, p):
        if isinstance(v, Atom):
            rf = st.extra.get('refined')
            if rf and v.name in rf:
                v = rf[v.name]
        kind = p[0]
        if kind == 'f':
            i = p[1]
            if isinstance(v, (Adt, Tup)):
                if i < len(v.fields):
                    return v.fields[i]
                return Atom('badfield')
            if isinstance(v, Clo):
                return v.caps[i] if i < len(v.caps) else Atom('badcap')
            if isinstance(v, Atom):
                return Atom('%s.%s' % (v.name, p[2] if len(p) > 2 and p[2] is not None else i), self.field_ty(v.ty, p))
            if isinstance(v, Slice) and i == 0:
                return v
            return Atom('proj.%s' % i)
        if kind == 'v':
            return v
        if kind == 'i':
            idx = p[1]
            if isinstance(v, Arr) and isinstance(idx, int) and 0 <= idx < len(v.elems):
                return v.elems[idx]
            if isinstance(v, BeBytes) and isinstance(idx, int):
                b_ = self.be_byte(st, v, idx)
                if b_ is not None:
                    return b_
                return Atom('byte%d(%r)' % (idx, v.val), {'s': 'u8', 'k': 'int:u8'})
            return Atom('%r[%r]' % (v, idx))
        raise Abort('projection %r' % (p,))

    BYTE_BOUNDS = (0x18, 0x100, 0x10000, 0x100000000)

    def be_byte(self, st, v, idx):
        """byte `idx` of the big-endian image of an integer value (pattern matching on `x.to_be_bytes()`).
        Exact where the cell fixes all higher bytes (a constant, or `x - base` for the lowest byte); a cell that spans the natural
        boundaries of CBOR heads (0x18, 2^8, 2^16, 2^32) is partitioned there first; inside such a cell the leading non-zero byte
        is a symbol ranging over 1..=255 (enough to decide `== 0` tests), lower bytes are symbols over 0..=255.  The symbols are
        registered in st.extra['bytesyms'] so that a run of trailing byte symbols can be read back as the shorter big-endian image."""
        val = v.val
        if v.kind != 'be' or not isinstance(val, Int) or not (0 <= idx < v.n):
            return None
        try:
            lo, hi = self.rng(st, val)
        except KeyError:
            return None
        if lo < 0 or hi >= 1 << (8 * v.n):
            return None
        shift = 8 * (v.n - 1 - idx)
        B = 1 << shift
        BB = B << 8
        if lo // BB == hi // BB:
            base = (lo // BB) * BB
            if B == 1:
                return lin_add(val, Int.const(base), -1)
            if (lo - base) // B == (hi - base) // B:
                return Int.const((lo - base) // B)
        sg = val.single()
        if sg and sg[1] in (1, -1):
            s_, k_, c_ = sg
            cuts = []
            for b in self.BYTE_BOUNDS:
                if lo < b <= hi:
                    cuts.append(b - c_ if k_ == 1 else c_ - b + 1)
            cuts = [c for c in cuts if iv_min(st.ranges[s_]) < c <= iv_max(st.ranges[s_])]
            if cuts:
                raise NeedSplit(s_, sorted(set(cuts)))
        if hi < B:
            return Int.const(0)
        nm = 'byte%d/%d(%r)' % (idx, v.n, val)
        exact_div = hi < BB            # all higher bytes are zero on this cell: the byte is val div B
        new = ((lo // B, hi // B),) if exact_div else ((0, 255),)
        if nm in st.ranges:
            new = iv_and(st.ranges[nm], new) or new
        st.ranges[nm] = new
        st.symty[nm] = 'u8'
        d = dict(st.extra.get('bytesyms') or {})
        d[nm] = (val, v.n, idx, exact_div)
        st.extra['bytesyms'] = d
        if len(new) == 1 and new[0][0] == new[0][1]:
            return Int.const(new[0][0])
        return Int.sym(nm)

    def byte_switch_cuts(self, st, d, values):
        """a switch on a byte symbol that is `val div B`: partition val at the blocks of the tested values first"""
        sg = d.single() if isinstance(d, Int) else None
        bs = st.extra.get('bytesyms') or {}
        if not (sg and sg[1] == 1 and sg[2] == 0 and sg[0] in bs):
            return
        val, n, idx, exact_div = bs[sg[0]]
        if not exact_div:
            return
        vsg = val.single()
        if not (vsg and vsg[1] in (1, -1)):
            return
        s_, k_, c_ = vsg
        B = 1 << (8 * (n - 1 - idx))
        try:
            lo, hi = self.rng(st, val)
        except KeyError:
            return
        cuts = []
        for v_ in values:
            for b in (v_ * B, (v_ + 1) * B):
                if lo < b <= hi:
                    cuts.append(b - c_ if k_ == 1 else c_ - b + 1)
        cuts = [c for c in cuts if iv_min(st.ranges[s_]) < c <= iv_max(st.ranges[s_])]
        if cuts:
            raise NeedSplit(s_, sorted(set(cuts)))

    def field_ty(self, ty, p):
        if ty and ty.get('k') == 'tuple' and ty.get('elems') and p[1] < len(ty['elems']):
            return ty['elems'][p[1]]
        if ty and ty.get('k') == 'adt':
            ad = self.prog.adts.get(ty.get('adt'))
            if ad and ad['kind'] == 'struct':
                v = ad['variants'][0]
                if p[1] < len(v['tys']):
                    params = [x for x in ad.get('params', []) if not x.startswith("'")]
                    args = [a for a in ty.get('args', []) if not a.startswith("'")]
                    return ty_from_str(subst_str(v['tys'][p[1]], dict(zip(params, args))))
        return None

    def write_path(self, st, key, path, val):
        if not path:
            st.mem[key] = val
            return
        st.mem[key] = self.update(st, st.mem.get(key), path, val)

    def update(self, st, cur, path, val):
        if not path:
            return val
        p = path[0]
        if p[0] == 'v':
            return self.update(st, cur, path[1:], val)
        if p[0] == 'f':
            i = p[1]
            if isinstance(cur, Adt):
                fs = list(cur.fields)
                while len(fs) <= i:
                    fs.append(Atom('uninit'))
                fs[i] = self.update(st, fs[i], path[1:], val)
                return Adt(cur.adt, cur.variant, fs)
            if isinstance(cur, Tup):
                fs = list(cur.fields)
                while len(fs) <= i:
                    fs.append(Atom('uninit'))
                fs[i] = self.update(st, fs[i], path[1:], val)
                return Tup(fs)
            if isinstance(cur, Clo):
                fs = list(cur.caps)
                while len(fs) <= i:
                    fs.append(Atom('uninit'))
                fs[i] = self.update(st, fs[i], path[1:], val)
                return Clo(cur.key, fs)
            if cur is None or isinstance(cur, Atom):
                # materialise a partially known aggregate
                base = cur.name if isinstance(cur, Atom) else 'uninit'
                n = i + 1
                ty = cur.ty if isinstance(cur, Atom) else None
                ad = self.prog.adts.get(ty.get('adt')) if ty and ty.get('k') == 'adt' else None
                if ad and ad['kind'] == 'struct':
                    n = max(n, len(ad['variants'][0]['fields']))
                    fs = [Atom('%s.%s' % (base, ad['variants'][0]['fields'][j]), self.field_ty(ty, ('f', j))) for j in range(n)]
                    fs[i] = self.update(st, fs[i], path[1:], val)
                    return Adt(ty['adt'], 0, fs)
                fs = [Atom('%s.%d' % (base, j)) for j in range(n)]
                fs[i] = self.update(st, fs[i], path[1:], val)
                return Tup(fs)
        if p[0] == 'i' and isinstance(cur, Arr) and isinstance(p[1], int):
            es = list(cur.elems)
            es[p[1]] = self.update(st, es[p[1]], path[1:], val)
            return Arr(es)
        st.flags.add('imprecise:write')
        return Atom(fresh('havoc'))

    def resolve(self, cfg, fr, place):
        """place -> (key, path) following dereferences; key None for opaque targets"""
        st = cfg.st
        key = (fr.fid, place['l'])
        path = []
        for pj in place.get('p', ()):
            k = pj['k']
            if k == 'deref':
                v = self.read_path(st, key, path)
                if isinstance(v, Ref):
                    key, path = v.key, list(v.path)
                elif isinstance(v, Slice) and v.base is not None:
                    key, path = v.base.key, list(v.base.path)
                else:
                    # opaque pointee: give it a stable cell
                    nm = v.name if isinstance(v, Atom) else (v.data if isinstance(v, Slice) else repr(v))
                    key2 = ('opaque', nm)
                    if key2 not in st.mem:
                        ty = None
                        if isinstance(v, Atom) and v.ty and v.ty.get('to'):
                            ty = v.ty['to']
                        st.mem[key2] = Atom(nm + '*', ty) if not isinstance(v, Slice) else v
                    key, path = key2, []
            elif k == 'field':
                path.append(('f', pj['i'], pj.get('n')))
            elif k == 'downcast':
                path.append(('v', pj['v']))
            elif k == 'index':
                iv = self.read_path(st, (fr.fid, pj['l']), [])
                if isinstance(iv, Int) and iv.is_const():
                    path.append(('i', iv.c))
                else:
                    path.append(('i', iv))
            elif k == 'cindex':
                path.append(('i', pj['off'] if not pj['from_end'] else ('end', pj['off'])))
            else:
                raise Abort('projection kind ' + k)
        return key, path

    def read_place(self, cfg, fr, place):
        key, path = self.resolve(cfg, fr, place)
        return self.read_path(cfg.st, key, path)

    def write_place(self, cfg, fr, place, val):
        key, path = self.resolve(cfg, fr, place)
        self.write_path(cfg.st, key, path, val)

    # -- operands / rvalues ---------------------------------------------------

    def operand(self, cfg, fr, op):
        if 'copy' in op or 'move' in op:
            v = self.read_place(cfg, fr, op.get('copy') or op.get('move'))
            if isinstance(v, Atom):
                kn = cfg.st.extra.get('known')
                if kn and v.name in kn:
                    return Int.const(kn[v.name])
            return v
        if 'const' in op:
            return self.const(cfg, fr, op['const'])
        if 'rtcheck' in op:
            # UbChecks / OverflowChecks / ContractChecks: build-profile dependent; both values possible
            return Atom('rtcheck:' + op['rtcheck'], {'s': 'bool', 'k': 'bool'})
        raise Abort('operand %r' % op)

    def const(self, cfg, fr, c):
        if 'fn' in c:
            return FnItem(c['fn'])
        if 'v' in c:
            return Int.const(c['v'])
        if 'bytes' in c:
            b = bytes.fromhex(c['bytes'])
            return Str(b)
        if 'promoted' in c and (fr.inst.get('promoted') or []) and c['promoted'] < len(fr.inst['promoted']):
            return self.eval_promoted(cfg, fr, c['promoted'])
        if 'alloc' in c:
            b = bytes.fromhex(c['alloc'])
            key = ('const', c.get('s', '') + c['alloc'])
            ty = c.get('ty', '')
            if ty.startswith('&[u8'):
                cfg.st.mem[key] = Arr([Int.const(x) for x in b])
                return Ref(key, ())
            if ty.startswith('&') and int_info(ty[1:]):
                bits, signed = int_info(ty[1:])
                if len(b) == bits // 8:
                    v = int.from_bytes(b, 'little', signed=signed)
                    cfg.st.mem[key] = Int.const(v)
                    return Ref(key, ())
            cfg.st.mem[key] = Atom('const:%s' % c.get('s'), None)
            return Ref(key, ())
        if c.get('zst'):
            return UNIT
        if 'bits' in c:
            return Atom('fconst:%s:%x' % (c['ty'], c['bits']), ty_from_str(c['ty']))
        if 'promoted' in c:
            return self.eval_promoted(cfg, fr, c['promoted'])
        if int_info(c.get('ty', '')):
            nm = 'const:%s' % c.get('s')
            if nm not in cfg.st.ranges:
                cfg.st.ranges[nm] = ty_range(c['ty']) if c['ty'] != 'usize' else ((0, len_cap()),)
                cfg.st.symty[nm] = c['ty']
            return Int.sym(nm)
        return Atom('const:%s' % c.get('s'), ty_from_str(c.get('ty', '?')))

    def eval_promoted(self, cfg, fr, idx):
        proms = fr.inst.get('promoted') or []
        if idx >= len(proms):
            return Atom('promoted%d' % idx)
        body = proms[idx]
        self.fid += 1
        pf = Frame(fr.inst, body, self.fid)
        # promoted bodies are straight-line; a call in them is a const fn (`RangeInclusive::new(lo, hi)`): followed when it is a
        # primitive with a plain value
        bi = 0
        for _ in range(len(body['blocks']) + 1):
            b = body['blocks'][bi]
            for s in b['s']:
                self.stmt(cfg, pf, s)
            t = b['t']
            if t['k'] == 'return':
                return self.read_path(cfg.st, (pf.fid, 0), [])
            if t['k'] == 'goto':
                bi = t['t']
                continue
            if t['k'] == 'call' and t.get('dest') is not None and 't' in t:
                f = t.get('f') or {}
                names = [x for n_ in (f.get('rpath'), f.get('path')) if n_ for x in (n_, std_name(n_))]
                h = None
                from . import prims as _pr
                for n_ in names:
                    h = getattr(_pr, 'CONST_FNS', {}).get(n_) or self.overrides.get(n_) or self.prims.get(n_)
                    if h:
                        break
                if h is None:
                    return Atom('promoted%d' % idx)
                args = [self.operand(cfg, pf, a) for a in t['args']]
                r = h(self, cfg, f, args, t)
                if r is NotImplemented or isinstance(r, (Fork, CallThen, Outcome, list)):
                    return Atom('promoted%d' % idx)
                self.write_place(cfg, pf, t['dest'], r)
                bi = t['t']
                continue
            return Atom('promoted%d' % idx)
        return Atom('promoted%d' % idx)

    def len_sym(self, st, name):
        nm = 'len(%s)' % name
        if nm not in st.ranges:
            st.ranges[nm] = ((0, len_cap()),)
            st.symty[nm] = 'usize'
        return Int.sym(nm)

    def fit(self, st, v, tys):
        """is Int value v provably within type tys on this cell?"""
        r = ty_range(tys)
        if r is None:
            return False
        lo, hi = self.rng(st, v)
        ub = (st.extra.get('ub') or {}).get(repr(v))
        if ub is not None:
            hi = min(hi, ub)
        return iv_min(r) <= lo and hi <= iv_max(r)

    def add_ub(self, st, v, bound):
        """record the fact `v <= bound` for a (possibly multi-symbol) linear value on this path"""
        if isinstance(v, Int):
            sg = v.single()
            if sg and sg[1] == 1:
                s_, _, c_ = sg
                st.ranges[s_] = iv_and(st.ranges[s_], ((iv_min(st.ranges[s_]), bound - c_),)) or st.ranges[s_]
            d = dict(st.extra.get('ub') or {})
            d[repr(v)] = min(bound, d.get(repr(v), bound))
            st.extra['ub'] = d
            st.extra['ubs'] = tuple(st.extra.get('ubs') or ()) + ((v, bound),)

    def binop(self, cfg, fr, op, a, b, tys, sp):
        st = cfg.st
        base = op.replace('WithOverflow', '').replace('Unchecked', '')
        with_of = op.endswith('WithOverflow')
        a = self.as_int(st, a)
        b = self.as_int(st, b)
        res = None
        if base in ('Add', 'Sub', 'Mul') and isinstance(a, Int) and isinstance(b, Int):
            if base == 'Add':
                res = lin_add(a, b, 1)
            elif base == 'Sub':
                res = lin_add(a, b, -1)
            elif a.is_const():
                res = Int([(s, k * a.c) for s, k in b.terms], b.c * a.c)
            elif b.is_const():
                res = Int([(s, k * b.c) for s, k in a.terms], a.c * b.c)
            if res is not None:
                if self.fit(st, res, tys):
                    return Tup([res, Int.const(0)]) if with_of else res
                lo, hi = self.rng(st, res)
                r = ty_range(tys)
                if r and (hi < iv_min(r) or lo > iv_max(r)) and with_of:
                    return Tup([Atom(fresh('wrapped'), ty_from_str(tys)), Int.const(1)])
                # partially overflowing: try to split a single symbol at the boundary
                sg = res.single()
                if sg and r:
                    s_, k_, c_ = sg
                    cuts = []
                    for bound in (iv_min(r), iv_max(r) + 1):
                        # a*s + c >= bound  <=> s >= ceil((bound-c)/a)  (a>0)
                        if k_ > 0:
                            cuts.append(-((-(bound - c_)) // k_))
                        else:
                            cuts.append((bound - c_) // k_ + 1)
                    cuts = [c for c in cuts if iv_min(st.ranges[s_]) < c <= iv_max(st.ranges[s_])]
                    if cuts:
                        raise NeedSplit(s_, cuts)
                st.flags.add('imprecise:overflow')
                w = Atom(fresh('wrapped'), ty_from_str(tys))
                return Tup([w, Atom(fresh('of'), {'s': 'bool', 'k': 'bool'})]) if with_of else w
        if base in ('Lt', 'Le', 'Gt', 'Ge', 'Eq', 'Ne'):
            return self.compare(st, base, a, b)
        if base in ('BitAnd', 'BitOr', 'BitXor') and isinstance(a, Int) and isinstance(b, Int):
            return self.bitop(st, base, a, b, tys)
        if base in ('Shl', 'Shr') and isinstance(a, Int) and isinstance(b, Int) and b.is_const():
            ii = int_info(tys)
            if a.is_const():
                v_ = (a.c << b.c) if base == 'Shl' else (a.c >> b.c)
                if base == 'Shl' and ii:
                    v_ &= (1 << ii[0]) - 1
                    if ii[1] and v_ >= 1 << (ii[0] - 1):
                        v_ -= 1 << ii[0]
                return Int.const(v_)
            lo, hi = self.rng(st, a)
            if lo >= 0 and 0 <= b.c < 128:
                if base == 'Shl':
                    res = Int([(s_, k_ << b.c) for s_, k_ in a.terms], a.c << b.c)
                    if self.fit(st, res, tys):
                        return res
                else:
                    r_ = self.blockwise(st, a, 1 << b.c, lo, hi, 'div')
                    if r_ is not None:
                        return r_
        if base in ('Div', 'Rem') and isinstance(a, Int) and isinstance(b, Int) and a.is_const() and b.is_const() and b.c != 0:
            q = abs(a.c) // abs(b.c) * (1 if (a.c >= 0) == (b.c >= 0) else -1)
            return Int.const(q if base == 'Div' else a.c - q * b.c)
        if base in ('Div', 'Rem') and isinstance(a, Int) and isinstance(b, Int) and b.is_const() and b.c > 0:
            lo, hi = self.rng(st, a)
            if lo >= 0:
                r_ = self.blockwise(st, a, b.c, lo, hi, 'div' if base == 'Div' else 'rem')
                if r_ is not None:
                    return r_
        if base == 'Cmp':
            return Atom(fresh('ordering'))
        if base == 'Offset':
            return Atom(fresh('ptr'))
        st.flags.add('imprecise:binop:' + base)
        if with_of:
            return Tup([Atom(fresh('top'), ty_from_str(tys)), Atom(fresh('of'), {'s': 'bool', 'k': 'bool'})])
        if base in ('Lt', 'Le', 'Gt', 'Ge', 'Eq', 'Ne'):
            if isinstance(a, (Atom, Int)) and isinstance(b, (Atom, Int)):
                nm = lambda x: x.name if isinstance(x, Atom) else repr(x)
                return Atom('%s(%s,%s)' % (base, nm(a), nm(b)), {'s': 'bool', 'k': 'bool'})
            return Atom(fresh('cmp'), {'s': 'bool', 'k': 'bool'})
        return Atom(fresh('top'), ty_from_str(tys))

    def as_int(self, st, v):
        if isinstance(v, Cond):
            # booleans as 0/1 are only used through switch; keep as is
            return v
        return v

    def compare(self, st, op, a, b):
        if isinstance(a, Int) and isinstance(b, Int):
            d = lin_add(a, b, -1)  # a - b
            if d.is_const():
                x = d.c
                r = {'Lt': x < 0, 'Le': x <= 0, 'Gt': x > 0, 'Ge': x >= 0, 'Eq': x == 0, 'Ne': x != 0}[op]
                return Int.const(1 if r else 0)
            lo, hi = self.rng(st, d)
            # decided by ranges?
            dec = None
            if op == 'Lt':
                dec = True if hi < 0 else (False if lo >= 0 else None)
            elif op == 'Le':
                dec = True if hi <= 0 else (False if lo > 0 else None)
            elif op == 'Gt':
                dec = True if lo > 0 else (False if hi <= 0 else None)
            elif op == 'Ge':
                dec = True if lo >= 0 else (False if hi < 0 else None)
            elif op == 'Eq':
                dec = False if (lo > 0 or hi < 0) else None
            elif op == 'Ne':
                dec = True if (lo > 0 or hi < 0) else None
            if dec is not None:
                return Int.const(1 if dec else 0)
            sg = d.single()
            if sg:
                s, k, c = sg
                full = st.ranges[s]
                # k*s + c  OP 0
                tset = []
                for lo_, hi_ in full:
                    tset.extend(solve_cmp(op, k, c, lo_, hi_))
                return Cond(s, iv_norm(tset))
        if isinstance(a, Cond) and isinstance(b, Int) and b.is_const() and op in ('Eq', 'Ne'):
            want = (b.c != 0) == (op == 'Eq')
            return a if want else Cond(a.sym, iv_sub(st.ranges[a.sym], a.tset))
        if isinstance(a, Int) and isinstance(b, Int):
            kn = st.extra.get('known')
            if kn:
                # consequences of comparisons of the same two values already decided on this path
                ra, rb = repr(a), repr(b)
                facts = []   # list of (relation that holds) among '<', '<=', '>', '>=', '==', '!='
                for o2, rel1, rel0 in (('Lt', '<', '>='), ('Le', '<=', '>'), ('Gt', '>', '<='), ('Ge', '>=', '<'), ('Eq', '==', '!='), ('Ne', '!=', '==')):
                    v = kn.get('%s(%s,%s)' % (o2, ra, rb))
                    if v is not None:
                        facts.append(rel1 if v else rel0)
                    v = kn.get('%s(%s,%s)' % (o2, rb, ra))
                    if v is not None:
                        r_ = rel1 if v else rel0
                        facts.append({'<': '>', '<=': '>=', '>': '<', '>=': '<=', '==': '==', '!=': '!='}[r_])
                want = {'Lt': '<', 'Le': '<=', 'Gt': '>', 'Ge': '>=', 'Eq': '==', 'Ne': '!='}[op]
                implies = {'<': {'<', '<=', '!='}, '<=': {'<='}, '>': {'>', '>=', '!='}, '>=': {'>='}, '==': {'==', '<=', '>='}, '!=': {'!='}}
                refutes = {'<': {'>', '>=', '=='}, '<=': {'>'}, '>': {'<', '<=', '=='}, '>=': {'<'}, '==': {'!=', '<', '>'}, '!=': {'=='}}
                for fct in facts:
                    if want in implies[fct]:
                        return Int.const(1)
                    if want in refutes[fct]:
                        return Int.const(0)
        st.flags.add('imprecise:compare')
        if isinstance(a, Int) and isinstance(b, Int):
            # relation between two different symbols: a named truth value (branches on it stay consistent via `known`)
            return Atom('%s(%r,%r)' % (op, a, b), {'s': 'bool', 'k': 'bool'})
        if isinstance(a, (Atom, Int)) and isinstance(b, (Atom, Int)):
            # two opaque values: the comparison gets a deterministic name, so that later tests of the same relation agree
            # and rules can see which relation a path has established
            nm = lambda x: x.name if isinstance(x, Atom) else repr(x)
            return Atom('%s(%s,%s)' % (op, nm(a), nm(b)), {'s': 'bool', 'k': 'bool'})
        return Atom(fresh('cmp'), {'s': 'bool', 'k': 'bool'})

    def blockwise(self, st, a, blk, lo, hi, what):
        """a div blk / a rem blk for a non-negative linear value: exact inside one block of `blk` consecutive values (quotient
        constant, remainder = a - base); a value spanning several blocks is partitioned at the block boundaries"""
        if lo // blk == hi // blk:
            q = lo // blk
            return Int.const(q) if what == 'div' else lin_add(a, Int.const(q * blk), -1)
        sg = a.single()
        if sg and sg[1] == 1:
            cuts = [c_ - sg[2] for c_ in range((lo // blk + 1) * blk, hi + 1, blk)]
            if len(cuts) <= 64:
                raise NeedSplit(sg[0], cuts)
        return None

    def bitop(self, st, op, a, b, tys):
        if a.is_const() and b.is_const():
            f = {'BitAnd': lambda x, y: x & y, 'BitOr': lambda x, y: x | y, 'BitXor': lambda x, y: x ^ y}[op]
            return Int.const(f(a.c, b.c))
        if a.is_const():
            a, b = b, a
        if not b.is_const():
            st.flags.add('imprecise:bitop')
            return Atom(fresh('bits'), ty_from_str(tys))
        m = b.c
        lo, hi = self.rng(st, a)
        if lo < 0:
            st.flags.add('imprecise:bitop')
            return Atom(fresh('bits'), ty_from_str(tys))
        if op == 'BitOr':
            # c | e == c + e when e's bits do not overlap c's
            if hi < (m & -m if m else 1 << 200) or m == 0:
                return lin_add(a, Int.const(m), 1)
            st.flags.add('imprecise:bitor')
            return Atom(fresh('bits'), ty_from_str(tys))
        if op == 'BitAnd':
            if m == 0:
                return Int.const(0)
            # low mask 2^k - 1 : value mod 2^k ; high mask: value - (value mod 2^k) (within the type width)
            if (m + 1) & m == 0:
                blk = m + 1
                if lo // blk == hi // blk:
                    return lin_add(a, Int.const((lo // blk) * blk), -1)
                sg = a.single()
                if sg and sg[1] == 1 and sg[2] == 0:
                    cuts = list(range((lo // blk + 1) * blk, hi + 1, blk))
                    if len(cuts) <= 64:
                        raise NeedSplit(sg[0], cuts)
            else:
                low = (m & -m)  # lowest set bit
                ii = int_info(tys)
                width_mask = (1 << ii[0]) - 1 if ii else None
                if width_mask is not None and hi <= width_mask and (m | (low - 1)) >= hi | (low - 1) and ((m >> (low.bit_length() - 1)) + 1) & (m >> (low.bit_length() - 1)) == 0:
                    # m keeps all bits >= low : value rounded down to a multiple of `low`
                    if lo // low == hi // low:
                        return Int.const((lo // low) * low)
                    sg = a.single()
                    if sg and sg[1] == 1 and sg[2] == 0:
                        cuts = list(range((lo // low + 1) * low, hi + 1, low))
                        if len(cuts) <= 64:
                            raise NeedSplit(sg[0], cuts)
        st.flags.add('imprecise:bitop')
        return Atom(fresh('bits'), ty_from_str(tys))

    def cast(self, cfg, kind, v, to, frm):
        st = cfg.st
        tk = to.get('k', '')
        if kind == 'IntToInt':
            if isinstance(v, Cond):
                return v
            if isinstance(v, Int):
                ts = to['s']
                if self.fit(st, v, ts):
                    return v
                r = ty_range(ts)
                ii = int_info(ts)
                lo, hi = self.rng(st, v)
                if ii and r:
                    m = 1 << ii[0]
                    # value entirely in one wrapped window: v + j*m fits
                    for j in (1, -1):
                        if iv_min(r) <= lo + j * m and hi + j * m <= iv_max(r):
                            return lin_add(v, Int.const(j * m), 1)
                    sg = v.single()
                    if sg:
                        s_, k_, c_ = sg
                        cuts = []
                        for bound in (iv_min(r), iv_max(r) + 1, iv_min(r) + m, iv_max(r) + 1 - m):
                            if k_ > 0:
                                cuts.append(-((-(bound - c_)) // k_))
                            else:
                                cuts.append((bound - c_) // k_ + 1)
                        cuts = sorted(set(c for c in cuts if iv_min(st.ranges[s_]) < c <= iv_max(st.ranges[s_])))
                        if cuts and len(cuts) <= 4 and (hi - lo) < 2 * m:
                            raise NeedSplit(s_, cuts)
                st.flags.add('trunc-cast:%s->%s' % (frm.get('s'), ts))
                return Atom(fresh('trunc'), to)
            if isinstance(v, Atom):
                fr_, tr_ = ty_range(frm.get('s', '')), ty_range(to.get('s', ''))
                if fr_ and tr_ and iv_min(tr_) <= iv_min(fr_) and iv_max(fr_) <= iv_max(tr_):
                    return Atom(v.name, to)   # value-preserving widening
                return Atom('(%s as %s)' % (v.name, to.get('s')), to)
            return Atom(fresh('cast'), to)
        if kind.startswith('PointerCoercion(Unsize'):
            if isinstance(v, Ref):
                tgt = self.read_path(st, v.key, v.path)
                if isinstance(tgt, Arr):
                    return Slice(v, None, Int.const(len(tgt.elems)))
                if isinstance(tgt, BeBytes):
                    return Slice(v, None, Int.const(tgt.n))
                ft = frm.get('to') or {}
                if ft.get('k') == 'array' and isinstance(ft.get('len'), int):
                    return Slice(v, None, Int.const(ft['len']))
                if ft.get('k') == 'array' and isinstance(ft.get('len'), str) and ft['len'].isidentifier():
                    nm = 'const:%s' % ft['len']
                    if nm not in st.ranges:
                        st.ranges[nm] = ((0, len_cap()),)
                        st.symty[nm] = 'usize'
                    return Slice(v, None, Int.sym(nm))
            if isinstance(v, Atom):
                ft = frm.get('to') or {}
                if ft.get('k') == 'array' and isinstance(ft.get('len'), int):
                    return Slice(None, v.name, Int.const(ft['len']))
            return v
        if kind in ('PtrToPtr', 'Subtype', 'PointerCoercion(MutToConstPointer, Implicit)', 'PointerCoercion(ArrayToPointer, Implicit)'):
            return v
        if kind.startswith('PointerCoercion('):
            return v
        if kind in ('FloatToFloat', 'IntToFloat', 'FloatToInt'):
            nm = v.name if isinstance(v, Atom) else repr(v)
            return Atom('%s(%s)' % (kind, nm), to)
        if kind == 'Transmute':
            if isinstance(v, (Slice, Str)) and to.get('k') in ('ref', 'ptr') and (to.get('to') or {}).get('k') in ('slice', 'str'):
                return v          # a fat pointer re-typed as another fat pointer to the same data (Box<[T]> / NonNull<[T]> / *const [T])
            return Atom('transmute(%r)' % (v,), to)
        return Atom(fresh('cast:' + kind), to)

    def rvalue(self, cfg, fr, r, dest_ty):
        st = cfg.st
        rv = r['rv']
        if rv == 'use':
            return self.operand(cfg, fr, r['a'])
        if rv == 'ref' or rv == 'rawptr':
            pj = r['p'].get('p') or []
            # a place whose own type is a (fat) pointer is a cell holding that pointer: `&mut *x` with x: &mut &mut [u8]
            holds_ptr = self.local_ty(fr, r['p']).get('k') in ('ref', 'ptr')
            if pj and pj[-1]['k'] == 'deref' and not holds_ptr:
                inner = self.read_place(cfg, fr, {'l': r['p']['l'], 'p': pj[:-1]})
                if isinstance(inner, (Slice, Str)):
                    return inner  # reborrow of a fat pointer
            key, path = self.resolve(cfg, fr, r['p'])
            cur = self.read_path(st, key, path)
            if isinstance(cur, Slice) and r['p'].get('p') and r['p']['p'][-1]['k'] == 'deref' and not holds_ptr:
                return cur  # reborrow of a slice
            return Ref(key, path, r.get('mut', False), rv == 'rawptr')
        if rv == 'bin':
            a = self.operand(cfg, fr, r['a'])
            b = self.operand(cfg, fr, r['b'])
            tys = dest_ty['s'] if dest_ty.get('k') != 'tuple' else (dest_ty.get('elems') or [{'s': '?'}])[0]['s']
            if r['op'] in ('Lt', 'Le', 'Gt', 'Ge', 'Eq', 'Ne'):
                tys = 'bool'
            return self.binop(cfg, fr, r['op'], a, b, tys, None)
        if rv == 'un':
            a = self.operand(cfg, fr, r['a'])
            op = r['op']
            if op == 'Not':
                if isinstance(a, Cond):
                    return Cond(a.sym, iv_sub(st.ranges[a.sym], a.tset))
                if isinstance(a, Int) and dest_ty.get('k') == 'bool':
                    return lin_add(Int.const(1), a, -1)
                if isinstance(a, Int) and a.is_const():
                    ii = int_info(dest_ty['s'])
                    if ii:
                        return Int.const((~a.c) & ((1 << ii[0]) - 1) if not ii[1] else ~a.c)
                if isinstance(a, Int):
                    # two's complement: !x == -1 - x (signed), == MAX - x (unsigned)
                    ii = int_info(dest_ty.get('s', ''))
                    if ii:
                        res = lin_add(Int.const(-1 if ii[1] else (1 << ii[0]) - 1), a, -1)
                        if self.fit(st, res, dest_ty['s']):
                            return res
                return Atom(fresh('not'), dest_ty)
            if op == 'Neg':
                if isinstance(a, Int):
                    res = Int([(s, -k) for s, k in a.terms], -a.c)
                    if self.fit(st, res, dest_ty['s']):
                        return res
                return Atom(fresh('neg'), dest_ty)
            if op == 'PtrMetadata':
                if isinstance(a, Slice):
                    return a.len
                if isinstance(a, Str):
                    return Int.const(len(a.b))
                if isinstance(a, Ref):
                    t = self.read_path(st, a.key, a.path)
                    if isinstance(t, Slice):
                        return t.len
                    if isinstance(t, Str):
                        return Int.const(len(t.b))
                if isinstance(a, Ref):
                    t = self.read_path(st, a.key, a.path)
                    nm = t.name if isinstance(t, Atom) else repr(t)
                else:
                    nm = a.name if isinstance(a, Atom) else repr(a)
                return self.len_sym(st, nm)
            return Atom(fresh('un:' + op), dest_ty)
        if rv == 'cast':
            a = self.operand(cfg, fr, r['a'])
            return self.cast(cfg, r['kind'], a, r['ty'], r['from'])
        if rv == 'discr':
            key, path = self.resolve(cfg, fr, r['p'])
            v = self.read_path(st, key, path)
            return self.discr(cfg, key, path, v)
        if rv == 'agg':
            ops = [self.operand(cfg, fr, o) for o in r['ops']]
            k = r['kind']
            if k == 'array':
                return Arr(ops)
            if k == 'tuple':
                return Tup(ops)
            if k == 'adt':
                return Adt(r['adt'], r['variant'], ops)
            if k in ('closure', 'coroutine'):
                return Clo(r['key'], ops)
            return Atom(fresh('agg:' + k), dest_ty)
        if rv == 'repeat':
            a = self.operand(cfg, fr, r['a'])
            if isinstance(r['n'], int) and r['n'] <= 64:
                return Arr([a] * r['n'])
            return Atom(fresh('repeat'), dest_ty)
        return Atom(fresh('rv:' + rv), dest_ty)

    def discr(self, cfg, key, path, v):
        if isinstance(v, Adt):
            ad = self.prog.adts.get(v.adt)
            if ad and 'discrs' in ad:
                return Int.const(ad['discrs'][v.variant])
            return Int.const(v.variant)
        if isinstance(v, Atom) and v.ty and v.ty.get('k') == 'adt':
            ad = self.prog.adts.get(v.ty.get('adt'))
            if ad and ad['kind'] == 'enum' and len(ad['variants']) <= 64:
                raise NeedVariant(key, path, v)
        if isinstance(v, Int):
            return v
        if isinstance(v, Atom) and v.ty and v.ty.get('k') == 'leaftype':
            # the data type of an opaque leaf item (l2.d_datatype): some Type, but by contract not Null / Break / Undefined.
            # A `match` on it sees a discriminant ranging over the other variants, like `==` sees "not equal" (l2.type_eq).
            ad = self.prog.adts.get(v.ty.get('s'))
            if ad and ad['kind'] == 'enum':
                ds = ad.get('discrs') or list(range(len(ad['variants'])))
                keep = [d_ for d_, vv in zip(ds, ad['variants']) if vv['name'] not in ('Null', 'Break', 'Undefined')]
                nm = 'discr(%s)' % v.name
                if nm not in cfg.st.ranges:
                    cfg.st.ranges[nm] = iv_norm(tuple((d_, d_) for d_ in keep))
                    cfg.st.symty[nm] = 'isize'
                return Int.sym(nm)
        cfg.st.flags.add('imprecise:discr')
        return Atom('discr(%r)' % (v,), {'s': 'isize', 'k': 'int:isize'})

    # -- statements --------------------------------------------------------------

    def local_ty(self, fr, place):
        """type json of a place (only for unprojected locals, else best effort)"""
        t = fr.body['locals'][place['l']]
        for pj in place.get('p', ()):
            if pj['k'] == 'field' and t.get('k') == 'tuple' and t.get('elems'):
                t = t['elems'][pj['i']]
            elif pj['k'] == 'deref' and t.get('to'):
                t = t['to']
            else:
                return {'s': '?', 'k': 'other'}
        return t

    def stmt(self, cfg, fr, s):
        k = s['k']
        if k == 'assign':
            dty = self.local_ty(fr, s['p'])
            v = self.rvalue(cfg, fr, s['r'], dty)
            self.write_place(cfg, fr, s['p'], v)
        elif k == 'setdiscr':
            key, path = self.resolve(cfg, fr, s['p'])
            cur = self.read_path(cfg.st, key, path)
            if isinstance(cur, Adt):
                self.write_path(cfg.st, key, path, Adt(cur.adt, s['v'], cur.fields))
        elif k in ('live', 'dead'):
            pass
        elif k == 'intrinsic':
            pass
        else:
            cfg.st.flags.add('imprecise:stmt:' + k)

    # -- running ---------------------------------------------------------------------

    def run(self, inst, args, st=None, start_bb=None, init_locals=None):
        """Interpret `inst` with the given argument values; returns list of Outcome.
        start_bb / init_locals: start in the middle of the body (at a loop head) with the given local values."""
        st = st or State()
        body = inst['body']
        self.fid += 1
        fr = Frame(inst, body, self.fid)
        for i, a in enumerate(args):
            st.mem[(fr.fid, i + 1)] = a
        if start_bb is not None:
            fr.bb = start_bb
        for l, v in (init_locals or {}).items():
            st.mem[(fr.fid, l)] = v
        work = [Config(st, [fr])]
        outs = []
        nconf = 0
        total_steps = 0
        while work:
            cfg = work.pop()
            nconf += 1
            if nconf > self.max_configs:
                ex = Abort('too many paths (> %d)' % self.max_configs)
                ex.partial = outs
                raise ex
            while True:
                total_steps += 1
                if total_steps > self.max_steps:
                    raise Abort('step limit')
                if total_steps % 4096 == 0 and _rss_gb() > MEM_BUDGET_GB:
                    raise MemoryError('interpretation exceeded %d GB' % MEM_BUDGET_GB)
                snap = cfg.clone()
                try:
                    nxt = self.step(cfg)
                except NeedSplit as e:
                    nxt = self.split_sym(snap, e.sym, e.cuts)
                except NeedVariant as e:
                    nxt = self.split_variant(snap, e)
                if nxt is None:
                    continue
                if isinstance(nxt, Outcome):
                    outs.append(nxt)
                    break
                # list of configs
                if len(nxt) == 1:
                    cfg = nxt[0]
                    continue
                work.extend(nxt)
                break
        return outs

    def split_sym(self, cfg, sym, cuts):
        r = cfg.st.ranges[sym]
        parts = []
        cur = r
        for c in sorted(set(cuts)):
            lowpart = iv_and(cur, ((iv_min(r), c - 1),))
            cur = iv_sub(cur, lowpart)
            if lowpart:
                parts.append(lowpart)
        if cur:
            parts.append(cur)
        if len(parts) <= 1:
            raise Abort('split of %s at %r made no progress' % (sym, cuts))
        out = []
        for p in parts:
            c2 = cfg.clone()
            c2.st.ranges[sym] = p
            out.append(c2)
        return out

    def split_variant(self, cfg, e):
        ad = self.prog.adts[e.atom.ty['adt']]
        out = []
        for vi in range(len(ad['variants'])):
            c2 = cfg.clone()
            val = self.make_variant(c2.st, e.atom.ty, ad, vi, e.atom.name)
            self.write_path(c2.st, e.key, e.path, val)
            rf = dict(c2.st.extra.get('refined') or {})
            rf[e.atom.name] = val      # copies of the same opaque value elsewhere are refined consistently
            c2.st.extra['refined'] = rf
            c2.st.extra.setdefault('choices', ())
            c2.st.extra['choices'] = c2.st.extra['choices'] + ((e.atom.name, ad['variants'][vi]['name']),)
            out.append(c2)
        return out

    def at_cut(self, cfg, fr):
        """loop cut of the root body: a path ends when it reaches a cut block a second time (machines with their own notion of
        a covered arrival override this)"""
        if len(cfg.stack) == 1 and fr.bb in self.cuts:
            cv = dict(cfg.st.extra.get('cutvisits') or {})
            if cv.get(fr.bb, 0) >= 1:
                o = Outcome(cfg.st, 'cut')
                o.why = fr.bb
                return o
            cv[fr.bb] = cv.get(fr.bb, 0) + 1
            cfg.st.extra['cutvisits'] = cv
        return None

    def step(self, cfg):
        """Execute the current block of the top frame.  Returns None (continue), [configs] or Outcome."""
        fr = cfg.stack[-1]
        if self.cuts:
            r = self.at_cut(cfg, fr)
            if r is not None:
                return r
        blk = fr.body['blocks'][fr.bb]
        if blk['t']['k'] == 'yield':
            for s_ in blk['s']:
                self.stmt(cfg, fr, s_)
            return Outcome(cfg.st, 'yield')
        self.visited_blocks.setdefault(fr.inst['key'], set()).add(fr.bb)
        cfg.steps += 1
        if cfg.steps > 60000:
            raise Abort('path too long in %s' % fr.inst['key'])
        # statements are idempotent w.r.t. re-execution after a split (they only write their destination)
        for s in blk['s']:
            self.stmt(cfg, fr, s)
        t = blk['t']
        k = t['k']
        if k == 'goto':
            fr.bb = t['t']
            return None
        if k == 'drop':
            fr.bb = t['t']
            return None
        if k == 'return':
            return self.do_return(cfg)
        if k == 'switch':
            return self.do_switch(cfg, fr, t)
        if k == 'assert':
            return self.do_assert(cfg, fr, t)
        if k == 'call':
            return self.do_call(cfg, fr, t)
        if k == 'unreachable':
            return Outcome(cfg.st, 'diverge', why='unreachable in %s' % fr.inst['key'])
        if k in ('resume', 'terminate'):
            return Outcome(cfg.st, 'diverge', why=k)
        raise Abort('terminator %s in %s' % (k, fr.inst['key']))

    def do_return(self, cfg):
        fr = cfg.stack.pop()
        v = self.read_path(cfg.st, (fr.fid, 0), [])
        # free frame memory (keeps states small)
        for key in [k for k in cfg.st.mem if k[0] == fr.fid]:
            pass
        if not cfg.stack:
            return Outcome(cfg.st, 'return', v)
        if fr.post is not None:
            r = fr.post(self, cfg, v)
            if isinstance(r, (Outcome, list)):
                return r
            if isinstance(r, CallThen):
                # the continuation asks for another call (interpreted loops of iterator adaptors): same destination
                return self.call_value(cfg, cfg.stack[-1], r.fn, r.args, fr.dest, fr.ret_bb, None, post=r.post)
            v = r
        caller = cfg.stack[-1]
        if fr.dest is not None:
            self.write_path(cfg.st, fr.dest[0], fr.dest[1], v)
        if fr.ret_bb is None:
            return Outcome(cfg.st, 'diverge', why='callee returned into a diverging call site')
        caller.bb = fr.ret_bb
        return None

    def do_switch(self, cfg, fr, t):
        st = cfg.st
        d = self.operand(cfg, fr, t['d'])
        vs = t['vs']
        if isinstance(d, Int) and d.is_const():
            for v, tgt in vs:
                if v == d.c:
                    fr.bb = tgt
                    return None
            fr.bb = t['o']
            return None
        if isinstance(d, Cond):
            rng = st.ranges[d.sym]
            tpart = iv_and(rng, d.tset)
            fpart = iv_sub(rng, d.tset)
            outs = []
            for part, val in ((tpart, 1), (fpart, 0)):
                if not part:
                    continue
                tgt = t['o']
                for v, tg in vs:
                    if v == val:
                        tgt = tg
                outs.append((part, tgt))
            return self.fork_ranges(cfg, fr, d.sym, outs)
        if isinstance(d, Int):
            self.byte_switch_cuts(st, d, [v for v, _ in vs])
            sg = d.single()
            if sg:
                s, k, c = sg
                rng = st.ranges[s]
                rest = rng
                outs = []
                for v, tgt in vs:
                    if (v - c) % k == 0:
                        x = (v - c) // k
                        part = iv_and(rng, ((x, x),))
                        if part:
                            outs.append((part, tgt))
                            rest = iv_sub(rest, part)
                if rest:
                    outs.append((rest, t['o']))
                return self.fork_ranges(cfg, fr, s, outs)
        # unknown discriminant: explore all successors
        if isinstance(d, Atom) and d.name.startswith('rtcheck:'):
            # build-profile switch (ub checks): follow the "checks disabled" edge; the checked edge only adds asserts
            for v, tgt in vs:
                if v == 0:
                    fr.bb = tgt
                    return None
        st.flags.add('imprecise:branch')
        outs = []
        seen = set()
        isbool = isinstance(d, Atom) and d.ty and d.ty.get('k') == 'bool'
        for v, tgt in vs + [[None, t['o']]]:
            if tgt in seen:
                continue
            seen.add(tgt)
            c2 = cfg.clone()
            c2.stack[-1].bb = tgt
            if isinstance(d, Atom):
                val = v
                if val is None and isbool and len(vs) == 1:
                    val = 1 - vs[0][0]
                if val is not None:
                    kn = dict(c2.st.extra.get('known') or {})
                    kn[d.name] = val
                    c2.st.extra['known'] = kn
            outs.append(c2)
        return outs

    def fork_ranges(self, cfg, fr, sym, outs):
        # merge parts going to the same target
        merged = {}
        order = []
        for part, tgt in outs:
            if tgt not in merged:
                merged[tgt] = part
                order.append(tgt)
            else:
                merged[tgt] = iv_norm(merged[tgt] + part)
        if len(order) == 1:
            fr.bb = order[0]
            return None
        res = []
        for tgt in order:
            c2 = cfg.clone()
            c2.st.ranges[sym] = merged[tgt]
            c2.stack[-1].bb = tgt
            res.append(c2)
        return res

    def do_assert(self, cfg, fr, t):
        st = cfg.st
        c = self.operand(cfg, fr, t['c'])
        exp = 1 if t['e'] else 0
        site = (fr.inst['key'], fr.bb)
        rec = self.assert_sites.setdefault(site, {'ok': 0, 'open': 0, 'fail': 0, 'kind': t['msg']['kind'], 'op': t['msg'].get('op'), 'sp': t.get('sp'), 'path': fr.inst['path']})
        if isinstance(c, Int) and c.is_const():
            if c.c == exp:
                rec['ok'] += 1
                fr.bb = t['t']
                return None
            rec['fail'] += 1
            st.asserts.append((site, 'fail'))
            return Outcome(st, 'diverge', why='assert %s always fails at %s' % (t['msg']['kind'], mir.loc(t.get('sp'))))
        if isinstance(c, Cond):
            rng = st.ranges[c.sym]
            good = iv_and(rng, c.tset) if exp else iv_sub(rng, c.tset)
            bad = iv_sub(rng, good)
            if not bad:
                rec['ok'] += 1
                fr.bb = t['t']
                return None
            rec['open'] += 1
            st.asserts.append((site, 'open'))
            if not good:
                return Outcome(st, 'diverge', why='assert %s fails' % t['msg']['kind'])
            st.ranges[c.sym] = good
            fr.bb = t['t']
            return None
        rec['open'] += 1
        st.asserts.append((site, 'open'))
        fr.bb = t['t']
        return None

    # -- calls ------------------------------------------------------------------------------

    def do_call(self, cfg, fr, t):
        st = cfg.st
        f = t.get('f')
        args = [self.operand(cfg, fr, a) for a in t['args']]
        dest = self.resolve(cfg, fr, t['dest'])
        ret_bb = t.get('t')
        if f is None:
            # call through a value (fn pointer / closure value)
            fv = self.operand(cfg, fr, t['fop'])
            return self.call_value(cfg, fr, fv, args, dest, ret_bb, t)
        return self.call_fn(cfg, fr, f, args, dest, ret_bb, t)

    def finish_call(self, cfg, dest, ret_bb, val):
        if dest is not None:
            self.write_path(cfg.st, dest[0], dest[1], val)
        if ret_bb is None:
            return Outcome(cfg.st, 'diverge', why='diverging call')
        cfg.stack[-1].bb = ret_bb
        return None

    def call_fn(self, cfg, fr, f, args, dest, ret_bb, t):
        st = cfg.st
        if f.get('ctor'):
            c = f['ctor']
            return self.finish_call(cfg, dest, ret_bb, Adt(c['adt'], c['variant'], args))
        names = [f.get('rpath'), f.get('path')]
        names = [x for n in names if n for x in ((n, std_name(n)) if std_name(n) != n else (n,))]   # no_std crates print core:: / alloc:: paths
        handler = None
        for n in names:
            if n and n in self.overrides:
                handler = self.overrides[n]
                break
        if handler is None:
            for n in names:
                if n and n in self.prims:
                    handler = self.prims[n]
                    break
        if handler is not None:
            r = handler(self, cfg, f, args, t)
            if r is not NotImplemented:
                return self.apply_prim_result(cfg, r, dest, ret_bb, t)
        if handler is None and f.get('rkrate') not in ('minicbor', 'minicbor_serde', 'minicbor_io'):
            from .prims import PATTERN_PRIMS
            for n in names:
                if not n:
                    continue
                for rx, h in PATTERN_PRIMS:
                    if rx.match(n):
                        r = h(self, cfg, f, args, t)
                        if r is not NotImplemented:
                            return self.apply_prim_result(cfg, r, dest, ret_bb, t)
        key = f.get('rkey')
        inst = self.prog.get(key) if key else None
        if inst is not None and f.get('rkind', 'item') == 'item':
            return self.push(cfg, inst, args, dest, ret_bb)
        if f.get('rkind') == 'closure_once_shim' or (f.get('trait') in ('std::ops::FnOnce', 'std::ops::FnMut', 'std::ops::Fn', 'core::ops::FnOnce', 'core::ops::FnMut', 'core::ops::Fn')):
            # <F as FnOnce>::call_once(f, (args,))
            fv = args[0]
            if isinstance(fv, Ref):
                fv = self.read_path(st, fv.key, fv.path)
            tup = args[1]
            av = list(tup.fields) if isinstance(tup, Tup) else [tup]
            return self.call_value(cfg, fr, fv, av, dest, ret_bb, t)
        return self.opaque_call(cfg, f, args, dest, ret_bb, t)

    def apply_prim_result(self, cfg, r, dest, ret_bb, t):
        if isinstance(r, CallThen):
            return self.call_value(cfg, cfg.stack[-1], r.fn, r.args, dest, ret_bb, t, post=r.post)
        if isinstance(r, Fork):
            outs = []
            for i, (mut, val) in enumerate(r.alts):
                c2 = cfg.clone() if i < len(r.alts) - 1 else cfg
                if mut is not None:
                    mut(c2.st)
                o = self.finish_call(c2, dest, ret_bb, val)
                outs.append(o if o is not None else c2)
            if all(isinstance(o, Config) for o in outs):
                return outs
            # mixture of outcomes and configs: handle outcomes by returning configs that end immediately
            res = []
            for o in outs:
                if isinstance(o, Outcome):
                    res.append(self.dead_config(o))
                else:
                    res.append(o)
            return res
        if isinstance(r, Outcome):
            return r
        return self.finish_call(cfg, dest, ret_bb, r)

    def dead_config(self, outcome):
        raise Abort('diverging alternative inside fork')

    def push(self, cfg, inst, args, dest, ret_bb, post=None):
        top = cfg.stack[-1]
        if len(cfg.stack) >= self.max_depth:
            raise Abort('inline depth in %s' % inst['key'])
        for f in cfg.stack:
            if f.inst['key'] == inst['key'] and sum(1 for g in cfg.stack if g.inst['key'] == inst['key']) > 3:
                raise Abort('recursion through %s' % inst['key'])
        self.fid += 1
        nf = Frame(inst, inst['body'], self.fid, dest, ret_bb, post, top.depth + 1)
        body = inst['body']
        if len(args) != body['argc']:
            # closure bodies take (env, a, b, ..); callers through call_value pass them flattened
            if len(args) < body['argc']:
                args = list(args) + [Atom(fresh('missing-arg'))] * (body['argc'] - len(args))
            else:
                args = args[:body['argc']]
        for i, a in enumerate(args):
            cfg.st.mem[(nf.fid, i + 1)] = a
        cfg.stack.append(nf)
        return None

    def call_value(self, cfg, fr, fv, args, dest, ret_bb, t, post=None):
        """call a first-class function value (fn item or closure) with flattened args"""
        st = cfg.st
        if isinstance(fv, FnItem):
            if post is None:
                return self.call_fn(cfg, fr, fv.f, args, dest, ret_bb, t)
            # need post-processing: route through a tiny trampoline frame
            return self.call_fn_post(cfg, fr, fv.f, args, dest, ret_bb, t, post)
        if isinstance(fv, Clo):
            inst = self.prog.get(fv.key)
            if inst is None:
                cands = [i for i in self.prog.insts.values() if i['key'] == fv.key]
                inst = cands[0] if cands else None
            if inst is None:
                st.flags.add('opaque:closure:' + fv.key)
                val = Atom(fresh('closure-result'))
                if post is not None:
                    val = post(self, cfg, val)
                return self.finish_call(cfg, dest, ret_bb, val)
            body = inst['body']
            env_ty = body['locals'][1] if len(body['locals']) > 1 else {}
            if env_ty.get('k') == 'ref':
                key = ('cloenv', fresh('e'))
                st.mem[key] = fv
                env = Ref(key, ())
            else:
                env = fv
            return self.push(cfg, inst, [env] + list(args), dest, ret_bb, post)
        st.flags.add('opaque:fnvalue')
        val = Atom(fresh('fnvalue-result'))
        if post is not None:
            val = post(self, cfg, val)
        return self.finish_call(cfg, dest, ret_bb, val)

    def extra_handler(self, names):
        """hook: further primitive tables of subclasses (pattern-matched callees)"""
        return None

    def call_fn_post(self, cfg, fr, f, args, dest, ret_bb, t, post):
        # Evaluate callee (primitive or inlined) and apply `post` to its result.
        if f.get('ctor'):
            c = f['ctor']
            return self.finish_call(cfg, dest, ret_bb, post(self, cfg, Adt(c['adt'], c['variant'], args)))
        names = [f.get('rpath'), f.get('path')]
        names = [x for n in names if n for x in ((n, std_name(n)) if std_name(n) != n else (n,))]
        handler = None
        for n in names:
            if n and n in self.overrides:
                handler = self.overrides[n]
                break
        if handler is None:
            for n in names:
                if n and n in self.prims:
                    handler = self.prims[n]
                    break
        if handler is None:
            handler = self.extra_handler(names)
        if handler is not None:
            r = handler(self, cfg, f, args, t)
            if r is not NotImplemented:
                if isinstance(r, Fork):
                    alts = []
                    for mut, val in r.alts:
                        alts.append((mut, val))
                    # apply post per alternative lazily
                    outs = []
                    for i, (mut, val) in enumerate(alts):
                        c2 = cfg.clone() if i < len(alts) - 1 else cfg
                        if mut is not None:
                            mut(c2.st)
                        v2 = post(self, c2, val)
                        if isinstance(v2, CallThen):
                            o = self.call_value(c2, c2.stack[-1], v2.fn, v2.args, dest, ret_bb, t, post=v2.post)
                            if isinstance(o, list):
                                raise Abort('nested fork inside a chained call')
                            outs.append(c2 if o is None else o)
                            continue
                        o = self.finish_call(c2, dest, ret_bb, v2)
                        outs.append(c2 if o is None else o)
                    if any(isinstance(o, Outcome) for o in outs):
                        raise Abort('diverging alternative inside fork')
                    return outs
                if isinstance(r, CallThen):
                    inner_post = r.post

                    def chained(m, c, v, inner_post=inner_post):
                        if inner_post is not None:
                            v = inner_post(m, c, v)
                        return post(m, c, v)
                    return self.call_value(cfg, fr, r.fn, r.args, dest, ret_bb, t, post=chained)
                if isinstance(r, Outcome):
                    return r
                r2 = post(self, cfg, r)
                if isinstance(r2, CallThen):
                    return self.call_value(cfg, fr, r2.fn, r2.args, dest, ret_bb, t, post=r2.post)
                if isinstance(r2, (Outcome, list)):
                    return r2
                return self.finish_call(cfg, dest, ret_bb, r2)
        key = f.get('rkey')
        inst = self.prog.get(key) if key else None
        if inst is not None and f.get('rkind', 'item') == 'item':
            return self.push(cfg, inst, args, dest, ret_bb, post)
        pure = not any(isinstance(a, Ref) and a.mut for a in args)
        cfg.st.flags.add(('purecall:' if pure else 'opaque:') + (f.get('rpath') or f.get('path')))
        self.note_opaque(f)
        val = self.opaque_result(cfg, f, args, t)
        return self.finish_call(cfg, dest, ret_bb, post(self, cfg, val))

    def note_opaque(self, f):
        n = f.get('rpath') or f.get('path')
        self.opaque_calls[n] = self.opaque_calls.get(n, 0) + 1

    def mut_args(self, cfg, args, t):
        """indices of the arguments through which the callee can write: `&mut` / `*mut` by the static type of the operand
        (a fat `&mut [T]` is a Slice value here, not a Ref), or a Ref known to be mutable"""
        fr = cfg.stack[-1]
        out = []
        ops = (t or {}).get('args') or []
        for k, a in enumerate(args):
            if isinstance(a, Ref) and a.mut:
                out.append(k)
                continue
            if k < len(ops):
                pl = ops[k].get('move') or ops[k].get('copy') if isinstance(ops[k], dict) else None
                if pl is not None:
                    ty = self.local_ty(fr, pl)
                    if ty.get('k') in ('ref', 'ptr') and ty.get('mut'):
                        out.append(k)
        return out

    def opaque_result(self, cfg, f, args, t):
        st = cfg.st
        muts = self.mut_args(cfg, args, t)
        # havoc memory reachable through &mut arguments
        for k in muts:
            a = args[k]
            if isinstance(a, Ref):
                self.write_path(st, a.key, a.path, Atom(fresh('havoc')))
            elif isinstance(a, Slice) and a.base is not None:
                self.write_path(st, a.base.key, a.base.path, Atom(fresh('havoc:' + (f.get('rpath') or f.get('path') or '?').split('::')[-1])))
        fr = cfg.stack[-1]
        dty = self.local_ty(fr, t['dest']) if t else None
        nm = f.get('rpath') or f.get('path')
        st.events.append(('CALL', nm, tuple(args)))
        if not muts:
            # pure call: deterministic name so that independent runs agree
            name = '%s(%s)' % (nm.split('::')[-1], ','.join(self.short_name(st, a) for a in args))
            if dty and ty_range(dty.get('s', '')):
                # integer-valued: a symbol ranging over the whole type (keeps later arithmetic exact)
                if name not in st.ranges:
                    st.ranges[name] = ty_range(dty['s'])
                    st.symty[name] = dty['s']
                return Int.sym(name)
            return Atom(name, dty)
        return Atom(fresh('ret:' + nm.split('::')[-1]), dty)

    def short_name(self, st, v):
        if isinstance(v, Ref):
            t = self.read_path(st, v.key, v.path)
            if isinstance(t, (Atom, Int)):
                return self.short_name(st, t)
            if isinstance(t, Ref):
                return self.short_name(st, t)
            return '&%s%s' % (v.key[1] if isinstance(v.key, tuple) and len(v.key) > 1 else v.key, ''.join('.%s' % (p[2] if len(p) > 2 and p[2] is not None else p[1]) for p in v.path))
        if isinstance(v, Atom):
            return v.name
        return repr(v)

    def opaque_call(self, cfg, f, args, dest, ret_bb, t):
        n = f.get('rpath') or f.get('path')
        pure = not self.mut_args(cfg, args, t)
        cfg.st.flags.add(('purecall:' if pure else 'opaque:') + n)
        self.note_opaque(f)
        val = self.opaque_result(cfg, f, args, t)
        return self.finish_call(cfg, dest, ret_bb, val)


# ---------------------------------------------------------------------------
# helpers


_STD_RE = re.compile(r'(?<![A-Za-z0-9_])(core|alloc)::')


def std_name(n):
    """canonical std:: spelling of a core:: / alloc:: path (primitive tables are keyed by std:: names)"""
    return _STD_RE.sub('std::', n) if n else n


def lin_add(a, b, sign):
    d = dict(a.terms)
    for s, k in b.terms:
        d[s] = d.get(s, 0) + sign * k
    return Int(d.items(), a.c + sign * b.c)


def solve_cmp(op, k, c, lo, hi):
    """subset of [lo,hi] where k*s + c OP 0 holds; returns list of intervals"""
    # boundary: k*s + c = 0  => s0 = -c/k
    import math
    out = []
    if op in ('Eq', 'Ne'):
        if (-c) % k == 0:
            x = (-c) // k
            if lo <= x <= hi:
                if op == 'Eq':
                    return [(x, x)]
                return [(lo, x - 1), (x + 1, hi)]
        return [] if op == 'Eq' else [(lo, hi)]
    # normalise to "k*s + c < 0" etc.
    def floor_div(a, b):
        return a // b
    def ceil_div(a, b):
        return -((-a) // b)
    if k > 0:
        if op == 'Lt':      # s < -c/k
            out = [(lo, min(hi, ceil_div(-c, k) - 1))]
        elif op == 'Le':    # s <= -c/k
            out = [(lo, min(hi, floor_div(-c, k)))]
        elif op == 'Gt':
            out = [(max(lo, floor_div(-c, k) + 1), hi)]
        elif op == 'Ge':
            out = [(max(lo, ceil_div(-c, k)), hi)]
    else:
        kk = -k
        cc = -c
        # k*s + c < 0  <=>  kk*s + cc > 0
        flip = {'Lt': 'Gt', 'Le': 'Ge', 'Gt': 'Lt', 'Ge': 'Le'}[op]
        return solve_cmp(flip, kk, cc, lo, hi)
    return [(a, b) for a, b in out if a <= b]


def subst_str(s, sub):
    if not sub:
        return s
    def rep(m):
        w = m.group(0)
        return sub.get(w, w)
    return re.sub(r'\b[A-Z]\w*\b', rep, s)
