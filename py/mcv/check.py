"""Check runner: evaluates the rules of one property, writes evidence, prints verdict lines."""
import json, os, sys, time, traceback

VERIF = os.path.abspath(os.path.join(os.path.dirname(__file__), '..', '..'))
# evidence is only ever written for /repo itself; runs against scratch copies (checker validation) go elsewhere
EVDIR = os.path.join(VERIF, 'evidence') if os.environ.get('MCV_REPO', '/repo') == '/repo' else os.environ.get('MCV_EVDIR', '/tmp/mcv-evidence')


class Ctx:
    def __init__(self, pid, tier, seed):
        self.pid = pid
        self.tier = tier
        self.seed = seed
        self.t0 = time.time()
        self.violations = []     # (key, message, detail dict)
        self.obligations = 0
        self.discharged = 0
        self.nontrivial = set()
        self.samples = []
        self.analysed = {}       # free-form counts
        self.notes = []
        self.rules_run = []
        self.assumptions = []
        self.broken = []         # precondition failures (floor, missing anchor, export failure)

    # -- reporting -----------------------------------------------------
    def ok(self, rule, instance, nontrivial=True):
        self.obligations += 1
        self.discharged += 1
        if nontrivial:
            self.nontrivial.add((rule, instance))

    def violation(self, rule, instance, message, where=None, **detail):
        self.obligations += 1
        key = '%s|%s' % (rule, instance)
        d = dict(detail)
        d['where'] = where
        self.violations.append((key, message, d))
        self.nontrivial.add((rule, instance))

    def fail_closed(self, rule, message):
        """broken precondition: missing anchor, floor not met, positive control silent"""
        self.broken.append('%s: %s' % (rule, message))

    def floor(self, rule, what, count, minimum):
        self.analysed['%s.%s' % (rule, what)] = count
        if count < minimum:
            self.fail_closed(rule, '%s: analysed %d < floor %d' % (what, count, minimum))

    def sample(self, s):
        if len(self.samples) < 12:
            self.samples.append(s)

    def count(self, name, n=1):
        self.analysed[name] = self.analysed.get(name, 0) + n


def load_known():
    p = os.path.join(VERIF, 'known_findings.json')
    if not os.path.exists(p):
        return {'findings': [], 'fixed': []}
    return json.load(open(p))


def finish(ctx, explanation, level='other'):
    known = load_known()
    from .mir import canon
    kn = {(f['property'], canon(f['key'])): f for f in known.get('findings', [])}
    new = []
    hit = []
    for key, msg, d in ctx.violations:
        if (ctx.pid, key) in kn:
            hit.append((key, kn[(ctx.pid, key)]))
        else:
            new.append((key, msg, d))
    seen = set()
    for key, f in hit:
        if key in seen:
            continue
        seen.add(key)
        print('KNOWN-FINDING: property=%s %s' % (ctx.pid, f.get('what', key)))
    os.makedirs(os.path.join(EVDIR, 'replay'), exist_ok=True)
    n = 0
    printed = set()
    uniq = []
    for key, msg, d in new:
        if key in printed:
            continue
        printed.add(key)
        uniq.append((key, msg, d))
    new = uniq
    for key, msg, d in new:
        n += 1
        rp = os.path.join(EVDIR, 'replay', '%s-%d.json' % (ctx.pid, n))
        json.dump({'property': ctx.pid, 'key': key, 'message': msg, 'detail': d}, open(rp, 'w'), indent=1, default=str)
        print('%s: %s%s' % (key, msg, (' at ' + d['where']) if d.get('where') else ''))
        print('VIOLATION property=%s replay=%s' % (ctx.pid, rp))
    for b in ctx.broken:
        # a rule whose subject can no longer be located / bounded is an alarm with a named construct, not a silent pass: it is
        # reported through the same interface line as a violation, with its own replay record
        n += 1
        rp = os.path.join(EVDIR, 'replay', '%s-%d.json' % (ctx.pid, n))
        json.dump({'property': ctx.pid, 'key': 'BROKEN-PRECONDITION', 'message': str(b), 'detail': {}}, open(rp, 'w'), indent=1, default=str)
        print('BROKEN-PRECONDITION property=%s %s' % (ctx.pid, b))
        print('VIOLATION property=%s replay=%s' % (ctx.pid, rp))
    ev = {
        'property_id': ctx.pid,
        'tier': ctx.tier,
        'seed': ctx.seed,
        'level': level,
        'coverage': {
            'explanation': explanation,
            'obligations': ctx.obligations,
            'discharged': ctx.discharged,
            'evaluations': max(ctx.obligations, 1),
            'distinct_nontrivial': len(ctx.nontrivial),
            'rule': 'one evaluation per rule instance (function x cell / call site / path obligation); '
                    'non-trivial = the decision needed at least one partition split, dominance query or table comparison; '
                    'distinct by (rule, instance key)',
            'samples': ctx.samples or ['(no samples recorded)'],
            'analysed': ctx.analysed,
            'rules': ctx.rules_run,
            'notes': ctx.notes[:60],
            'known_findings_hit': sorted(seen),
            'broken_preconditions': ctx.broken,
            'checker_cmd': './bin/check %s --tier %s' % (ctx.pid, ctx.tier),
            'trusted_base': ['rustc MIR construction and instance resolution (nightly 1.97)',
                             'primitive models in py/mcv/prims.py', 'RFC 8949 oracle tables in py/mcv/oracle.py'],
        },
        'assumptions': ctx.assumptions,
        'wall_s': round(time.time() - ctx.t0, 2),
        'violations': len(new),
    }
    os.makedirs(EVDIR, exist_ok=True)
    json.dump(ev, open(os.path.join(EVDIR, ctx.pid + '.json'), 'w'), indent=1, default=str)
    print('[%s] %s tier: %d obligations, %d discharged, %d known finding(s), %d new violation(s), %d broken precondition(s), %.1fs'
          % (ctx.pid, ctx.tier, ctx.obligations, ctx.discharged, len(seen), len(new), len(ctx.broken), time.time() - ctx.t0))
    return 1 if (new or ctx.broken) else 0


# Lemmas: rule sets of other properties that a property's own argument rests on (its tables are built over the byte-level models
# of the scalar encoders / decoders / input primitives / skip()).  They are re-evaluated inside the dependent check, so that a change
# which breaks the property *through* a lemma is reported by the property's own command as well.
LEMMAS = {
    'C01': ['C03', 'C04', 'C06', 'C11', 'C12', 'PRIM'],
    'C03': ['C08'],
    'C04': ['PRIM', 'C17'],
    'C05': ['PRIM'],
    'C06': ['PRIM'],
    'C07': ['C03', 'C13'],
    'C08': ['C03'],
    'C09': ['C03', 'C04', 'C06', 'PRIM'],
    'C10': ['C04', 'C06', 'C09', 'PRIM'],
    'C11': ['C03', 'C04', 'PRIM'],
    'C12': ['PRIM'],
    'C13': ['C03'],
    'C14': ['C02'],
    'C15': ['C02'],
    'C17': ['C03', 'C04', 'C06', 'PRIM'],
    'C18': ['C03', 'C04', 'C17', 'PRIM'],
    'C19': ['C11', 'PRIM'],
}


class LemmaCtx:
    """forwards the verdicts of a lemma's rules into the dependent property's context"""

    def __init__(self, ctx, pid, known):
        self.ctx, self.pid, self.known = ctx, pid, known
        self.tier = 'quick'
        self.seed = ctx.seed
        self.rules_run = []
        self.notes = []
        self.samples = []
        self.assumptions = []
        self.analysed = {}

    def ok(self, rule, instance, nontrivial=True):
        self.ctx.ok('LEMMA[%s].%s' % (self.pid, rule), instance, nontrivial)

    def violation(self, rule, instance, message, where=None, **detail):
        key = '%s|%s' % (rule, instance)
        if (self.pid, key) in self.known:
            # a recorded finding of the lemma's own property is reported there
            self.ctx.ok('LEMMA[%s].known' % self.pid, key, nontrivial=False)
            return
        self.ctx.violation('LEMMA[%s].%s' % (self.pid, rule), instance, 'lemma of %s (%s): %s' % (self.ctx.pid, self.pid, message), where, **detail)

    def fail_closed(self, rule, message):
        self.ctx.fail_closed('LEMMA[%s].%s' % (self.pid, rule), message)

    def floor(self, rule, what, count, minimum):
        self.ctx.floor('LEMMA[%s].%s' % (self.pid, rule), what, count, minimum)

    def sample(self, s):
        pass

    def count(self, name, n=1):
        pass


def lemmas(ctx):
    import importlib
    from .rules import c20
    names = LEMMAS.get(ctx.pid) or []
    if not names:
        return ''
    known = c20.known_keys()
    for pid in names:
        sub = LemmaCtx(ctx, pid, known)
        c20.reset_caches()
        if pid == 'PRIM':
            from .rules import c02
            sub.pid = 'C02'
            c02.lemma_prim(sub)
        else:
            mod = importlib.import_module('mcv.rules.' + pid.lower())
            mod.run(sub)
        ctx.rules_run.extend('LEMMA[%s] %s' % (sub.pid, r) for r in sub.rules_run)
    c20.reset_caches()
    return ' Lemmas re-evaluated inside this check (the tables this argument is built on): %s.' % ', '.join(names)


def other_configurations(ctx, only=None):
    """thorough tier of the table properties: the property's own rules on every other feature configuration"""
    import importlib, json
    from . import load
    from .rules import c20
    known = c20.known_keys()
    fp = os.path.join(VERIF, 'tables', 'c20_floors.json')
    floors = json.load(open(fp)) if os.path.exists(fp) else {}
    mod = importlib.import_module('mcv.rules.' + ctx.pid.lower())
    ctx.rules_run.append('(thorough) the rules above on configurations none / half / alloc / std of minicbor (+ minicbor-serde where the rule uses it)')
    for core, serde in c20.THOROUGH:
        if ctx.pid == 'C02' and not serde:
            continue
        if only is not None and core not in only:
            continue
        if core.endswith('-t32') and ctx.pid not in c20.T32_RULES:
            continue
        label = core.replace('core-', '')
        load.ALIAS = {'core-full': core}
        if serde:
            load.ALIAS['serde-full'] = serde
        c20.reset_caches()
        try:
            sub = c20.SubCtx(ctx, label, ctx.pid, known, floors)
            (getattr(mod, 'run_config', None) or mod.run)(sub)
        finally:
            load.ALIAS = {}
            c20.reset_caches()


def main(argv):
    import argparse
    ap = argparse.ArgumentParser()
    ap.add_argument('pid', nargs='?')
    ap.add_argument('--tier', default=os.environ.get('VERIF_TIER', 'quick'))
    ap.add_argument('--replay')
    a = ap.parse_args(argv)
    if a.replay:
        r = json.load(open(a.replay))
        a.pid = r['property']
        print('replaying %s: %s' % (r['key'], r['message']))
    seed = int(os.environ.get('VERIF_SEED', '0') or 0)
    from . import rules
    ctx = Ctx(a.pid, a.tier if a.tier in ('quick', 'thorough') else 'quick', seed)
    # resource guards: an interpretation that runs away (path explosion on code of an unforeseen shape) must end as a broken
    # precondition, not as a hang or an out-of-memory kill of the machine
    budget = int(os.environ.get('MCV_TIME_BUDGET', '900' if ctx.tier == 'quick' else '5400'))
    try:
        import signal

        class Budget(BaseException):
            pass

        def on_alarm(signum, frame):
            raise Budget()
        signal.signal(signal.SIGALRM, on_alarm)
        signal.alarm(budget)
    except Exception:
        Budget = None
    try:
        expl = rules.run(ctx)
        expl += lemmas(ctx)
        if ctx.tier == 'quick' and ctx.pid == 'C12':
            # the float accessors have a different shape without `half` (no 0xf9 arms): the quick tier covers that build too
            expl += ' The same rules are also run on the build without the `half` feature.'
            other_configurations(ctx, only=('core-none',))
        if ctx.tier == 'quick' and ctx.pid == 'C04':
            expl += ' The accessor and impl tables are also extracted on a 32-bit build (lengths >= 2^32 answer Overflow there; everything else is the same table).'
            other_configurations(ctx, only=('core-alloc-t32',))
        if ctx.tier == 'quick' and ctx.pid == 'C07':
            expl += ' The built-in impls are also measured on a 32-bit build (CborLen for usize / isize goes through u32 / i32 there).'
            other_configurations(ctx, only=('core-alloc-t32',))
        if ctx.tier == 'quick' and ctx.pid == 'C05':
            # usize / isize have their own impls on 32-bit targets (d.u32() / d.i32()): the width rules are run on that build too
            expl += ' The same rules are also run on a 32-bit build (target_pointer_width = "32", thumbv7m-none-eabi, core/alloc from rust-src).'
            other_configurations(ctx, only=('core-alloc-t32',))
        if ctx.tier == 'thorough' and ctx.pid in ('C01', 'C02', 'C03', 'C04', 'C05', 'C12', 'C13'):
            expl += ' Thorough tier: the same rules re-run on the MIR of the other feature configurations (none, half, alloc, std).'
            other_configurations(ctx)
    except BaseException as e:  # fail closed, with the reason
        if isinstance(e, (KeyboardInterrupt, SystemExit)):
            raise
        if Budget is not None and isinstance(e, Budget):
            ctx.fail_closed('budget', 'the analysis did not finish within %d s: the code has a shape the interpretation does not bound (treated as an alarm, not as a pass)' % budget)
            return finish(ctx, 'check aborted: time budget exhausted')
        if isinstance(e, MemoryError):
            ctx.fail_closed('budget', 'the analysis exceeded its memory budget: path explosion on code of an unforeseen shape')
            return finish(ctx, 'check aborted: memory budget exhausted')
        from .export import ExportError
        if isinstance(e, ExportError):
            ctx.fail_closed('export', str(e))
        else:
            ctx.fail_closed('internal', '%s: %s' % (type(e).__name__, e))
            traceback.print_exc()
        expl = 'check aborted: ' + str(e)[:300]
    return finish(ctx, expl)


if __name__ == '__main__':
    sys.exit(main(sys.argv[1:]))
