"""Run the mcv-export driver over /repo (and the harness crates) and cache the fact files.

Nothing from /repo is executed; cargo is used only to *compile* (type-check) the crates
under the driver, which writes one JSON fact file per crate and configuration.
"""
import fcntl, hashlib, json, os, re, shutil, subprocess, sys, time

VERIF = os.path.abspath(os.path.join(os.path.dirname(__file__), '..', '..'))
REPO = os.environ.get('MCV_REPO', '/repo')
CACHE = os.environ.get('MCV_CACHE', os.path.join(VERIF, '.cache'))
DRIVER = os.path.join(VERIF, 'driver', 'target', 'release', 'mcv-export')

# name -> (where, package, features, crates to export, workspace crates followed)
CONFIGS = {
    'core-full':       ('repo', 'minicbor', 'std,half,derive', 'minicbor,cbor_display', 'minicbor'),
    'core-none':       ('repo', 'minicbor', '', 'minicbor', 'minicbor'),
    'core-half':       ('repo', 'minicbor', 'half', 'minicbor', 'minicbor'),
    'core-alloc':      ('repo', 'minicbor', 'alloc,derive', 'minicbor', 'minicbor'),
    'core-alloc-half': ('repo', 'minicbor', 'alloc,half,derive', 'minicbor', 'minicbor'),
    'core-std':        ('repo', 'minicbor', 'std,derive', 'minicbor', 'minicbor'),
    # 32-bit twin: target_pointer_width = "32" and the atomic32 arm of build.rs; core and alloc are type-checked from rust-src
    # (-Zbuild-std, offline) because no 32-bit standard library is installed
    'core-alloc-t32':  ('repo', 'minicbor', 'alloc,half,derive', 'minicbor', 'minicbor'),
    'serde-full':      ('repo', 'minicbor-serde', 'full', 'minicbor_serde', 'minicbor,minicbor_serde'),
    'serde-none':      ('repo', 'minicbor-serde', '', 'minicbor_serde', 'minicbor,minicbor_serde'),
    'serde-half':      ('repo', 'minicbor-serde', 'half', 'minicbor_serde', 'minicbor,minicbor_serde'),
    'serde-alloc':     ('repo', 'minicbor-serde', 'alloc', 'minicbor_serde', 'minicbor,minicbor_serde'),
    'serde-std':       ('repo', 'minicbor-serde', 'std', 'minicbor_serde', 'minicbor,minicbor_serde'),
    'io-async':        ('repo', 'minicbor-io', 'async-io', 'minicbor_io', 'minicbor,minicbor_io'),
    'io-sync':         ('repo', 'minicbor-io', '', 'minicbor_io', 'minicbor,minicbor_io'),
    'tests-lib':       ('repo', 'minicbor-tests', 'std', 'minicbor_tests', 'minicbor,minicbor_tests'),
    'schemas':         ('harness', 'mcv-schemas', '', 'mcv_schemas', 'minicbor,mcv_schemas'),
    'schemas-rand':    ('harness', 'mcv-schemas-rand', '', 'mcv_schemas_rand', 'minicbor,mcv_schemas_rand'),
    # the derive corpus in a no_std + alloc crate (the proc-macro's own std / alloc features select templates); same lib name
    'schemas-alloc':   ('harness', 'mcv-schemas-alloc', '', 'mcv_schemas', 'minicbor,mcv_schemas'),
    'fixtures':        ('harness', 'mcv-fixtures', '', 'mcv_fixtures', 'minicbor,mcv_fixtures'),
    'serde-harness':   ('harness', 'mcv-serde-harness', '', 'mcv_serde_harness', 'minicbor,minicbor_serde,mcv_serde_harness'),
}

# configurations analysed for another target (pointer width 32, 32-bit atomics only)
TARGETS = {'core-alloc-t32': 'thumbv7m-none-eabi'}

_SRC_RE = re.compile(r'.*\.(rs|toml|lock)$')


def _walk(root, skip=('target', '.git', '.cache')):
    for dp, dn, fn in os.walk(root):
        dn[:] = sorted(d for d in dn if d not in skip)
        for f in sorted(fn):
            if _SRC_RE.match(f):
                yield os.path.join(dp, f)


def tree_hash(extra_dirs=()):
    h = hashlib.sha256()
    for root in (REPO,) + tuple(extra_dirs):
        for p in _walk(root):
            h.update(os.path.relpath(p, root).encode())
            with open(p, 'rb') as fh:
                h.update(hashlib.sha256(fh.read()).digest())
    try:
        st = os.stat(DRIVER)
        h.update(('%d:%d' % (st.st_size, int(st.st_mtime))).encode())
    except OSError:
        h.update(b'nodriver')
    return h.hexdigest()[:20]


def _sysroot():
    return subprocess.check_output(['rustc', '+nightly', '--print', 'sysroot'], text=True).strip()


class ExportError(Exception):
    pass


def harness_dir():
    """Harness workspace rendered for the repository root in use (path deps point at REPO)."""
    src = os.path.join(VERIF, 'harness')
    if REPO == '/repo':
        return src
    dst = os.path.join(CACHE, 'harness-' + hashlib.sha256(REPO.encode()).hexdigest()[:10])
    if os.path.exists(dst):
        shutil.rmtree(dst)
    shutil.copytree(src, dst, ignore=shutil.ignore_patterns('target'))
    for p in _walk(dst):
        if p.endswith('Cargo.toml'):
            s = open(p).read().replace('"/repo/', '"%s/' % REPO)
            open(p, 'w').write(s)
    return dst


def ensure(configs, log=sys.stderr):
    """Make sure fact files for `configs` exist for the current tree; returns {config: {crate: path}}."""
    os.makedirs(CACHE, exist_ok=True)
    hd = os.path.join(VERIF, 'harness')
    th = tree_hash((hd,))
    outroot = os.path.join(CACHE, 'exports', th)
    res = {}
    lock = open(os.path.join(CACHE, 'lock'), 'w')
    fcntl.flock(lock, fcntl.LOCK_EX)
    try:
        for cfg in configs:
            where, pkg, feats, crates, ws = CONFIGS[cfg]
            out = os.path.join(outroot, cfg)
            done = os.path.join(out, 'DONE')
            if not os.path.exists(done):
                _run_config(cfg, out, log)
                open(done, 'w').write(time.strftime('%F %T'))
            files = {}
            for c in crates.split(','):
                p = os.path.join(out, c + '.json')
                if os.path.exists(p) and os.path.getsize(p) > 0:
                    files[c] = p
            main = crates.split(',')[0]
            if main not in files:
                raise ExportError('export for config %s produced no fact file for crate %s' % (cfg, main))
            res[cfg] = files
        _prune(os.path.join(CACHE, 'exports'), keep=th)
    finally:
        fcntl.flock(lock, fcntl.LOCK_UN)
        lock.close()
    return res


def _workspace_packages():
    out = set()
    for root in (REPO,):
        try:
            subs = [os.path.join(root, d) for d in os.listdir(root)]
        except OSError:
            continue
        for d in subs + [root]:
            f = os.path.join(d, 'Cargo.toml')
            if os.path.isfile(f):
                mm = re.search(r'^\s*name\s*=\s*"([^"]+)"', open(f).read(), re.M)
                if mm:
                    out.add(mm.group(1))
                    out.add(mm.group(1).replace('_', '-'))
    return out


def _prune(root, keep, n=3):
    try:
        ds = sorted((d for d in os.listdir(root) if d != keep), key=lambda d: os.path.getmtime(os.path.join(root, d)))
    except OSError:
        return
    for d in ds[:-n] if len(ds) > n else []:
        shutil.rmtree(os.path.join(root, d), ignore_errors=True)


def _run_config(cfg, out, log):
    where, pkg, feats, crates, ws = CONFIGS[cfg]
    if not os.path.exists(DRIVER):
        raise ExportError('driver not built: run ./bin/setup')
    if os.path.exists(out):
        shutil.rmtree(out)
    os.makedirs(out)
    cwd = REPO if where == 'repo' else harness_dir()
    if where != 'repo':
        # the harness resolves its dependencies from the repository's own lockfile (offline)
        try:
            shutil.copy(os.path.join(REPO, 'Cargo.lock'), os.path.join(cwd, 'Cargo.lock'))
        except OSError:
            pass
    tdir = os.path.join(CACHE, 'target-' + where + ('' if REPO == '/repo' else '-' + hashlib.sha256(REPO.encode()).hexdigest()[:10]))
    # cargo's freshness cache would skip the driver: forget the crates we must re-export
    fp = os.path.join(tdir, 'debug', '.fingerprint')
    if os.path.isdir(fp):
        names = set(c.replace('_', '-') for c in crates.split(','))
        # ... and every package of the analysed workspace: a restored file may carry an mtime older than the
        # fingerprint of a build made from a different tree state, which cargo would take for "fresh"
        names |= _workspace_packages()
        names.add(pkg)
        for d in os.listdir(fp):
            m = re.match(r'^(.*)-[0-9a-f]{16}$', d)
            if m and m.group(1) in names:
                shutil.rmtree(os.path.join(fp, d), ignore_errors=True)
    env = dict(os.environ)
    env.update({
        'LD_LIBRARY_PATH': _sysroot() + '/lib',
        'RUSTFLAGS': '-Zmir-opt-level=0 -Zalways-encode-mir -Awarnings',
        'RUSTC_WRAPPER': DRIVER,
        'CARGO_TARGET_DIR': tdir,
        'CARGO_NET_OFFLINE': 'true',
        'MCV_OUT': out,
        'MCV_CRATES': crates,
        'MCV_WS': ws,
        'CARGO_INCREMENTAL': '0',
    })
    env.pop('RUSTC_WORKSPACE_WRAPPER', None)
    cmd = ['cargo', '+nightly', 'check', '--offline', '-p', pkg]
    if where == 'repo':
        cmd += ['--no-default-features']
        if feats:
            cmd += ['--features', feats]
        if 'cbor_display' in crates:
            cmd += ['--lib', '--bins']
        else:
            cmd += ['--lib']
    if cfg in TARGETS:
        cmd += ['-Zbuild-std=core,alloc', '--target', TARGETS[cfg]]
    t0 = time.time()
    p = subprocess.run(cmd, cwd=cwd, env=env, stdout=subprocess.PIPE, stderr=subprocess.STDOUT, text=True)
    open(os.path.join(out, 'cargo.log'), 'w').write(p.stdout)
    print('[export] %s: %.1fs rc=%d' % (cfg, time.time() - t0, p.returncode), file=log)
    if p.returncode != 0:
        tail = '\n'.join(p.stdout.splitlines()[-40:])
        raise ExportError('configuration %s does not compile under the analyser:\n%s' % (cfg, tail))


def load(path):
    with open(path) as fh:
        return json.load(fh)


if __name__ == '__main__':
    r = ensure(sys.argv[1:] or ['core-full'])
    print(json.dumps(r, indent=1))
