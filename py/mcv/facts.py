"""MIR facts engine: call graph, reachability, panic-site census, casts, allocation sites."""
from collections import defaultdict
from . import mir


def callees(inst):
    """resolved workspace callee keys + fn items referenced as values (closures are included via aggregates)"""
    out = set()
    body = inst['body']
    for bi, t in mir.iter_calls(body):
        f = t.get('f')
        if f and f.get('rkey'):
            out.add(f['rkey'])
        if f and f.get('via'):
            out.add(f['via']['rkey'])
    for f, sp in mir.fn_consts_in_body(body):
        if f.get('rkey'):
            out.add(f['rkey'])
    for bi, si, s in mir.iter_stmts(body):
        if s['k'] == 'assign' and s['r'].get('rv') == 'agg' and s['r'].get('kind') in ('closure', 'coroutine'):
            out.add(s['r']['key'])
    return out


def reachable(prog, roots):
    seen = set()
    st = [r for r in roots]
    while st:
        k = st.pop()
        if k in seen:
            continue
        inst = prog.get(k)
        if inst is None:
            continue
        seen.add(k)
        for c in callees(inst):
            if c not in seen:
                st.append(c)
    return seen


def panic_sites(prog, inst):
    """potential panic sites of one body: list of dict(kind, op, detail, sp, bb)"""
    out = []
    body = inst['body']
    for bi, b in enumerate(body['blocks']):
        if b.get('cleanup'):
            continue
        t = b['t']
        if t['k'] == 'assert':
            c = t['c']
            if 'const' in c and c['const'].get('v') == (1 if t['e'] else 0):
                continue
            if 'rtcheck' in c:
                continue
            op = t['msg'].get('op')
            # operand shape: "Add:u64+1" for `x + 1` on a u64 (keys stay free of line numbers)
            b_ = t['msg'].get('b')
            if op and isinstance(b_, dict) and 'const' in b_ and 'v' in b_['const']:
                op = '%s:%s,%d' % (op, b_['const']['ty'], b_['const']['v'])
            out.append({'kind': 'assert:' + t['msg']['kind'], 'op': op, 'sp': t.get('sp'), 'bb': bi})
        elif t['k'] == 'call':
            f = t.get('f')
            if not f:
                out.append({'kind': 'call:indirect', 'op': None, 'sp': t.get('sp'), 'bb': bi})
                continue
            if f.get('rkrate') in (None,) and not f.get('resolved'):
                continue
            rp = f.get('rpath') or f.get('path')
            ext = prog.ext.get(rp)
            if ext is not None and f.get('rkrate') not in ('minicbor', 'minicbor_serde', 'minicbor_io'):
                mp = ext['may_panic']
                if 'ops::Index' in rp and any('RangeFull' in a for a in (f.get('rargs') or [])):
                    continue   # x[..] cannot be out of bounds
                if mp in ('yes', 'unknown'):
                    out.append({'kind': 'ext:' + mp, 'op': rp, 'why': ext.get('why'), 'sp': t.get('sp'), 'bb': bi})
            if 't' not in t:
                out.append({'kind': 'call:diverging', 'op': rp, 'sp': t.get('sp'), 'bb': bi})
        elif t['k'] == 'unreachable':
            pass
    return out
