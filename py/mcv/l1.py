"""L1 (byte level) tables: encoder methods, CborLen of scalars, decoder accessors."""
from .absint import (Machine, State, Int, Cond, Atom, Adt, Tup, Arr, BeBytes, Ref, Slice, Str, UNIT, Fork, Abort,
                     iv_str, ty_range, int_info, fresh)
from . import prims
from .prims import ok, err, some, NONE, RESULT, OPTION, norm_adt

ENC = 'minicbor::encode::encoder::Encoder::<W>::'
WRITE_ALL = 'minicbor::encode::write::Write::write_all'


def slice_bytes(m, st, s):
    """abstract contents of a &[u8] value as a tuple of terms"""
    if isinstance(s, Str):
        return tuple(Int.const(b) for b in s.b)
    if isinstance(s, Ref):
        s2 = m.read_path(st, s.key, s.path)
        if isinstance(s2, (Slice, Str)):
            return slice_bytes(m, st, s2)
        s = Slice(s, None, None)
    if isinstance(s, Slice):
        if s.base is not None:
            v = m.read_path(st, s.base.key, s.base.path)
            if isinstance(v, Arr):
                return tuple(v.elems)
            if isinstance(v, BeBytes):
                return (v,)
            return (('DATA', repr(v), repr(s.len)),)
        return (('DATA', s.data, repr(s.len)),)
    return (('DATA', repr(s), '?'),)


def write_all_prim(m, cfg, f, args, t):
    st = cfg.st
    b = slice_bytes(m, st, args[1])
    st.events.append(('PUT', b))
    return Fork([(None, ok(UNIT)), (lambda s: s.events.append(('SINKERR',)), err(Atom('sinkerr')))])


def encoder_machine(prog):
    return Machine(prog, prims=prims.P, overrides={WRITE_ALL: write_all_prim})


def run_encoder_method(prog, name, m=None):
    """returns (machine, inst, outcomes, argsyms)"""
    inst = prog.one(ENC + name)
    if inst is None:
        return None
    m = m or encoder_machine(prog)
    st = State()
    body = inst['body']
    args = []
    names = dict((l, n) for l, n in body['names'])
    for i in range(1, body['argc'] + 1):
        ty = body['locals'][i]
        nm = names.get(i, 'a%d' % i)
        args.append(m.make_value(st, ty, nm))
    outs = m.run(inst, args, st)
    return m, inst, outs


def result_kind(v):
    if isinstance(v, Adt) and norm_adt(v.adt) == RESULT:
        return 'Ok' if v.variant == 0 else 'Err'
    return '?'


def fmt_cell(st, syms=None):
    parts = []
    for s, r in sorted(st.ranges.items()):
        if syms is not None and s not in syms:
            continue
        parts.append('%s in %s' % (s, iv_str(r)))
    return ', '.join(parts)


# ---------------------------------------------------------------------------
# decoder

DEC = "minicbor::decode::decoder::Decoder::<'_>::"
INPUT_PRIMS = ('read', 'read_array', 'read_slice', 'current', 'peek')
EOI = 'minicbor::decode::error::Error::end_of_input'


def eoi_error():
    return Adt('minicbor::decode::error::Error', 0, [Adt('minicbor::decode::error::ErrorImpl', 0, []), prims.NONE, Atom('msg')])


def _consumed(st):
    return st.extra.get('consumed', ())


def _consume(st, ev):
    st.extra['consumed'] = _consumed(st) + (ev,)
    st.events.append(ev)
    st.extra.pop('cur', None)
    st.extra.pop('peek', None)


def dec_read(m, cfg, f, args, t):
    st = cfg.st
    cur = st.extra.get('cur')
    if cur is not None:
        _consume(st, ('READ1', cur))
        _bump_pos(m, st, args, Int.const(1))
        return ok(Int.sym(cur))
    n = len(_consumed(st))
    s = m.new_sym(st, 'b%d' % n, 'u8')

    def okm(s_):
        _consume(s_, ('READ1', s))
        _bump_pos(m, s_, args, Int.const(1))

    def errm(s_):
        s_.events.append(('EOI', 'read'))
    return Fork([(okm, ok(Int.sym(s))), (errm, err(eoi_error()))])


def _bump_pos(m, st, args, delta):
    """keep the decoder's own `pos` field in step with the bytes consumed: code above the input primitives may read the field
    directly (`let p = self.pos; ..; self.pos - p`) instead of calling position()"""
    from .absint import lin_add
    r = args[0] if args else None
    if not isinstance(r, Ref):
        return
    fp = r.path + (('f', 1, 'pos'),)
    try:
        v = m.read_path(st, r.key, fp)
    except Exception:
        return
    if delta is None:
        m.write_path(st, r.key, fp, Atom(fresh('pos'), {'s': 'usize', 'k': 'int:usize'}))
    elif isinstance(v, Int) and isinstance(delta, Int):
        m.write_path(st, r.key, fp, lin_add(v, delta, 1))
    else:
        m.write_path(st, r.key, fp, Atom(fresh('pos'), {'s': 'usize', 'k': 'int:usize'}))


def dec_current(m, cfg, f, args, t):
    st = cfg.st
    cur = st.extra.get('cur')
    if cur is not None:
        return ok(Int.sym(cur))
    n = len(_consumed(st))
    s = m.new_sym(st, 'b%d' % n, 'u8')

    def okm(s_):
        s_.extra['cur'] = s
        s_.events.append(('CUR', s))

    def errm(s_):
        s_.events.append(('EOI', 'current'))
    return Fork([(okm, ok(Int.sym(s))), (errm, err(eoi_error()))])


def dec_peek(m, cfg, f, args, t):
    st = cfg.st
    pk = st.extra.get('peek')
    if pk is not None:
        return ok(Int.sym(pk))
    s = m.new_sym(st, 'pk%d' % len(_consumed(st)), 'u8')

    def okm(s_):
        s_.extra['peek'] = s
        s_.events.append(('PEEK', s, len(_consumed(s_))))

    def errm(s_):
        s_.events.append(('EOI', 'peek'))
    return Fork([(okm, ok(Int.sym(s))), (errm, err(eoi_error()))])


def dec_read_array(m, cfg, f, args, t):
    st = cfg.st
    ra = f.get('rargs') or []
    n = int(ra[-1]) if ra and ra[-1].isdigit() else None
    if n is None:
        return NotImplemented
    k = len(_consumed(st))
    s = m.new_sym(st, 'arg%d' % k, 'u%d' % (8 * n) if n in (1, 2, 4, 8, 16) else 'u128', ((0, (1 << (8 * n)) - 1),))

    def okm(s_):
        _consume(s_, ('READN', n, s))
        _bump_pos(m, s_, args, Int.const(n))

    def errm(s_):
        s_.events.append(('EOI', 'read_array'))
    return Fork([(okm, ok(BeBytes(Int.sym(s), n, 'be'))), (errm, err(eoi_error()))])


def dec_read_slice(m, cfg, f, args, t):
    st = cfg.st
    n = args[1]
    k = len(_consumed(st))

    def okm(s_):
        _consume(s_, ('READSLICE', n))
        _bump_pos(m, s_, args, n if isinstance(n, Int) else None)

    def errm(s_):
        s_.events.append(('EOI', 'read_slice'))
    return Fork([(okm, ok(Slice(None, 'input@%d' % k, n))), (errm, err(eoi_error()))])


def consumed_len(st):
    """bytes consumed so far as a linear value (None if a slice length is opaque)"""
    from .absint import lin_add
    tot = Int.const(0)
    for e in _consumed(st):
        if e[0] == 'READ1':
            tot = lin_add(tot, Int.const(1), 1)
        elif e[0] == 'READN':
            tot = lin_add(tot, Int.const(e[1]), 1)
        elif e[0] == 'READSLICE':
            if not isinstance(e[1], Int):
                return None
            tot = lin_add(tot, e[1], 1)
    return tot


def dec_position(m, cfg, f, args, t):
    from .absint import lin_add
    st = cfg.st
    if 'pos0' not in st.ranges:
        st.ranges['pos0'] = ((0, 1 << 40),)
        st.symty['pos0'] = 'usize'
    c = consumed_len(st)
    if c is None:
        return Atom(fresh('pos'), {'s': 'usize', 'k': 'int:usize'})
    return lin_add(Int.sym('pos0'), c, 1)


def dec_set_position(m, cfg, f, args, t):
    from .absint import lin_add
    st = cfg.st
    p = args[1]
    cur_pos = dec_position(m, cfg, f, args, t)
    if isinstance(p, Int) and isinstance(cur_pos, Int):
        d = lin_add(p, cur_pos, -1)
        if d.is_const() and d.c == 0:
            return UNIT
        if d.is_const() and d.c == 1 and st.extra.get('cur') is not None:
            _consume(st, ('READ1', st.extra['cur']))   # steps over the byte that was just inspected
            _bump_pos(m, st, args, Int.const(1))
            return UNIT
    st.events.append(('SETPOS', p))
    if isinstance(args[0], Ref):
        m.write_path(st, args[0].key, args[0].path + (('f', 1, 'pos'),), p)
    st.extra.pop('cur', None)
    st.extra.pop('peek', None)
    return UNIT


def dec_input(m, cfg, f, args, t):
    st = cfg.st
    if 'inputlen' not in st.ranges:
        st.ranges['inputlen'] = ((0, 1 << 40),)
        st.symty['inputlen'] = 'usize'
    return Slice(None, 'input', Int.sym('inputlen'))


def decoder_overrides():
    return {
        DEC + 'position': dec_position,
        DEC + 'set_position': dec_set_position,
        DEC + 'input': dec_input,
        DEC + 'read': dec_read,
        DEC + 'current': dec_current,
        DEC + 'peek': dec_peek,
        DEC + 'read_array': dec_read_array,
        DEC + 'read_slice': dec_read_slice,
    }


def decoder_machine(prog, **kw):
    return Machine(prog, prims=prims.P, overrides=decoder_overrides(), **kw)


def error_class(prog, v):
    """class name of a decode::Error value"""
    if isinstance(v, Adt) and v.adt.endswith('decode::error::Error') and v.fields:
        e = v.fields[0]
        if isinstance(e, Adt):
            ad = prog.adts.get(e.adt)
            if ad:
                return ad['variants'][e.variant]['name']
            return 'variant%d' % e.variant
    return '?'


def run_decoder_method(prog, name, m=None, path=None):
    inst = prog.one(path or (DEC + name))
    if inst is None:
        return None
    m = m or decoder_machine(prog)
    st = State()
    body = inst['body']
    names = dict((l, n) for l, n in body['names'])
    args = []
    for i in range(1, body['argc'] + 1):
        args.append(m.make_value(st, body['locals'][i], names.get(i, 'a%d' % i)))
    outs = m.run(inst, args, st)
    return m, inst, outs


def describe_result(prog, v):
    if isinstance(v, Adt) and norm_adt(v.adt) == RESULT:
        if v.variant == 0:
            return ('Ok', v.fields[0])
        return ('Err', error_class(prog, v.fields[0]))
    return ('?', v)
