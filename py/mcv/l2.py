"""L2 (item level) summaries: Encode / CborLen / Decode impls, derive expansions, serde methods.

The public Encoder / Decoder methods are primitives here (their byte behaviour is what L1 verifies):
encoding appends abstract items, decoding consumes an abstract item stream.
"""
import re
from .absint import (Machine, State, Int, Cond, Atom, Adt, Tup, Arr, BeBytes, Ref, Slice, Str, FnItem, Clo, UNIT, Fork, CallThen,
                     Abort, NeedVariant, iv_str, ty_range, int_info, fresh, ty_from_str, lin_add)
from . import prims, l1
from .prims import ok, err, some, NONE, RESULT, OPTION, norm_adt, deref

ENC = l1.ENC
DEC = l1.DEC
def _len_cap():
    # artificial bound on symbolic lengths: far below usize::MAX so that sums of a few lengths do not overflow, yet above the
    # widest head class that can occur (8-byte heads on 64-bit targets, 4-byte heads on 32-bit ones)
    from . import absint as _a
    return _a.len_cap()


class _LenRange(tuple):
    pass


def len_range():
    return ((0, _len_cap()),)


def item_len_range():
    return ((1, _len_cap()),)


LEN_RANGE = ((0, 1 << 40),)
ITEM_LEN_RANGE = ((1, 1 << 40),)     # the encoding of a complete data item (what Encode / CborLen of a value stand for) has at least one byte

INT_METHODS = ['u8', 'u16', 'u32', 'u64', 'i8', 'i16', 'i32', 'i64']


def vname(m, st, v):
    """a stable name for the origin of a value (for leaf items)"""
    if isinstance(v, Ref):
        t = m.read_path(st, v.key, v.path)
        if isinstance(t, Ref):
            return vname(m, st, t)
        if isinstance(t, Atom):
            return t.name
        if isinstance(t, Slice):
            return t.data if t.base is None else vname(m, st, t.base)
        if isinstance(t, Int):
            return repr(t)
        if isinstance(t, Adt) and not t.fields:
            return '%s#%d' % (t.adt, t.variant)
        # aggregate: name of the place, in the same style as atom names ("self*.f00")
        base = ('%s*' % v.key[1]) if isinstance(v.key, tuple) and v.key[0] == 'arg' else str(v.key)
        return '%s%s' % (base, ''.join('.%s' % (p[2] if len(p) > 2 and p[2] is not None else p[1]) for p in v.path if p[0] != 'v'))
    if isinstance(v, Atom):
        return v.name
    if isinstance(v, Slice):
        return v.data if v.base is None else vname(m, st, v.base)
    return repr(v)


def emit(st, item):
    st.events.append(('ITEM',) + tuple(item))


def items_of(events):
    return [e[1:] for e in events if e[0] == 'ITEM']


# ---------------------------------------------------------------------------
# encoder side


def _enc_int(kind):
    def h(m, cfg, f, args, t):
        emit(cfg.st, ('INT', kind, args[1]))
        return ok(args[0])
    return h


def _enc_fixed(item):
    def h(m, cfg, f, args, t):
        emit(cfg.st, item)
        return ok(args[0])
    return h


def _enc_val(kind):
    def h(m, cfg, f, args, t):
        emit(cfg.st, (kind, args[1]))
        return ok(args[0])
    return h


def _enc_slice(kind):
    def h(m, cfg, f, args, t):
        st = cfg.st
        v = args[1]
        sv = deref(m, st, v) if isinstance(v, Ref) else v
        nm = vname(m, st, v)
        if isinstance(sv, Slice):
            ln = sv.len
        elif isinstance(sv, Str):
            ln = Int.const(len(sv.b))
        elif isinstance(sv, (Arr,)):
            ln = Int.const(len(sv.elems))
        elif isinstance(sv, BeBytes):
            ln = Int.const(sv.n)
        else:
            ln = slice_len_of(m, st, nm)
        emit(st, (kind, nm, ln))
        return ok(args[0])
    return h


def enc_tag(m, cfg, f, args, t):
    v = args[1]
    if isinstance(v, Adt) and v.adt.endswith('data::Tag'):
        v = v.fields[0]
        emit(cfg.st, ('TAG', v))
        return ok(args[0])
    ra = f.get('rargs') or []
    if ra and not ra[-1].endswith('data::Tag'):
        inst = m.prog.get('<minicbor::data::Tag as std::convert::From<%s>>::from' % ra[-1]) or m.prog.get('<minicbor::data::Tag as core::convert::From<%s>>::from' % ra[-1])
        if inst is not None:
            me = args[0]

            def post(mm, c, tv):
                x = tv.fields[0] if isinstance(tv, Adt) and tv.adt.endswith('data::Tag') else tv
                emit(c.st, ('TAG', x))
                return ok(me)
            return CallThen(FnItem({'rkey': inst['key'], 'rpath': inst['path'], 'path': inst['path'], 'rkind': 'item'}), [v], post)
    emit(cfg.st, ('TAG', v))
    return ok(args[0])


def enc_leaf(m, cfg, f, args, t):
    if f.get('resolved') and not m.is_leaf_callee(f):
        return NotImplemented
    st = cfg.st
    ty = f.get('self_ty') or (f.get('rargs') or ['?'])[0]
    if f.get('resolved'):
        ty = f.get('impl_self', ty)
    emit(st, ('ENC', ty, vname(m, st, args[0])))
    return ok(UNIT)


def is_nil_leaf(m, cfg, f, args, t):
    if f.get('resolved') and not m.is_leaf_callee(f):
        return NotImplemented
    return Atom('is_nil(%s)' % vname(m, cfg.st, args[0]), {'s': 'bool', 'k': 'bool'})


def len_leaf(m, cfg, f, args, t):
    if f.get('resolved') and not m.is_leaf_callee(f):
        return NotImplemented
    st = cfg.st
    ty = f.get('self_ty') or (f.get('rargs') or ['?'])[0]
    if f.get('resolved'):
        ty = f.get('impl_self', ty)
    nm = 'LEN(%s)' % vname(m, st, args[0])
    if nm not in st.ranges:
        st.ranges[nm] = item_len_range()
        st.symty[nm] = 'usize'
    st.extra['lens'] = st.extra.get('lens', ()) + ((nm, ty),)
    return Int.sym(nm)


def encoder_overrides():
    o = {}
    for k in INT_METHODS:
        o[ENC + k] = _enc_int(k)
    o[ENC + 'int'] = _enc_int('int')
    o[ENC + 'null'] = _enc_fixed(('NULL',))
    o[ENC + 'undefined'] = _enc_fixed(('UNDEF',))
    o[ENC + 'end'] = _enc_fixed(('BREAK',))
    for k in ('array', 'bytes', 'map', 'str'):
        o[ENC + 'begin_' + k] = _enc_fixed(('BEGIN', k))
    o[ENC + 'bool'] = _enc_val('BOOL')
    o[ENC + 'char'] = _enc_val('CHAR')
    o[ENC + 'simple'] = _enc_val('SIMPLE')
    o[ENC + 'f16'] = _enc_val('F16')
    o[ENC + 'f32'] = _enc_val('F32')
    o[ENC + 'f64'] = _enc_val('F64')
    o[ENC + 'array'] = _enc_val('ARRAY')
    o[ENC + 'map'] = _enc_val('MAP')
    o[ENC + 'bytes'] = _enc_slice('BYTES')
    o[ENC + 'str'] = _enc_slice('STR')
    o[ENC + 'tag'] = enc_tag
    o['minicbor::encode::Encode::encode'] = enc_leaf
    o['minicbor::encode::Encode::is_nil'] = is_nil_leaf
    o['minicbor::encode::CborLen::cbor_len'] = len_leaf
    o['minicbor::bytes::EncodeBytes::encode_bytes'] = enc_leaf
    o['minicbor::bytes::EncodeBytes::is_nil'] = is_nil_leaf
    o['minicbor::bytes::CborLenBytes::cbor_len'] = len_leaf
    return o


# ---------------------------------------------------------------------------
# symbolic collections / iterators (one representative iteration)

ITER = 'mcv::Iter'


def coll_name(m, st, v):
    return vname(m, st, v)


def coll_len(m, cfg, f, args, t):
    st = cfg.st
    v = args[0]
    tv = deref(m, st, v)
    if isinstance(tv, Slice):
        return tv.len
    if isinstance(tv, Arr):
        return Int.const(len(tv.elems))
    nm = 'len(%s)' % coll_name(m, st, v)
    if nm not in st.ranges:
        st.ranges[nm] = len_range()
        st.symty[nm] = 'usize'
    return Int.sym(nm)


def into_iter(m, cfg, f, args, t):
    st = cfg.st
    v = args[0]
    if isinstance(v, Adt) and v.adt in (ITER, 'mcv::MapIter'):
        return v
    if isinstance(v, Adt) and v.adt.endswith('ops::Range'):
        return v
    if isinstance(v, Adt) and v.adt.split('::')[0] in ('minicbor', 'minicbor_serde', 'minicbor_io'):
        return v   # the codec's own iterator types: IntoIterator for an Iterator is the identity
    ra = ' '.join((f.get('rargs') or []) + (f.get('args') or []) + [f.get('rpath') or '', f.get('impl_self') or ''])
    is_map = 'Map<' in ra or 'Map::' in ra or 'map::' in ra
    return Adt(ITER, 0, [Atom(coll_name(m, st, v)), Int.const(0), Int.const(1 if is_map else 0)])


def iter_next(m, cfg, f, args, t):
    st = cfg.st
    r = args[0]
    if not isinstance(r, Ref):
        return NotImplemented
    it = m.read_path(st, r.key, r.path)
    if isinstance(it, Adt) and it.adt.endswith('ops::Range'):
        return range_next(m, cfg, r, it)
    if not (isinstance(it, Adt) and it.adt == ITER):
        # opaque iterator (generic I): representative iteration keyed by the iterator's place
        nm = coll_name(m, st, r)
        it = Adt(ITER, 0, [Atom(nm), Int.const(0), Int.const(0)])
    coll, state, is_map = it.fields
    if state.c == 0:
        m.write_path(st, r.key, r.path, Adt(ITER, 0, [coll, Int.const(1), is_map]))
        st.events.append(('REP_BEGIN', coll.name))
        if is_map.c:
            kk = ('elem', coll.name, 'k')
            vk = ('elem', coll.name, 'v')
            st.mem[kk] = Atom('key(%s)' % coll.name)
            st.mem[vk] = Atom('val(%s)' % coll.name)
            return some(Tup([Ref(kk), Ref(vk)]))
        ek = ('elem', coll.name, 'e')
        st.mem[ek] = Atom('elem(%s)' % coll.name)
        ret_ty = m.local_ty(cfg.stack[-1], t['dest']) if t else {}
        by_ref = 'Option<&' in ret_ty.get('s', 'Option<&')
        return some(Ref(ek) if by_ref else st.mem[ek])
    st.events.append(('REP_END', coll.name))
    return NONE


def range_next(m, cfg, r, it):
    st = cfg.st
    start, end = it.fields
    if isinstance(start, Int) and isinstance(end, Int):
        c = m.compare(st, 'Lt', start, end)
        if isinstance(c, Int) and c.is_const():
            if c.c:
                m.write_path(st, r.key, r.path, Adt(it.adt, 0, [lin_add(start, Int.const(1), 1), end]))
                return some(start)
            return NONE
    raise Abort('loop over a symbolic range %r..%r' % (start, end))


def iter_map(m, cfg, f, args, t):
    return Adt('mcv::MapIter', 0, [args[0], args[1]])


def iter_sum(m, cfg, f, args, t):
    st = cfg.st
    mi = args[0]
    if not (isinstance(mi, Adt) and mi.adt == 'mcv::MapIter'):
        return NotImplemented
    it, clo = mi.fields
    if not (isinstance(it, Adt) and it.adt == ITER):
        return NotImplemented
    coll, _, is_map = it.fields
    if is_map.c:
        kk = ('elem', coll.name, 'k')
        vk = ('elem', coll.name, 'v')
        st.mem[kk] = Atom('key(%s)' % coll.name)
        st.mem[vk] = Atom('val(%s)' % coll.name)
        elem = Tup([Ref(kk), Ref(vk)])
    else:
        ek = ('elem', coll.name, 'e')
        st.mem[ek] = Atom('elem(%s)' % coll.name)
        elem = Ref(ek)

    def post(mm, c, v):
        nm = 'SUM(%s)' % coll.name
        if nm not in c.st.ranges:
            c.st.ranges[nm] = len_range()
            c.st.symty[nm] = 'usize'
        c.st.extra['sums'] = c.st.extra.get('sums', ()) + ((nm, v),)
        return Int.sym(nm)
    return CallThen(clo, [elem], post)


def as_slice_identity(m, cfg, f, args, t):
    """Deref/AsRef/as_slice/as_str of owned buffers: the same bytes, seen as a slice"""
    st = cfg.st
    nm = vname(m, st, args[0])
    return Slice(None, nm, slice_len_of(m, st, nm))


def _next_fn(m, f, it_val, st):
    """the `next` of the iterator a `try_for_each` / `for_each` call runs over, as a callable value"""
    v = it_val
    if isinstance(v, Ref):
        v = m.read_path(st, v.key, v.path)
    if isinstance(v, Adt) and v.adt.split('::')[0] in ('minicbor', 'minicbor_serde', 'minicbor_io'):
        want = '<%s' % v.adt
        for inst in m.prog.insts.values():
            if inst['path'].startswith(want) and inst['path'].endswith(' as std::iter::Iterator>::next'):
                return FnItem({'rkey': inst['key'], 'rpath': inst['path'], 'path': inst['path'], 'rkind': 'item', 'resolved': True, 'krate': inst['krate'], 'rkrate': inst['krate']})
        return None
    # std iterators over symbolic collections: the representative-iteration `next` above
    return FnItem({'path': 'std::iter::Iterator::next', 'rpath': 'std::iter::Iterator::next', 'resolved': False})


def iter_try_for_each(m, cfg, f, args, t):
    """Iterator::try_for_each(f) / for_each(f) as the loop they are: `while let Some(x) = it.next() { f(x)? }` (for_each: no `?`).
    Only for closures returning Result<(), E> / ()."""
    st = cfg.st
    it, clo = args[0], args[1]
    nxt = _next_fn(m, f, it, st)
    if nxt is None or not isinstance(clo, (Clo, FnItem)):
        return NotImplemented
    trying = (f.get('rpath') or f.get('path') or '').endswith('try_for_each')
    it_arg = it if isinstance(it, Ref) else None
    if it_arg is None:
        key = ('obj', fresh('iter'))
        st.mem[key] = it
        it_arg = Ref(key, (), True)
    rounds = [0]

    def after_f(mm, c, r):
        if trying:
            if isinstance(r, Adt) and norm_adt(r.adt) == RESULT:
                if r.variant == 1:
                    return r
            else:
                raise Abort('try_for_each over a closure whose result is not a Result (%r)' % (r,))
        rounds[0] += 1
        if rounds[0] > 64:
            raise Abort('try_for_each does not terminate on the abstract stream')
        return CallThen(nxt, [it_arg], after_next)

    def after_next(mm, c, v):
        if isinstance(v, Adt) and norm_adt(v.adt) == OPTION:
            if v.variant == 0:
                return ok(UNIT) if trying else UNIT
            return CallThen(clo, [v.fields[0]], after_f)
        raise Abort('iterator adaptor over an iterator whose next() is not understood (%r)' % (v,))
    return CallThen(nxt, [it_arg], after_next)


PATTERNS = [
    (re.compile(r'^(std|core)::iter::Iterator::(try_)?for_each$'), iter_try_for_each),
    (re.compile(r"^<(std|alloc)::(vec::Vec<T, A>|string::String) as (std|core)::ops::Deref(Mut)?>::deref(_mut)?$"), as_slice_identity),
    (re.compile(r"^(std|alloc)::vec::Vec::<T, A>::as_(mut_)?slice$"), as_slice_identity),
    (re.compile(r"^(std|alloc)::string::String::as_str$"), as_slice_identity),
    (re.compile(r"^<(std|alloc)::string::String as (std|core)::convert::AsRef<str>>::as_ref$"), as_slice_identity),
    (re.compile(r'^(std|alloc|core)::.*::(len)$'), coll_len),
    (re.compile(r'.*IntoIterator.*::into_iter$'), into_iter),
    (re.compile(r'^(std|core|alloc)::.*::iter$'), into_iter),
    (re.compile(r'^<(std|core|alloc)::.*Iter<.*> as (std|core)::iter::Iterator>::next$'), iter_next),
    (re.compile(r'^(std|core)::iter::range::<impl (std|core)::iter::Iterator for (std|core)::ops::Range<A>>::next$'), iter_next),
    (re.compile(r'^(std|core)::iter::Iterator::next$'), iter_next),
    (re.compile(r'^(std|core)::iter::Iterator::map$'), iter_map),
    (re.compile(r'^(std|core)::iter::Iterator::sum$'), iter_sum),
]


def codec_leaf(m, cfg, f, args, t):
    """custom codec functions of the harness (`crate::codec::*`) are opaque leaves by the documented contract:
    encode_with writes one item, decode_with reads one item, cbor_len returns its length, is_nil/nil are arbitrary"""
    st = cfg.st
    segs = (f.get('rpath') or f.get('path')).split('::')
    name = segs[-1]
    if name in ('encode', 'decode', 'cbor_len', 'is_nil', 'nil') and len(segs) >= 2:
        # a codec *module* (`#[cbor(with = "path", has_nil)]`): same contract, functions named by role
        name = {'encode': 'enc_', 'decode': 'dec_', 'cbor_len': 'len_', 'is_nil': 'is_nil_', 'nil': 'nil_'}[name] + segs[-2]
    if name.startswith('enc_'):
        emit(st, ('ENC', 'custom:' + name, vname(m, st, args[0])))
        return ok(UNIT)
    if name.startswith('len_'):
        nm = 'LEN(%s)' % vname(m, st, args[0])
        if nm not in st.ranges:
            st.ranges[nm] = item_len_range()
            st.symty[nm] = 'usize'
        return Int.sym(nm)
    if name.startswith('is_nil_'):
        return Atom('is_nil(%s)' % vname(m, st, args[0]), {'s': 'bool', 'k': 'bool'})
    if name.startswith('nil_'):
        return Atom('nil_is_some(%s)' % name, ty_from_str('std::option::Option<%s::Opaque>' % (f.get('rpath') or f.get('path')).split('::')[0]))
    if name.startswith('dec_'):
        return decode_leaf_custom(m, cfg, f, args, t, name)
    return NotImplemented


def decode_leaf_custom(m, cfg, f, args, t, name):
    st = cfg.st
    e = peek_item(st)
    if e is None:
        return eoi(m)
    if e[0] == 'ITEM' and e[1] == 'ENC' and str(e[2]).startswith('custom:'):
        st.events.append(('DECODED', 'custom:' + name, e[2], e[3]))
        advance(st)
        return ok(Atom(e[3]))
    return mismatch(m, st, 'custom decode', e)


class L2Machine(Machine):
    def __init__(self, prog, overrides, leaf_crates=(), root_self=None, **kw):
        Machine.__init__(self, prog, prims=prims.P, overrides=overrides, **kw)
        self.leaf_crates = set(leaf_crates)
        self.root_self = root_self
        self.patterns = PATTERNS
        self.max_len = _len_cap()

    def is_leaf_callee(self, f):
        """calls into other user (harness) types are leaves: their own expansion is analysed as its own root"""
        if f.get('rkrate') in self.leaf_crates:
            s = f.get('impl_self')
            if s is not None and s != self.root_self:
                return True
        return False

    def extra_handler(self, names):
        for n in names:
            if not n:
                continue
            for rx, h in self.patterns:
                if rx.match(n):
                    return h
        return None

    def call_fn(self, cfg, fr, f, args, dest, ret_bb, t):
        from .absint import std_name
        names = [f.get('rpath'), f.get('path')]
        names = [x for n in names if n for x in ((n, std_name(n)) if std_name(n) != n else (n,))]
        if any(n and '::codec::' in n and n.split('::')[0] in self.leaf_crates for n in names):
            r = codec_leaf(self, cfg, f, args, t)
            if r is not NotImplemented:
                return self.apply_prim_result(cfg, r, dest, ret_bb, t)
        if not any(n in self.overrides or n in self.prims for n in names if n):
            for n in names:
                if not n:
                    continue
                for rx, h in self.patterns:
                    if rx.match(n):
                        r = h(self, cfg, f, args, t)
                        if r is not NotImplemented:
                            return self.apply_prim_result(cfg, r, dest, ret_bb, t)
        return Machine.call_fn(self, cfg, fr, f, args, dest, ret_bb, t)


def run_root(prog, path_or_inst, overrides, leaf_crates=(), args=None, st=None, **kw):
    inst = prog.one(path_or_inst) if isinstance(path_or_inst, str) else path_or_inst
    if inst is None:
        return None
    m = L2Machine(prog, overrides, leaf_crates, root_self=inst.get('impl_self'), **kw)
    st = st or State()
    body = inst['body']
    names = dict((l, n) for l, n in body['names'])
    if args is None:
        args = [m.make_value(st, body['locals'][i], names.get(i, 'a%d' % i)) for i in range(1, body['argc'] + 1)]
    outs = m.run(inst, args, st)
    return inst, outs, m


# ---------------------------------------------------------------------------
# lengths of item sequences


def hl_of(m, st, n):
    """head length of a count/length value on this cell (None if it straddles regimes)"""
    from . import oracle
    if isinstance(n, Int):
        lo, hi = (n.c, n.c) if n.is_const() else m.rng(st, n)
        return oracle.head_len(lo, hi)
    return None


# ---------------------------------------------------------------------------
# lengths: HL(v) = head length of the integer value v (verified per type by T-LEN / T-ENC at L1)

def hl_term(m, st, v):
    from . import oracle
    if isinstance(v, Adt) and v.adt.endswith('data::Int') and len(v.fields) == 2:
        v = v.fields[1]   # head length of a CBOR integer depends on its magnitude field only (T-ENC(int))
    if isinstance(v, Int) and v.is_const():
        x = v.c if v.c >= 0 else -1 - v.c
        return Int.const(oracle.head_len(x, x))
    if isinstance(v, Int):
        sg = v.single()
        if sg and sg[1] == -1 and sg[2] == -1:
            v = Int.sym(sg[0])   # HL(-1 - x) == HL(x): the head encodes -1-x for negative x (T-ENC(iN))
    nm = 'HL(%r)' % (v,)
    if nm not in st.ranges:
        st.ranges[nm] = ((1, 9),)
        st.symty[nm] = 'usize'
    return Int.sym(nm)


_simple_cache = {}


def simple_table(prog):
    """[(lo, hi, length or None)] of Encoder::simple from its L1 table"""
    if id(prog) in _simple_cache:
        return _simple_cache[id(prog)]
    from . import tables
    from .rules.lens import stream_len
    res = tables.enc_rows(prog, 'simple')
    out = []
    if res is not None:
        inst, rows, mm = res
        for r in rows:
            if r.kind != 'return':
                continue
            for lo, hi in r.st.ranges.get('x', ()):
                out.append((lo, hi, stream_len(r.stream) if r.result == 'Ok' else None))
    # a cell may appear with both Ok and sink-error rows: keep the Ok length
    best = {}
    for lo, hi, n in out:
        if n is not None or (lo, hi) not in best:
            if n is not None or best.get((lo, hi)) is None:
                best[(lo, hi)] = n if n is not None else best.get((lo, hi))
    tab = sorted((lo, hi, n) for (lo, hi), n in best.items())
    _simple_cache[id(prog)] = tab
    return tab


def simple_len_at(prog, v):
    for lo, hi, n in simple_table(prog):
        if lo <= v <= hi and n is not None:
            return n
    return 1 if v < 24 else 2


def simple_len_diff(prog):
    """interval text of the simple values whose encoded length differs from the u8 head length"""
    bad = []
    for lo, hi, n in simple_table(prog):
        if n is None:
            continue
        for a, b, want in ((0, 23, 1), (24, 255, 2)):
            x, y = max(lo, a), min(hi, b)
            if x <= y and n != want:
                bad.append((x, y))
    from .absint import iv_norm, iv_str
    return iv_str(iv_norm(bad)) if bad else ''


def _len_scalar(m, cfg, f, args, t):
    v = deref(m, cfg.st, args[0])
    if isinstance(v, Int):
        if v.is_const():
            return NotImplemented
        return hl_term(m, cfg.st, v)
    if isinstance(v, Atom):
        return hl_term(m, cfg.st, v)
    return NotImplemented


def len_overrides():
    o = {}
    for t in INT_METHODS + ['usize', 'isize']:
        o['<%s as minicbor::encode::CborLen<C>>::cbor_len' % t] = _len_scalar
    o['minicbor::encode::CborLen::cbor_len'] = len_leaf
    o['minicbor::encode::Encode::is_nil'] = is_nil_leaf
    o['minicbor::bytes::CborLenBytes::cbor_len'] = len_leaf
    o['minicbor::bytes::EncodeBytes::is_nil'] = is_nil_leaf
    return o


def slice_len_of(m, st, name):
    nm = 'len(%s)' % name
    if nm not in st.ranges:
        st.ranges[nm] = len_range()
        st.symty[nm] = 'usize'
    return Int.sym(nm)


def items_len(m, st, events):
    """length (Int) of an event sequence under state st; returns (Int, notes)"""
    total = Int.const(0)
    stack = []   # for REP blocks: (coll, saved_total)
    notes = []
    for e in events:
        if e[0] == 'REP_BEGIN':
            stack.append((e[1], total))
            total = Int.const(0)
            continue
        if e[0] == 'REP_END':
            coll, saved = stack.pop()
            nm = 'SUM(%s)' % coll
            notes.append((nm, total))
            if nm not in st.ranges:
                st.ranges[nm] = len_range()
                st.symty[nm] = 'usize'
            total = lin_add(saved, Int.sym(nm), 1)
            continue
        if e[0] != 'ITEM':
            continue
        it = e[1:]
        k = it[0]
        if k == 'INT':
            total = lin_add(total, hl_term(m, st, it[2]), 1)
        elif k in ('NULL', 'UNDEF', 'BOOL', 'BREAK', 'BEGIN'):
            total = lin_add(total, Int.const(1), 1)
        elif k == 'SIMPLE':
            v = it[1]
            diff = simple_len_diff(m.prog)
            if isinstance(v, Int) and v.is_const():
                total = lin_add(total, Int.const(simple_len_at(m.prog, v.c)), 1)
            elif not diff:
                # the encoder's simple() length function equals the u8 head length on every value it encodes
                total = lin_add(total, hl_term(m, st, v), 1)
            else:
                nm = 'SIMPLELEN(%r)[differs from the u8 head length on %s]' % (v, diff)
                if nm not in st.ranges:
                    st.ranges[nm] = ((1, 2),)
                    st.symty[nm] = 'usize'
                total = lin_add(total, Int.sym(nm), 1)
        elif k == 'F16':
            total = lin_add(total, Int.const(3), 1)
        elif k == 'F32':
            total = lin_add(total, Int.const(5), 1)
        elif k == 'F64':
            total = lin_add(total, Int.const(9), 1)
        elif k in ('CHAR', 'ARRAY', 'MAP', 'TAG'):
            total = lin_add(total, hl_term(m, st, it[1]), 1)
        elif k in ('STR', 'BYTES'):
            ln = it[2]
            total = lin_add(lin_add(total, hl_term(m, st, ln), 1), ln, 1) if isinstance(ln, Int) else lin_add(total, hl_term(m, st, Atom('len?')), 1)
        elif k == 'ENC':
            nm = 'LEN(%s)' % it[2]
            if nm not in st.ranges:
                st.ranges[nm] = item_len_range()
                st.symty[nm] = 'usize'
            total = lin_add(total, Int.sym(nm), 1)
        else:
            notes.append(('unknown-item', it))
    return total, notes


# ---------------------------------------------------------------------------
# decoder side: accessors consume an abstract item stream (tuple of events: ITEM / REP_BEGIN / REP_END)

TYPE_ADT = 'minicbor::data::Type'
DERR = 'minicbor::decode::error::Error'
DERRI = 'minicbor::decode::error::ErrorImpl'


def _type_variant(prog, name):
    ad = prog.adts.get(TYPE_ADT)
    for i, v in enumerate(ad['variants']):
        if v['name'] == name:
            return Adt(TYPE_ADT, i, [] if name != 'Unknown' else [Int.const(0)])
    raise Abort('Type::%s unknown' % name)


def _derr(prog, name, payload=()):
    ad = prog.adts.get(DERRI)
    for i, v in enumerate(ad['variants']):
        if v['name'] == name:
            return Adt(DERR, 0, [Adt(DERRI, i, list(payload)), NONE, Atom('msg')])
    raise Abort('ErrorImpl::%s unknown' % name)


def stream(st):
    return st.extra.get('stream') or ()


def cur(st):
    return st.extra.get('cur', 0)


def peek_item(st):
    s, i = stream(st), cur(st)
    while i < len(s) and s[i][0] in ():
        i += 1
    return s[i] if i < len(s) else None


def advance(st, n=1):
    st.extra['cur'] = cur(st) + n


def int_type_name(v, kind):
    """minicbor Type a datatype() call reports for an INT item"""
    if isinstance(v, Int) and v.is_const():
        c = v.c
        if c >= 0:
            return 'U8' if c <= 0xff else 'U16' if c <= 0xffff else 'U32' if c <= 0xffffffff else 'U64'
        m = -1 - c
        return 'I8' if m <= 0x7f else 'I16' if m <= 0x7fff else 'I32' if m <= 0x7fffffff else 'I64' if m <= (1 << 63) - 1 else 'Int'
    return {'u8': 'U8', 'u16': 'U16', 'u32': 'U32', 'u64': 'U64', 'i8': 'I8', 'i16': 'I16', 'i32': 'I32', 'i64': 'I64', 'int': 'Int'}.get(kind, 'U8')


ITEM_TYPE = {'NULL': 'Null', 'UNDEF': 'Undefined', 'BOOL': 'Bool', 'SIMPLE': 'Simple', 'F16': 'F16', 'F32': 'F32', 'F64': 'F64',
             'CHAR': 'U32', 'TAG': 'Tag', 'BYTES': 'Bytes', 'STR': 'String', 'ARRAY': 'Array', 'MAP': 'Map', 'BREAK': 'Break'}
BEGIN_TYPE = {'array': 'ArrayIndef', 'map': 'MapIndef', 'bytes': 'BytesIndef', 'str': 'StringIndef'}


def eoi(m):
    return err(_derr(m.prog, 'EndOfInput'))


def mismatch(m, st, what, it):
    st.events.append(('MISMATCH', what, it))
    return err(_derr(m.prog, 'TypeMismatch', [Atom('type')]))


def d_datatype(m, cfg, f, args, t):
    st = cfg.st
    e = peek_item(st)
    if e is None:
        return eoi(m)
    if e[0] != 'ITEM':
        return ok(Atom('Type:elements', {'s': TYPE_ADT, 'k': 'leaftype'}))
    it = e[1:]
    k = it[0]
    if k == 'INT':
        return ok(_type_variant(m.prog, int_type_name(it[2], it[1])))
    if k == 'BEGIN':
        return ok(_type_variant(m.prog, BEGIN_TYPE[it[1]]))
    if k == 'ENC':
        # an opaque leaf: by the property's exclusion (no Option directly in an Option) it is not null, and it is not a break
        return ok(Atom('Type:leaf(%s)' % it[2], {'s': TYPE_ADT, 'k': 'leaftype'}))
    return ok(_type_variant(m.prog, ITEM_TYPE[k]))


def type_eq(m, cfg, f, args, t):
    st = cfg.st
    a = deref(m, st, args[0])
    b = deref(m, st, args[1])
    ne = (f.get('rpath') or f['path']).endswith('::ne')
    res = None
    if isinstance(a, Atom) or isinstance(b, Atom):
        other = b if isinstance(a, Atom) else a
        if isinstance(other, Adt):
            nm = m.prog.adts[TYPE_ADT]['variants'][other.variant]['name']
            if nm in ('Null', 'Break', 'Undefined'):
                res = 0
    elif isinstance(a, Adt) and isinstance(b, Adt):
        res = 1 if a.variant == b.variant else 0
    if res is None:
        return NotImplemented
    return Int.const((1 - res) if ne else res)


def _d_container(kind):
    def h(m, cfg, f, args, t):
        st = cfg.st
        e = peek_item(st)
        if e is None:
            return eoi(m)
        if e[0] == 'ITEM' and e[1] == kind:
            advance(st)
            return ok(some(e[2]))
        if e[0] == 'ITEM' and e[1] == 'BEGIN' and e[2] == kind.lower():
            advance(st)
            return ok(NONE)
        return mismatch(m, st, kind.lower(), e)
    return h


def _d_int(acc):
    def h(m, cfg, f, args, t):
        st = cfg.st
        e = peek_item(st)
        if e is None:
            return eoi(m)
        if e[0] == 'ITEM' and e[1] in ('INT', 'CHAR'):
            v = e[3] if e[1] == 'INT' else e[2]
            kind = e[2] if e[1] == 'INT' else 'u32'
            if acc == 'int':
                advance(st)
                if isinstance(v, Adt):
                    return ok(v)
                return ok(Atom('Int(%r)' % (v,)))
            if isinstance(v, Adt):   # data::Int value read through a primitive accessor
                st.flags.add('imprecise:int-narrow')
                advance(st)
                return Fork([(None, ok(Atom('narrow(%r)' % (v,)))), (None, err(_derr(m.prog, 'Overflow', [Atom('n')])))])
            tr = ty_range(acc)
            if isinstance(v, Int):
                lo, hi = (v.c, v.c) if v.is_const() else m.rng(st, v)
                if tr[0][0] <= lo and hi <= tr[-1][1]:
                    advance(st)
                    return ok(v)
                if hi < tr[0][0] or lo > tr[-1][1]:
                    st.events.append(('MISMATCH', 'int range %s' % acc, e))
                    return err(_derr(m.prog, 'Overflow' if (lo >= 0) == (tr[0][0] >= 0) or True else 'TypeMismatch', [Atom('n')]))
                # partially representable: both outcomes (the value is universally quantified)
                st.events.append(('NARROWING', acc, kind))
                a2 = cfg.st

                def okm(s_):
                    advance(s_)
                    if len(v.terms) == 1 and v.terms[0][1] == 1 and v.c == 0:
                        from .absint import iv_and
                        sy = v.terms[0][0]
                        s_.ranges[sy] = iv_and(s_.ranges[sy], tr)   # the accessor returned Ok: the value is in its range
                return Fork([(okm, ok(v)), (None, err(_derr(m.prog, 'Overflow', [Atom('n')])))])
            kr = ty_range(kind) if kind != 'int' else None
            advance(st)
            if kr and tr[0][0] <= kr[0][0] and kr[-1][1] <= tr[-1][1]:
                return ok(v)
            st.events.append(('NARROWING', acc, kind))
            return Fork([(None, ok(v)), (None, err(_derr(m.prog, 'Overflow', [Atom('n')])))])
        return mismatch(m, st, acc, e)
    return h


def _d_simple_kind(kind, conv=None):
    def h(m, cfg, f, args, t):
        st = cfg.st
        e = peek_item(st)
        if e is None:
            return eoi(m)
        if e[0] == 'ITEM' and e[1] == kind:
            advance(st)
            if kind in ('NULL', 'UNDEF'):
                return ok(UNIT)
            return ok(e[2])
        return mismatch(m, st, kind.lower(), e)
    return h


def d_float(accept):
    def h(m, cfg, f, args, t):
        st = cfg.st
        e = peek_item(st)
        if e is None:
            return eoi(m)
        if e[0] == 'ITEM' and e[1] in accept and (e[1] != 'F16' or m.prog.feature('half')):
            advance(st)
            return ok(e[2])
        return mismatch(m, st, 'float', e)     # (without feature `half` a half-precision item is a type error: L1 tables, C04)
    return h


def d_char(m, cfg, f, args, t):
    st = cfg.st
    e = peek_item(st)
    if e is None:
        return eoi(m)
    if e[0] == 'ITEM' and e[1] == 'CHAR':
        advance(st)
        return ok(e[2])
    if e[0] == 'ITEM' and e[1] == 'INT':
        advance(st)
        st.events.append(('NARROWING', 'char', e[2]))
        return Fork([(None, ok(e[3])), (None, err(_derr(m.prog, 'InvalidChar', [Atom('n')])))])
    return mismatch(m, st, 'char', e)


def d_tag(m, cfg, f, args, t):
    st = cfg.st
    e = peek_item(st)
    if e is None:
        return eoi(m)
    if e[0] == 'ITEM' and e[1] == 'TAG':
        advance(st)
        return ok(Adt('minicbor::data::Tag', 0, [e[2]]))
    return mismatch(m, st, 'tag', e)


def _d_slice(kind):
    def h(m, cfg, f, args, t):
        st = cfg.st
        e = peek_item(st)
        if e is None:
            return eoi(m)
        if e[0] == 'ITEM' and e[1] == kind:
            advance(st)
            return ok(Slice(None, 'input:' + str(e[2]), e[3]))
        return mismatch(m, st, kind.lower(), e)
    return h


def skip_tree(events, i):
    """index after one complete item tree starting at i (None if malformed / exhausted)"""
    from .rules.derive_rules import parse_tree
    j, _ = parse_tree(list(events), i)
    return j


def d_skip(m, cfg, f, args, t):
    st = cfg.st
    s, i = stream(st), cur(st)
    if i >= len(s):
        return eoi(m)
    if s[i][0] == 'ITEM' and s[i][1] == 'BREAK':
        # skip() on a break byte consumes it (used by the derive code to close indefinite containers)
        advance(st)
        return ok(UNIT)
    j = skip_tree(s, i)
    if j is None:
        st.events.append(('MISMATCH', 'skip', s[i]))
        return eoi(m)
    st.events.append(('SKIPPED', tuple(s[i:j])))
    st.extra['cur'] = j
    return ok(UNIT)


def initial_bytes(it):
    """the set of initial bytes an abstract item can start with (any head width; RFC 8949 section 3)"""
    k = it[0]

    def heads(major, arg=None):
        base = major << 5
        if isinstance(arg, Int) and arg.is_const() and 0 <= arg.c <= 23:
            return ((base + arg.c, base + arg.c), (base + 24, base + 27))
        if isinstance(arg, Int) and arg.is_const():
            return ((base + 24, base + 27),)
        return ((base, base + 27),)
    if k == 'INT':
        v = it[2] if len(it) > 2 else None
        if isinstance(v, Int) and v.is_const():
            return heads(0, v) if v.c >= 0 else heads(1, Int.const(-1 - v.c))
        return ((0x00, 0x1b), (0x20, 0x3b))
    if k == 'BOOL':
        return ((0xf4, 0xf5),)
    if k == 'NULL':
        return ((0xf6, 0xf6),)
    if k == 'UNDEF':
        return ((0xf7, 0xf7),)
    if k == 'SIMPLE':
        return ((0xe0, 0xf3), (0xf8, 0xf8))
    if k in ('F16', 'F32', 'F64'):
        b = {'F16': 0xf9, 'F32': 0xfa, 'F64': 0xfb}[k]
        return ((b, b),)
    if k == 'CHAR':
        return ((0x00, 0x1b),)
    if k == 'BYTES':
        return ((0x40, 0x5b),)
    if k == 'STR':
        return ((0x60, 0x7b),)
    if k == 'ARRAY':
        return heads(4, it[1])
    if k == 'MAP':
        return heads(5, it[1])
    if k == 'TAG':
        return heads(6, it[1])
    if k == 'BEGIN':
        b = {'bytes': 0x5f, 'str': 0x7f, 'array': 0x9f, 'map': 0xbf}.get(it[1])
        return ((b, b),) if b is not None else ((0, 0xfe),)
    if k == 'BREAK':
        return ((0xff, 0xff),)
    return ((0, 0xfe),)      # an opaque leaf: any complete item, i.e. anything but a break


def d_current(m, cfg, f, args, t):
    """Deserializer::current at item level: the initial byte of the next item, as a symbol ranging over every head the item can
    have (so that code comparing it with constants is explored on both sides)"""
    st = cfg.st
    e = peek_item(st)
    if e is None:
        return eoi(m)
    rng = initial_bytes(e[1:]) if e[0] == 'ITEM' else ((0, 0xfe),)
    if len(rng) == 1 and rng[0][0] == rng[0][1]:
        return ok(Int.const(rng[0][0]))
    nm = 'ib@%d' % cur(st)
    if nm not in st.ranges:
        st.ranges[nm] = rng
        st.symty[nm] = 'u8'
    return ok(Int.sym(nm))


def d_read(m, cfg, f, args, t):
    st = cfg.st
    e = peek_item(st)
    if e is None:
        return eoi(m)
    if e[0] == 'ITEM' and e[1] == 'BREAK':
        advance(st)
        return ok(Int.const(0xff))
    raise Abort('raw read() at item level on %r' % (e,))


def dec_leaf(m, cfg, f, args, t):
    if f.get('resolved') and not m.is_leaf_callee(f):
        return NotImplemented
    st = cfg.st
    ty = f.get('self_ty') or (f.get('rargs') or ['?'])[0]
    if f.get('resolved'):
        ty = f.get('impl_self', ty)
    e = peek_item(st)
    if e is None:
        return eoi(m)
    if e[0] == 'ITEM' and e[1] == 'ENC':
        st.events.append(('DECODED', ty, e[2], e[3]))
        advance(st)
        return ok(Atom(e[3], ty_from_str(ty)))
    return mismatch(m, st, 'decode<%s>' % ty, e)


def nil_leaf(m, cfg, f, args, t):
    if f.get('resolved') and not m.is_leaf_callee(f):
        return NotImplemented
    ty = f.get('self_ty') or (f.get('rargs') or ['?'])[0]
    return Atom('nil<%s>' % ty, ty_from_str('std::option::Option<%s>' % ty))


def iter_next_override(m, cfg, f, args, t):
    """ArrayIter/MapIter::next with a symbolic element count: one representative element"""
    st = cfg.st
    r = args[0]
    if not isinstance(r, Ref):
        return NotImplemented
    it = m.read_path(st, r.key, r.path)
    if not isinstance(it, Adt):
        return NotImplemented
    ad = m.prog.adts.get(it.adt)
    if ad is None or 'len' not in ad['variants'][0]['fields']:
        return NotImplemented
    names = ad['variants'][0]['fields']
    li = names.index('len')
    ln = it.fields[li]
    e = peek_item(st)
    if isinstance(ln, Adt) and ln.variant == 1:
        n = ln.fields[0]
        if isinstance(n, Int) and not n.is_const():
            if e is not None and e[0] == 'REP_BEGIN':
                advance(st)
                fs = list(it.fields)
                fs[li] = some(Int.const(1))
                m.write_path(st, r.key, r.path, Adt(it.adt, it.variant, fs))
            else:
                st.events.append(('MISMATCH', 'element loop', e))
                return some(err(_derr(m.prog, 'EndOfInput')))
        elif isinstance(n, Int) and n.is_const() and n.c == 0:
            if e is not None and e[0] == 'REP_END':
                advance(st)
    return NotImplemented


def d_skip_byte(m, cfg, f, args, t):
    """token.rs skip_byte: position += 1; at item level valid exactly on one-byte items (checked at L1 by C11)"""
    st = cfg.st
    e = peek_item(st)
    if e is not None and e[0] == 'ITEM' and e[1] in ('BEGIN', 'NULL', 'UNDEF', 'BREAK'):
        advance(st)
        return UNIT
    st.events.append(('MISMATCH', 'skip_byte on a multi-byte item', e))
    return UNIT


def d_set_position(m, cfg, f, args, t):
    p = args[1]
    if isinstance(p, Int) and p.is_const() and 0 <= p.c <= len(stream(cfg.st)):
        cfg.st.extra['cur'] = p.c
        return UNIT
    raise Abort('set_position to a non-item position %r' % (p,))


def decoder_overrides():
    o = {}
    o['minicbor::data::token::skip_byte'] = d_skip_byte
    for k in INT_METHODS + ['int']:
        o[DEC + k] = _d_int(k)
    o[DEC + 'array'] = _d_container('ARRAY')
    o[DEC + 'map'] = _d_container('MAP')
    o[DEC + 'bool'] = _d_simple_kind('BOOL')
    o[DEC + 'null'] = _d_simple_kind('NULL')
    o[DEC + 'undefined'] = _d_simple_kind('UNDEF')
    o[DEC + 'simple'] = _d_simple_kind('SIMPLE')
    o[DEC + 'char'] = d_char
    o[DEC + 'f16'] = d_float(('F16',))
    o[DEC + 'f32'] = d_float(('F16', 'F32'))
    o[DEC + 'f64'] = d_float(('F16', 'F32', 'F64'))
    o[DEC + 'tag'] = d_tag
    o[DEC + 'bytes'] = _d_slice('BYTES')
    o[DEC + 'str'] = _d_slice('STR')
    o[DEC + 'skip'] = d_skip
    o[DEC + 'datatype'] = d_datatype
    o[DEC + 'current'] = d_current
    o[DEC + 'read'] = d_read
    # item-level position: the index of the next item (a monotone image of the byte position)
    o[DEC + 'position'] = lambda m, cfg, f, args, t: Int.const(cur(cfg.st))
    o[DEC + 'set_position'] = d_set_position
    o['<minicbor::data::Type as std::cmp::PartialEq>::eq'] = type_eq
    o['<minicbor::data::Type as std::cmp::PartialEq>::ne'] = type_eq
    o['minicbor::decode::Decode::decode'] = dec_leaf
    o['minicbor::decode::Decode::nil'] = nil_leaf
    o['minicbor::bytes::DecodeBytes::decode_bytes'] = dec_leaf
    o['minicbor::bytes::DecodeBytes::nil'] = nil_leaf
    for nm in ("ArrayIter<'_, '_, T>", "ArrayIterWithCtx<'_, '_, C, T>", "MapIter<'_, '_, K, V>", "MapIterWithCtx<'_, '_, C, K, V>"):
        o['<minicbor::decode::decoder::%s as std::iter::Iterator>::next' % nm] = iter_next_override
    return o


def run_decode(prog, path_or_inst, events, leaf_crates=(), from_state=None, **kw):
    """decode root over the abstract item stream given by `events` (ITEM / REP markers)"""
    st = State()
    if from_state is not None:
        st.ranges = dict(from_state.ranges)
        st.symty = dict(from_state.symty)
    st.extra['stream'] = tuple(e for e in events if e[0] in ('ITEM', 'REP_BEGIN', 'REP_END'))
    st.extra['cur'] = 0
    return run_root(prog, path_or_inst, decoder_overrides(), leaf_crates, st=st, **kw)
