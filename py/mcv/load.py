from . import export, mir

_cache = {}


def program(*configs):
    key = tuple(configs)
    if key not in _cache:
        res = export.ensure(list(configs))
        paths = []
        for c in configs:
            paths.extend(res[c].values())
        _cache[key] = mir.Program(paths)
    return _cache[key]
