from . import export, mir

_cache = {}


ALIAS = {}     # C20: run a rule written for one configuration against another one


def program(*configs):
    configs = tuple(ALIAS.get(c, c) for c in configs)
    key = tuple(configs)
    if key not in _cache:
        res = export.ensure(list(configs))
        paths = []
        for c in configs:
            paths.extend(res[c].values())
        _cache[key] = mir.Program(paths)
    return _cache[key]
