from . import export, mir

_cache = {}


ALIAS = {}     # C20: run a rule written for one configuration against another one


def program(*configs):
    configs = tuple(ALIAS.get(c, c) for c in configs)
    key = tuple(configs)
    if key not in _cache:
        res = export.ensure(list(configs))
        paths = []
        for c in configs:
            paths.extend(res[c].values())
        _cache[key] = mir.Program(paths)
    prog = _cache[key]
    from . import absint
    absint.PTR_BITS = 32 if any('target_pointer_width=32' in cfg for _, cfg in prog.cfg) else 64
    return prog
