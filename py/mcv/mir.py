"""Program model over the exported MIR facts: instances, CFG, dominators, loops, def-use helpers."""
import json
from collections import defaultdict


import re as _re_mod
_STD_RE = _re_mod.compile(r'(?<![A-Za-z0-9_])(?:(?:minicbor|minicbor_serde|minicbor_io)::alloc|core|alloc)::')   # `extern crate alloc` makes rustc print minicbor::alloc::..


_LT_RE = _re_mod.compile(r"'(?!static\b)[A-Za-z_][A-Za-z0-9_]*(?!')")


def canon(s):
    """one spelling for lifetime names: `<'a, 'b>`, `<'_, 'b>` and `<'x, 'y>` denote the same item (names of lifetime parameters
    are not part of an item's identity and change with every elision clean-up)"""
    return _LT_RE.sub("'_", s) if isinstance(s, str) and "'" in s else s


class Program:
    def __init__(self, paths):
        self.insts = {}      # key -> instance dict
        self.by_path = defaultdict(list)  # def path -> [instance]
        self.adts = {}
        self.ext = {}
        self.impls = []
        self.unsafe_blocks = []
        self.coroutines = {}
        self.cfg = []
        self.crates = []
        for p in paths:
            with open(p) as fh:
                text = fh.read()
            d = json.loads(text)
            ren = d.get('renames') or {}
            if ren:
                # re-exported workspace items are printed under their visible path in dependent crates:
                # rewrite them to the defining path so that anchors are the same in every export
                import re as _re
                pat = _re.compile('|'.join('(?<![A-Za-z0-9_:])%s(?![A-Za-z0-9_])' % _re.escape(k) for k in sorted(ren, key=len, reverse=True)))
                text = pat.sub(lambda mo: ren[mo.group(0)], text)
                d = json.loads(text)
            if _LT_RE.search(text):
                text = _LT_RE.sub("'_", text)
                d = json.loads(text)
            if _STD_RE.search(text):
                # one spelling for std items in every configuration (no_std crates print core:: / alloc::, and rustc mixes both in std builds)
                text = _STD_RE.sub('std::', text)
                d = json.loads(text)
            self.crates.append(d['crate'])
            self.cfg.append((d['crate'], d['cfg']))
            if d.get('truncated'):
                raise RuntimeError('export truncated: ' + p)
            for i in d['instances']:
                if i['key'] not in self.insts:
                    self.insts[i['key']] = i
                    self.by_path[i['path']].append(i)
            self.adts.update(d['adts'])
            for k, v in d['ext'].items():
                self.ext.setdefault(k, v)
            self.impls.extend(d['impls'])
            self.unsafe_blocks.extend(d['unsafe_blocks'])
            for c in d['coroutines']:
                self.coroutines[c['path']] = c

    def get(self, key):
        return self.insts.get(key) or self.insts.get(canon(key))

    def feature(self, name, crate=None):
        """is cargo feature `name` enabled in the (first / named) analysed crate"""
        for c, cfg in self.cfg:
            if crate is None or c == crate:
                return ('feature=' + name) in cfg
        return False

    def find(self, path):
        """Instances whose def path equals `path` (there may be several substitutions)."""
        return self.by_path.get(canon(path), [])

    def one(self, path):
        """The identity (depth 0/lowest depth) instance for a def path."""
        path = canon(path)
        c = self.by_path.get(path)
        if not c:
            # no_std builds print std items under core:: / alloc::
            for alt in _alt_paths(path):
                c = self.by_path.get(alt)
                if c:
                    break
        if not c:
            return None
        return sorted(c, key=lambda i: (i['depth'], len(i['key'])))[0]


def _alt_paths(path):
    import re as _re
    if 'std::' not in path:
        return []
    return [_re.sub(r'(?<![A-Za-z0-9_:])std::', 'core::', path), _re.sub(r'(?<![A-Za-z0-9_:])std::', 'alloc::', path)]


def loc(sp):
    if not sp:
        return '?'
    s = '%s:%s' % (sp.get('f', '?'), sp.get('l', '?'))
    if 'm' in sp:
        s += ' (in %s)' % sp['m']
    return s


# ---------------------------------------------------------------------------
# CFG


def term_succs(t, include_unwind=False):
    k = t['k']
    out = []
    if k == 'goto':
        out = [t['t']]
    elif k == 'switch':
        out = [x[1] for x in t['vs']] + [t['o']]
    elif k in ('drop', 'assert', 'call', 'yield'):
        if 't' in t:
            out = [t['t']]
        if k == 'yield' and 'drop' in t and include_unwind:
            out.append(t['drop'])
    if include_unwind and 'u' in t:
        out.append(t['u'])
    return out


class CFG:
    """Control-flow graph of one body, cleanup blocks excluded."""

    def __init__(self, body):
        self.body = body
        self.blocks = body['blocks']
        n = len(self.blocks)
        self.n = n
        self.succ = [[] for _ in range(n)]
        self.pred = [[] for _ in range(n)]
        for i, b in enumerate(self.blocks):
            if b.get('cleanup'):
                continue
            for s in term_succs(b['t']):
                if self.blocks[s].get('cleanup'):
                    continue
                if s not in self.succ[i]:
                    self.succ[i].append(s)
                    self.pred[s].append(i)
        self.reach = self._reach(0, self.succ)
        self._dom = None
        self._pdom = None

    def _reach(self, start, succ):
        seen = {start}
        st = [start]
        while st:
            x = st.pop()
            for y in succ[x]:
                if y not in seen:
                    seen.add(y)
                    st.append(y)
        return seen

    def exits(self):
        """Blocks (non-cleanup, reachable) that end the function: return / unreachable / diverging call / coroutine_drop."""
        out = []
        for i in self.reach:
            t = self.blocks[i]['t']
            if t['k'] in ('return', 'coroutine_drop'):
                out.append(i)
        return out

    def dominators(self):
        if self._dom is None:
            self._dom = _dominators(self.n, 0, self.succ, self.pred, self.reach)
        return self._dom

    def dominates(self, a, b):
        """Does block a dominate block b?"""
        return a in self.dominators().get(b, set())

    def reachable_from(self, a, avoid=()):
        """Blocks reachable from a (inclusive) without passing through blocks in `avoid`."""
        avoid = set(avoid)
        if a in avoid:
            return set()
        seen = {a}
        st = [a]
        while st:
            x = st.pop()
            for y in self.succ[x]:
                if y not in seen and y not in avoid:
                    seen.add(y)
                    st.append(y)
        return seen

    def sccs(self):
        """Non-trivial strongly connected components (loops)."""
        idx = {}
        low = {}
        on = set()
        st = []
        out = []
        counter = [0]
        import sys
        sys.setrecursionlimit(10000)

        def sc(v):
            idx[v] = low[v] = counter[0]
            counter[0] += 1
            st.append(v)
            on.add(v)
            for w in self.succ[v]:
                if w not in idx:
                    sc(w)
                    low[v] = min(low[v], low[w])
                elif w in on:
                    low[v] = min(low[v], idx[w])
            if low[v] == idx[v]:
                comp = []
                while True:
                    w = st.pop()
                    on.discard(w)
                    comp.append(w)
                    if w == v:
                        break
                if len(comp) > 1 or v in self.succ[v]:
                    out.append(set(comp))

        for v in sorted(self.reach):
            if v not in idx:
                sc(v)
        return out


def _dominators(n, entry, succ, pred, reach):
    dom = {v: set(reach) for v in reach}
    dom[entry] = {entry}
    changed = True
    order = sorted(reach)
    while changed:
        changed = False
        for v in order:
            if v == entry:
                continue
            ps = [p for p in pred[v] if p in reach]
            if not ps:
                new = {v}
            else:
                new = set.intersection(*(dom[p] for p in ps)) | {v}
            if new != dom[v]:
                dom[v] = new
                changed = True
    return dom


# ---------------------------------------------------------------------------
# small helpers over statements / operands


def op_place(op):
    if 'copy' in op:
        return op['copy']
    if 'move' in op:
        return op['move']
    return None


def op_const(op):
    return op.get('const')


def op_local(op):
    p = op_place(op)
    if p is not None and not p.get('p'):
        return p['l']
    return None


def callee_path(t):
    """Best-effort resolved path of a call terminator."""
    f = t.get('f')
    if not f:
        return None
    return f.get('rpath') or f.get('path')


def callee_key(t):
    f = t.get('f')
    if not f:
        return None
    return f.get('rkey')


def iter_calls(body):
    for bi, b in enumerate(body['blocks']):
        t = b['t']
        if t['k'] == 'call':
            yield bi, t


def iter_stmts(body):
    for bi, b in enumerate(body['blocks']):
        for si, s in enumerate(b['s']):
            yield bi, si, s


def fn_consts_in_body(body):
    """All fn-item constants referenced as operands (not only called): yields callee dicts."""
    def ops_of_rvalue(r):
        for k in ('a', 'b'):
            if k in r and isinstance(r[k], dict):
                yield r[k]
        for o in r.get('ops', []):
            yield o
    for b in body['blocks']:
        for s in b['s']:
            if s['k'] == 'assign':
                for o in ops_of_rvalue(s['r']):
                    c = o.get('const')
                    if c and 'fn' in c:
                        yield c['fn'], s.get('sp')
        t = b['t']
        if t['k'] == 'call':
            for o in t['args']:
                c = o.get('const')
                if c and 'fn' in c:
                    yield c['fn'], t.get('sp')


# ---------------------------------------------------------------------------
# liveness of locals (used by the coroutine rules: which locals carry state around a loop)

_SKIP_KEYS = ('sp', 'ty', 'from', 'f', 'msg_sp')


def _place_locals(p, out):
    out.add(p['l'])
    for e in p.get('p') or ():
        if isinstance(e, dict):
            for k in ('l', 'local'):
                if k in e and isinstance(e[k], int) and e.get('k') == 'index':
                    out.add(e[k])


def _uses(x, out):
    """locals read anywhere inside an rvalue / operand / terminator field"""
    if isinstance(x, dict):
        if 'copy' in x or 'move' in x:
            _place_locals(x.get('copy') or x.get('move'), out)
            return
        if 'l' in x and isinstance(x['l'], int) and ('p' not in x or isinstance(x['p'], list)) and set(x) <= {'l', 'p'}:
            _place_locals(x, out)
            return
        for k, v in x.items():
            if k in _SKIP_KEYS:
                continue
            _uses(v, out)
    elif isinstance(x, list):
        for v in x:
            _uses(v, out)


def _def_of(place):
    """local wholly (re)defined by an assignment to `place`, or None (a projection: the base is read, not killed)"""
    if place is not None and not place.get('p'):
        return place['l']
    return None


def block_use_def(blk):
    """(use, defs) of a block for backward liveness: use = read before any whole definition in the block"""
    use, defs = set(), set()

    def rd(locals_):
        for l in locals_:
            if l not in defs:
                use.add(l)
    for s in blk['s']:
        k = s['k']
        if k == 'assign':
            u = set()
            _uses(s['r'], u)
            d = _def_of(s['p'])
            if d is None:
                _place_locals(s['p'], u)
            rd(u)
            if d is not None:
                defs.add(d)
        elif k in ('live', 'dead'):
            continue
        else:
            u = set()
            _uses(dict((k_, v) for k_, v in s.items() if k_ != 'k'), u)
            rd(u)
    t = blk['t']
    u = set()
    dest = None
    for k_, v in t.items():
        if k_ in ('k', 'sp', 't', 'u', 'o', 'vs', 'dty', 'drop', 'needs_drop', 'ty', 'e'):
            continue
        if k_ == 'dest' or (k_ == 'arg' and t['k'] == 'yield'):
            dest = v
            continue
        if k_ == 'f':
            # an indirect call reads its callee operand
            if isinstance(v, dict) and ('copy' in v or 'move' in v):
                _uses(v, u)
            continue
        _uses(v, u)
    tdef = None
    if dest is not None:
        tdef = _def_of(dest)
        if tdef is None:
            _place_locals(dest, u)
    rd(u)
    return use, defs, tdef


def liveness(body):
    """bb -> set of locals that may be read after entry to bb before being wholly redefined; locals whose address is
    taken are live whenever their storage may be live (a read through the reference does not mention the local)."""
    blocks = body['blocks']
    n = len(blocks)
    ud = [block_use_def(b) for b in blocks]
    succ = [term_succs(b['t'], include_unwind=False) for b in blocks]
    live_in = [set() for _ in range(n)]
    changed = True
    while changed:
        changed = False
        for i in range(n - 1, -1, -1):
            use, defs, tdef = ud[i]
            out = set()
            for s in succ[i]:
                out |= live_in[s]
            if tdef is not None:
                out = out - {tdef}
                # the terminator's own reads come before its definition; they are already in `use`
            new = use | (out - defs)
            if new != live_in[i]:
                live_in[i] = new
                changed = True
    # address-taken locals
    borrowed = set()
    for b in blocks:
        for s in b['s']:
            if s['k'] == 'assign' and s['r'].get('rv') in ('ref', 'addr_of', 'rawptr', 'address_of'):
                p = s['r'].get('p')
                if p and not any(isinstance(e, dict) and e.get('k') == 'deref' for e in (p.get('p') or ())[:1]):
                    borrowed.add(p['l'])
    has_storage = set()
    for b in blocks:
        for s in b['s']:
            if s['k'] in ('live', 'dead'):
                has_storage.add(s['l'])
    # forward may-analysis of storage liveness
    st_in = [set() for _ in range(n)]
    pred = [[] for _ in range(n)]
    for i in range(n):
        for s in succ[i]:
            pred[s].append(i)
    always = set(l for l in borrowed if l not in has_storage)

    def transfer(i, cur):
        cur = set(cur)
        for s in blocks[i]['s']:
            if s['k'] == 'live':
                cur.add(s['l'])
            elif s['k'] == 'dead':
                cur.discard(s['l'])
        return cur
    changed = True
    st_out = [set() for _ in range(n)]
    while changed:
        changed = False
        for i in range(n):
            cur = set()
            for p in pred[i]:
                cur |= st_out[p]
            o = transfer(i, cur)
            if cur != st_in[i] or o != st_out[i]:
                st_in[i], st_out[i] = cur, o
                changed = True
    res = {}
    for i in range(n):
        res[i] = live_in[i] | (borrowed & st_in[i]) | always
    return res
