"""Program model over the exported MIR facts: instances, CFG, dominators, loops, def-use helpers."""
import json
from collections import defaultdict


import re as _re_mod
_STD_RE = _re_mod.compile(r'(?<![A-Za-z0-9_])(?:(?:minicbor|minicbor_serde|minicbor_io)::alloc|core|alloc)::')   # `extern crate alloc` makes rustc print minicbor::alloc::..


class Program:
    def __init__(self, paths):
        self.insts = {}      # key -> instance dict
        self.by_path = defaultdict(list)  # def path -> [instance]
        self.adts = {}
        self.ext = {}
        self.impls = []
        self.unsafe_blocks = []
        self.coroutines = {}
        self.cfg = []
        self.crates = []
        for p in paths:
            with open(p) as fh:
                text = fh.read()
            d = json.loads(text)
            ren = d.get('renames') or {}
            if ren:
                # re-exported workspace items are printed under their visible path in dependent crates:
                # rewrite them to the defining path so that anchors are the same in every export
                import re as _re
                pat = _re.compile('|'.join('(?<![A-Za-z0-9_:])%s(?![A-Za-z0-9_])' % _re.escape(k) for k in sorted(ren, key=len, reverse=True)))
                text = pat.sub(lambda mo: ren[mo.group(0)], text)
                d = json.loads(text)
            if _STD_RE.search(text):
                # one spelling for std items in every configuration (no_std crates print core:: / alloc::, and rustc mixes both in std builds)
                text = _STD_RE.sub('std::', text)
                d = json.loads(text)
            self.crates.append(d['crate'])
            self.cfg.append((d['crate'], d['cfg']))
            if d.get('truncated'):
                raise RuntimeError('export truncated: ' + p)
            for i in d['instances']:
                if i['key'] not in self.insts:
                    self.insts[i['key']] = i
                    self.by_path[i['path']].append(i)
            self.adts.update(d['adts'])
            for k, v in d['ext'].items():
                self.ext.setdefault(k, v)
            self.impls.extend(d['impls'])
            self.unsafe_blocks.extend(d['unsafe_blocks'])
            for c in d['coroutines']:
                self.coroutines[c['path']] = c

    def get(self, key):
        return self.insts.get(key)

    def feature(self, name, crate=None):
        """is cargo feature `name` enabled in the (first / named) analysed crate"""
        for c, cfg in self.cfg:
            if crate is None or c == crate:
                return ('feature=' + name) in cfg
        return False

    def find(self, path):
        """Instances whose def path equals `path` (there may be several substitutions)."""
        return self.by_path.get(path, [])

    def one(self, path):
        """The identity (depth 0/lowest depth) instance for a def path."""
        c = self.by_path.get(path)
        if not c:
            # no_std builds print std items under core:: / alloc::
            for alt in _alt_paths(path):
                c = self.by_path.get(alt)
                if c:
                    break
        if not c:
            return None
        return sorted(c, key=lambda i: (i['depth'], len(i['key'])))[0]


def _alt_paths(path):
    import re as _re
    if 'std::' not in path:
        return []
    return [_re.sub(r'(?<![A-Za-z0-9_:])std::', 'core::', path), _re.sub(r'(?<![A-Za-z0-9_:])std::', 'alloc::', path)]


def loc(sp):
    if not sp:
        return '?'
    s = '%s:%s' % (sp.get('f', '?'), sp.get('l', '?'))
    if 'm' in sp:
        s += ' (in %s)' % sp['m']
    return s


# ---------------------------------------------------------------------------
# CFG


def term_succs(t, include_unwind=False):
    k = t['k']
    out = []
    if k == 'goto':
        out = [t['t']]
    elif k == 'switch':
        out = [x[1] for x in t['vs']] + [t['o']]
    elif k in ('drop', 'assert', 'call', 'yield'):
        if 't' in t:
            out = [t['t']]
        if k == 'yield' and 'drop' in t and include_unwind:
            out.append(t['drop'])
    if include_unwind and 'u' in t:
        out.append(t['u'])
    return out


class CFG:
    """Control-flow graph of one body, cleanup blocks excluded."""

    def __init__(self, body):
        self.body = body
        self.blocks = body['blocks']
        n = len(self.blocks)
        self.n = n
        self.succ = [[] for _ in range(n)]
        self.pred = [[] for _ in range(n)]
        for i, b in enumerate(self.blocks):
            if b.get('cleanup'):
                continue
            for s in term_succs(b['t']):
                if self.blocks[s].get('cleanup'):
                    continue
                if s not in self.succ[i]:
                    self.succ[i].append(s)
                    self.pred[s].append(i)
        self.reach = self._reach(0, self.succ)
        self._dom = None
        self._pdom = None

    def _reach(self, start, succ):
        seen = {start}
        st = [start]
        while st:
            x = st.pop()
            for y in succ[x]:
                if y not in seen:
                    seen.add(y)
                    st.append(y)
        return seen

    def exits(self):
        """Blocks (non-cleanup, reachable) that end the function: return / unreachable / diverging call / coroutine_drop."""
        out = []
        for i in self.reach:
            t = self.blocks[i]['t']
            if t['k'] in ('return', 'coroutine_drop'):
                out.append(i)
        return out

    def dominators(self):
        if self._dom is None:
            self._dom = _dominators(self.n, 0, self.succ, self.pred, self.reach)
        return self._dom

    def dominates(self, a, b):
        """Does block a dominate block b?"""
        return a in self.dominators().get(b, set())

    def reachable_from(self, a, avoid=()):
        """Blocks reachable from a (inclusive) without passing through blocks in `avoid`."""
        avoid = set(avoid)
        if a in avoid:
            return set()
        seen = {a}
        st = [a]
        while st:
            x = st.pop()
            for y in self.succ[x]:
                if y not in seen and y not in avoid:
                    seen.add(y)
                    st.append(y)
        return seen

    def sccs(self):
        """Non-trivial strongly connected components (loops)."""
        idx = {}
        low = {}
        on = set()
        st = []
        out = []
        counter = [0]
        import sys
        sys.setrecursionlimit(10000)

        def sc(v):
            idx[v] = low[v] = counter[0]
            counter[0] += 1
            st.append(v)
            on.add(v)
            for w in self.succ[v]:
                if w not in idx:
                    sc(w)
                    low[v] = min(low[v], low[w])
                elif w in on:
                    low[v] = min(low[v], idx[w])
            if low[v] == idx[v]:
                comp = []
                while True:
                    w = st.pop()
                    on.discard(w)
                    comp.append(w)
                    if w == v:
                        break
                if len(comp) > 1 or v in self.succ[v]:
                    out.append(set(comp))

        for v in sorted(self.reach):
            if v not in idx:
                sc(v)
        return out


def _dominators(n, entry, succ, pred, reach):
    dom = {v: set(reach) for v in reach}
    dom[entry] = {entry}
    changed = True
    order = sorted(reach)
    while changed:
        changed = False
        for v in order:
            if v == entry:
                continue
            ps = [p for p in pred[v] if p in reach]
            if not ps:
                new = {v}
            else:
                new = set.intersection(*(dom[p] for p in ps)) | {v}
            if new != dom[v]:
                dom[v] = new
                changed = True
    return dom


# ---------------------------------------------------------------------------
# small helpers over statements / operands


def op_place(op):
    if 'copy' in op:
        return op['copy']
    if 'move' in op:
        return op['move']
    return None


def op_const(op):
    return op.get('const')


def op_local(op):
    p = op_place(op)
    if p is not None and not p.get('p'):
        return p['l']
    return None


def callee_path(t):
    """Best-effort resolved path of a call terminator."""
    f = t.get('f')
    if not f:
        return None
    return f.get('rpath') or f.get('path')


def callee_key(t):
    f = t.get('f')
    if not f:
        return None
    return f.get('rkey')


def iter_calls(body):
    for bi, b in enumerate(body['blocks']):
        t = b['t']
        if t['k'] == 'call':
            yield bi, t


def iter_stmts(body):
    for bi, b in enumerate(body['blocks']):
        for si, s in enumerate(b['s']):
            yield bi, si, s


def fn_consts_in_body(body):
    """All fn-item constants referenced as operands (not only called): yields callee dicts."""
    def ops_of_rvalue(r):
        for k in ('a', 'b'):
            if k in r and isinstance(r[k], dict):
                yield r[k]
        for o in r.get('ops', []):
            yield o
    for b in body['blocks']:
        for s in b['s']:
            if s['k'] == 'assign':
                for o in ops_of_rvalue(s['r']):
                    c = o.get('const')
                    if c and 'fn' in c:
                        yield c['fn'], s.get('sp')
        t = b['t']
        if t['k'] == 'call':
            for o in t['args']:
                c = o.get('const')
                if c and 'fn' in c:
                    yield c['fn'], t.get('sp')
