"""Oracles transcribed from RFC 8949 and the minicbor documentation (written once, independent of /repo)."""

REGIMES = [(0, 23, 0), (24, 0xff, 1), (0x100, 0xffff, 2), (0x10000, 0xffffffff, 4), (0x100000000, 0xffffffffffffffff, 8)]
INFO_FOR_WIDTH = {1: 24, 2: 25, 4: 26, 8: 27}


def regime(lo, hi):
    """the RFC 8949 preferred-serialisation regime containing [lo, hi], or None if it straddles a boundary"""
    for a, b, w in REGIMES:
        if a <= lo and hi <= b:
            return a, b, w
    return None


def head_len(arg_lo, arg_hi):
    r = regime(arg_lo, arg_hi)
    return None if r is None else 1 + r[2]


def rfc_headlen(ib):
    """total head length implied by the initial byte, or None if the byte is not a valid item head (RFC 8949 3, 3.2.1)"""
    major, info = ib >> 5, ib & 0x1f
    if info < 24:
        return 1
    if info == 24:
        return 2
    if info == 25:
        return 3
    if info == 26:
        return 5
    if info == 27:
        return 9
    if info == 31:
        if major in (2, 3, 4, 5):
            return 1
        if major == 7:
            return 1  # break
        return None
    return None  # 28..30 reserved


# CBOR data model type names as used by minicbor's `Type` for each initial byte (+ peek split for 0x38..0x3b)
def rfc_simple(v):
    """RFC 8949 3.3: simple values 0..23 -> one byte e0|v; 24..31 reserved (not well-formed as f8 xx); 32..255 -> f8 v"""
    if v < 24:
        return [0xe0 | v]
    if v < 32:
        return None
    return [0xf8, v]


DIAG = {
    'array_open': '[', 'array_close': ']', 'map_open': '{', 'map_close': '}',
    'indef_array_open': '[_ ', 'indef_map_open': '{_ ', 'indef_chunks_open': '(_ ', 'chunks_close': ')',
    'empty_indef_bytes': "''_", 'empty_indef_text': '""_', 'sep': ', ', 'kv': ': ',
    'bytes_open': "h'", 'bytes_close': "'", 'null': 'null', 'undefined': 'undefined',
}
