"""Primitive models of std / core functions used by the abstract interpreter.

Each model is a few lines and states the semantics it assumes (the trusted base).  A model
returns a value, a Fork (alternatives, optionally narrowing the cell), a CallThen (call a
closure / fn item argument), or NotImplemented to fall back to inlining / opaque call.
"""
from .absint import (Int, Cond, Atom, Adt, Tup, Arr, BeBytes, Ref, Slice, FnItem, Clo, Str, UNIT,
                     Fork, CallThen, NeedSplit, NeedVariant, Abort, Outcome,
                     iv_and, iv_sub, iv_min, iv_max, iv_norm, ty_range, int_info, ty_from_str, lin_add, fresh, split_args)
from . import mir

RESULT = 'std::result::Result'
OPTION = 'std::option::Option'
CFLOW = 'std::ops::ControlFlow'
CORE_RESULT = 'core::result::Result'
CORE_OPTION = 'core::option::Option'


def norm_adt(a):
    if a.startswith('core::'):
        return 'std::' + a[6:]
    if a.startswith('alloc::'):
        return 'std::' + a[7:]
    return a


def ok(v):
    return Adt(RESULT, 0, [v])


def err(e):
    return Adt(RESULT, 1, [e])


def some(v):
    return Adt(OPTION, 1, [v])


NONE = Adt(OPTION, 0, [])


def is_variant(v, adt, idx):
    return isinstance(v, Adt) and norm_adt(v.adt) == adt and v.variant == idx


def refine(m, cfg, t, i, v):
    """if argument i is an enum-typed atom stored in a place, ask the machine to split it by variant"""
    if isinstance(v, Atom) and v.ty and v.ty.get('k') == 'adt':
        ad = m.prog.adts.get(v.ty.get('adt'))
        if ad and ad['kind'] == 'enum':
            op = t['args'][i]
            pl = op.get('copy') or op.get('move')
            if pl is not None:
                fr = cfg.stack[-1]
                key, path = m.resolve(cfg, fr, pl)
                raise NeedVariant(key, path, v)
    return v


def deref(m, st, v):
    if isinstance(v, Ref):
        return m.read_path(st, v.key, v.path)
    return v


P = {}
ISIZE_MAX = (1 << 63) - 1


def prim(*names):
    def deco(fn):
        for n in names:
            P[n] = fn
            if n.startswith('std::'):
                P['core::' + n[5:]] = fn
        return fn
    return deco


# --- Try / FromResidual -------------------------------------------------------------

@prim('<std::result::Result<T, E> as std::ops::Try>::branch')
def try_branch(m, cfg, f, args, t):
    r = refine(m, cfg, t, 0, args[0])
    if is_variant(r, RESULT, 0):
        return Adt(CFLOW, 0, [r.fields[0]])
    if is_variant(r, RESULT, 1):
        return Adt(CFLOW, 1, [err(r.fields[0])])
    cfg.st.flags.add('imprecise:try_branch')
    return Fork([(None, Adt(CFLOW, 0, [Atom(fresh('okval'))])), (None, Adt(CFLOW, 1, [err(Atom(fresh('errval')))]))])


def _conv_error(m, cfg, f, e, wrap):
    a = f.get('rargs') or f.get('args') or []
    # rargs of from_residual: [T, E, F] ; F: From<E>
    if len(a) >= 3 and a[1] == a[2]:
        return wrap(e)
    if len(a) >= 3:
        key = '<%s as std::convert::From<%s>>::from' % (a[2], a[1])
        inst = m.prog.get(key)
        if inst is None:
            key2 = key.replace('std::convert::From', 'core::convert::From')
            inst = m.prog.get(key2)
        if inst is not None:
            return CallThen(FnItem({'rkey': inst['key'], 'rpath': inst['path'], 'path': inst['path'], 'rkind': 'item'}), [e], lambda mm, c, v: wrap(v))
    return wrap(Atom('from(%r)' % (e,)))


@prim('<std::result::Result<T, F> as std::ops::FromResidual<std::result::Result<std::convert::Infallible, E>>>::from_residual')
def from_residual(m, cfg, f, args, t):
    r = args[0]
    if is_variant(r, RESULT, 1):
        return _conv_error(m, cfg, f, r.fields[0], err)
    return err(Atom(fresh('residual')))


@prim('<std::option::Option<T> as std::ops::Try>::branch')
def try_branch_opt(m, cfg, f, args, t):
    r = refine(m, cfg, t, 0, args[0])
    if is_variant(r, OPTION, 1):
        return Adt(CFLOW, 0, [r.fields[0]])
    if is_variant(r, OPTION, 0):
        return Adt(CFLOW, 1, [NONE])
    return NotImplemented


@prim('<std::option::Option<T> as std::ops::FromResidual<std::option::Option<std::convert::Infallible>>>::from_residual')
def from_residual_opt(m, cfg, f, args, t):
    return NONE


# --- Result / Option combinators -------------------------------------------------------

@prim('std::result::Result::<T, E>::map')
def result_map(m, cfg, f, args, t):
    r = refine(m, cfg, t, 0, args[0])
    if is_variant(r, RESULT, 0):
        return CallThen(args[1], [r.fields[0]], lambda mm, c, v: ok(v))
    if is_variant(r, RESULT, 1):
        return r
    return NotImplemented


@prim('std::result::Result::<T, E>::and_then')
def result_and_then(m, cfg, f, args, t):
    r = refine(m, cfg, t, 0, args[0])
    if is_variant(r, RESULT, 0):
        return CallThen(args[1], [r.fields[0]])
    if is_variant(r, RESULT, 1):
        return r
    return NotImplemented


@prim('std::result::Result::<T, E>::map_err')
def result_map_err(m, cfg, f, args, t):
    r = refine(m, cfg, t, 0, args[0])
    if is_variant(r, RESULT, 1):
        return CallThen(args[1], [r.fields[0]], lambda mm, c, v: err(v))
    if is_variant(r, RESULT, 0):
        return r
    return NotImplemented


@prim('std::result::Result::<std::option::Option<T>, E>::transpose')
def result_transpose(m, cfg, f, args, t):
    r = refine(m, cfg, t, 0, args[0])
    if is_variant(r, RESULT, 1):
        return some(r)
    if is_variant(r, RESULT, 0):
        o = r.fields[0]
        if is_variant(o, OPTION, 0):
            return NONE
        if is_variant(o, OPTION, 1):
            return some(ok(o.fields[0]))
    return NotImplemented


@prim('std::result::Result::<T, E>::unwrap_or')
def result_unwrap_or(m, cfg, f, args, t):
    r = refine(m, cfg, t, 0, args[0])
    if is_variant(r, RESULT, 0):
        return r.fields[0]
    if is_variant(r, RESULT, 1):
        return args[1]
    return NotImplemented


@prim('std::result::Result::<T, E>::ok')
def result_ok(m, cfg, f, args, t):
    r = refine(m, cfg, t, 0, args[0])
    if is_variant(r, RESULT, 0):
        return some(r.fields[0])
    if is_variant(r, RESULT, 1):
        return NONE
    return NotImplemented


@prim('std::result::Result::<T, E>::err')
def result_err(m, cfg, f, args, t):
    # Result::err: Ok(_) -> None, Err(e) -> Some(e)
    r = refine(m, cfg, t, 0, args[0])
    if is_variant(r, RESULT, 1):
        return some(r.fields[0])
    if is_variant(r, RESULT, 0):
        return NONE
    return NotImplemented


# ---- further std combinators (each: the documented behaviour, nothing else) ------------------------------------------------

@prim('std::result::Result::<T, E>::or_else')
def result_or_else(m, cfg, f, args, t):
    r = refine(m, cfg, t, 0, args[0])      # Ok(v) -> Ok(v) ; Err(e) -> f(e)
    if is_variant(r, RESULT, 0):
        return r
    if is_variant(r, RESULT, 1):
        return CallThen(args[1], [r.fields[0]], lambda mm, c, v: v)
    return NotImplemented


@prim('std::result::Result::<T, E>::unwrap_or_else')
def result_unwrap_or_else(m, cfg, f, args, t):
    r = refine(m, cfg, t, 0, args[0])      # Ok(v) -> v ; Err(e) -> f(e)
    if is_variant(r, RESULT, 0):
        return r.fields[0]
    if is_variant(r, RESULT, 1):
        return CallThen(args[1], [r.fields[0]], lambda mm, c, v: v)
    return NotImplemented


@prim('std::result::Result::<T, E>::map_or')
def result_map_or(m, cfg, f, args, t):
    r = refine(m, cfg, t, 0, args[0])      # Ok(v) -> f(v) ; Err(_) -> default
    if is_variant(r, RESULT, 0):
        return CallThen(args[2], [r.fields[0]], lambda mm, c, v: v)
    if is_variant(r, RESULT, 1):
        return args[1]
    return NotImplemented


@prim('std::result::Result::<T, E>::as_ref', 'std::result::Result::<T, E>::as_mut', 'std::option::Option::<T>::as_ref', 'std::option::Option::<T>::as_mut')
def as_ref_variant(m, cfg, f, args, t):
    # Result<T,E>::as_ref / Option<T>::as_ref: the same variant holding references to the payload
    a = args[0]
    v = refine(m, cfg, t, 0, a)
    if isinstance(v, Adt) and isinstance(a, Ref) and norm_adt(v.adt) in (RESULT, OPTION):
        if not v.fields:
            return v
        return Adt(v.adt, v.variant, [Ref(a.key, tuple(a.path) + (('v', v.variant), ('f', 0, None)), a.mut)])
    return NotImplemented


@prim('std::option::Option::<T>::unwrap_or_else')
def option_unwrap_or_else(m, cfg, f, args, t):
    o = refine(m, cfg, t, 0, args[0])      # Some(v) -> v ; None -> f()
    if is_variant(o, OPTION, 1):
        return o.fields[0]
    if is_variant(o, OPTION, 0):
        return CallThen(args[1], [], lambda mm, c, v: v)
    return NotImplemented


@prim('std::option::Option::<T>::or_else')
def option_or_else(m, cfg, f, args, t):
    o = refine(m, cfg, t, 0, args[0])      # Some(v) -> Some(v) ; None -> f()
    if is_variant(o, OPTION, 1):
        return o
    if is_variant(o, OPTION, 0):
        return CallThen(args[1], [], lambda mm, c, v: v)
    return NotImplemented


@prim('std::option::Option::<T>::or')
def option_or(m, cfg, f, args, t):
    o = refine(m, cfg, t, 0, args[0])
    if is_variant(o, OPTION, 1):
        return o
    if is_variant(o, OPTION, 0):
        return args[1]
    return NotImplemented


@prim('std::option::Option::<T>::filter')
def option_filter(m, cfg, f, args, t):
    o = refine(m, cfg, t, 0, args[0])      # Some(v) if pred(&v) -> Some(v) ; otherwise None
    if is_variant(o, OPTION, 0):
        return NONE
    if is_variant(o, OPTION, 1):
        key = ('obj', fresh('filter'))
        cfg.st.mem[key] = o.fields[0]

        def post(mm, c, b):
            if isinstance(b, Int) and b.is_const():
                return o if b.c else NONE
            raise Abort('Option::filter with an undecided predicate')
        return CallThen(args[1], [Ref(key, ())], post)
    return NotImplemented


@prim('std::option::Option::<T>::map_or_else')
def option_map_or_else(m, cfg, f, args, t):
    o = refine(m, cfg, t, 0, args[0])      # Some(v) -> f(v) ; None -> default()
    if is_variant(o, OPTION, 1):
        return CallThen(args[2], [o.fields[0]], lambda mm, c, v: v)
    if is_variant(o, OPTION, 0):
        return CallThen(args[1], [], lambda mm, c, v: v)
    return NotImplemented


@prim('std::option::Option::<T>::take')
def option_take(m, cfg, f, args, t):
    a = args[0]
    if isinstance(a, Ref):
        v = m.read_path(cfg.st, a.key, a.path)
        if isinstance(v, Adt) and norm_adt(v.adt) == OPTION:
            m.write_path(cfg.st, a.key, a.path, NONE)
            return v
    return NotImplemented


@prim('std::option::Option::<std::result::Result<T, E>>::transpose')
def option_transpose(m, cfg, f, args, t):
    o = refine(m, cfg, t, 0, args[0])      # None -> Ok(None) ; Some(Ok(v)) -> Ok(Some(v)) ; Some(Err(e)) -> Err(e)
    if is_variant(o, OPTION, 0):
        return ok(NONE)
    if is_variant(o, OPTION, 1):
        r = o.fields[0]
        if is_variant(r, RESULT, 0):
            return ok(some(r.fields[0]))
        if is_variant(r, RESULT, 1):
            return r
    return NotImplemented


@prim('std::bool::<impl bool>::then_some')
def bool_then_some(m, cfg, f, args, t):
    b = args[0]
    if isinstance(b, Int) and b.is_const():
        return some(args[1]) if b.c else NONE
    return NotImplemented


@prim('std::bool::<impl bool>::then')
def bool_then(m, cfg, f, args, t):
    b = args[0]
    if isinstance(b, Int) and b.is_const():
        if not b.c:
            return NONE
        return CallThen(args[1], [], lambda mm, c, v: some(v))
    return NotImplemented


@prim('std::result::Result::<T, E>::is_ok', 'std::result::Result::<T, E>::is_err')
def result_is_ok(m, cfg, f, args, t):
    r = deref(m, cfg.st, args[0])
    want = 0 if f['rpath'].endswith('is_ok') else 1
    if isinstance(r, Adt):
        return Int.const(1 if r.variant == want else 0)
    return NotImplemented


@prim('std::option::Option::<T>::ok_or_else')
def option_ok_or_else(m, cfg, f, args, t):
    o = refine(m, cfg, t, 0, args[0])
    if is_variant(o, OPTION, 1):
        return ok(o.fields[0])
    if is_variant(o, OPTION, 0):
        return CallThen(args[1], [], lambda mm, c, v: err(v))
    return NotImplemented


@prim('std::option::Option::<T>::ok_or')
def option_ok_or(m, cfg, f, args, t):
    o = refine(m, cfg, t, 0, args[0])
    if is_variant(o, OPTION, 1):
        return ok(o.fields[0])
    if is_variant(o, OPTION, 0):
        return err(args[1])
    return NotImplemented


@prim('std::option::Option::<T>::map')
def option_map(m, cfg, f, args, t):
    o = refine(m, cfg, t, 0, args[0])
    if is_variant(o, OPTION, 1):
        return CallThen(args[1], [o.fields[0]], lambda mm, c, v: some(v))
    if is_variant(o, OPTION, 0):
        return NONE
    return NotImplemented


@prim('std::option::Option::<T>::is_some_and')
def option_is_some_and(m, cfg, f, args, t):
    o = refine(m, cfg, t, 0, args[0])
    if is_variant(o, OPTION, 1):
        return CallThen(args[1], [o.fields[0]])
    if is_variant(o, OPTION, 0):
        return Int.const(0)
    return NotImplemented


@prim('std::option::Option::<T>::is_none_or')
def option_is_none_or(m, cfg, f, args, t):
    o = refine(m, cfg, t, 0, args[0])
    if is_variant(o, OPTION, 1):
        return CallThen(args[1], [o.fields[0]])
    if is_variant(o, OPTION, 0):
        return Int.const(1)
    return NotImplemented


@prim('std::option::Option::<T>::map_or')
def option_map_or(m, cfg, f, args, t):
    o = refine(m, cfg, t, 0, args[0])
    if is_variant(o, OPTION, 1):
        return CallThen(args[2], [o.fields[0]])
    if is_variant(o, OPTION, 0):
        return args[1]
    return NotImplemented


@prim('std::option::Option::<T>::and_then')
def option_and_then(m, cfg, f, args, t):
    o = refine(m, cfg, t, 0, args[0])
    if is_variant(o, OPTION, 1):
        return CallThen(args[1], [o.fields[0]])
    if is_variant(o, OPTION, 0):
        return NONE
    return NotImplemented


@prim('std::option::Option::<T>::is_none', 'std::option::Option::<T>::is_some')
def option_is_none(m, cfg, f, args, t):
    a = args[0]
    o = deref(m, cfg.st, a)
    if isinstance(o, Atom) and isinstance(a, Ref) and o.ty and o.ty.get('k') == 'adt':
        raise NeedVariant(a.key, a.path, o)
    want = 0 if f['rpath'].endswith('is_none') else 1
    if isinstance(o, Adt) and norm_adt(o.adt) == OPTION:
        return Int.const(1 if o.variant == want else 0)
    return NotImplemented


@prim('std::option::Option::<&T>::copied', 'std::option::Option::<&T>::cloned')
def option_copied(m, cfg, f, args, t):
    o = refine(m, cfg, t, 0, args[0])
    if is_variant(o, OPTION, 1):
        return some(deref(m, cfg.st, o.fields[0]))
    if is_variant(o, OPTION, 0):
        return NONE
    return NotImplemented


@prim('std::option::Option::<T>::unwrap_or')
def option_unwrap_or(m, cfg, f, args, t):
    o = refine(m, cfg, t, 0, args[0])
    if is_variant(o, OPTION, 1):
        return o.fields[0]
    if is_variant(o, OPTION, 0):
        return args[1]
    return NotImplemented


@prim('<std::option::Option<T> as std::cmp::PartialEq>::eq')
def option_eq(m, cfg, f, args, t):
    a = deref(m, cfg.st, args[0])
    b = deref(m, cfg.st, args[1])
    for i, (x, r) in enumerate(((a, args[0]), (b, args[1]))):
        if isinstance(x, Atom) and isinstance(r, Ref) and x.ty and x.ty.get('k') == 'adt':
            raise NeedVariant(r.key, r.path, x)
    if isinstance(a, Adt) and isinstance(b, Adt):
        if a.variant != b.variant:
            return Int.const(0)
        if a.variant == 0:
            return Int.const(1)
        r = structural_eq(m, cfg.st, a.fields[0], b.fields[0])
        return r if r is not None else NotImplemented
    return NotImplemented


@prim('std::cmp::PartialEq::ne', 'std::cmp::PartialEq::eq')
def partial_eq_default(m, cfg, f, args, t):
    # default `ne` = !eq ; only modelled for Option<u64> / data::Type comparisons against constants
    a = deref(m, cfg.st, args[0])
    b = deref(m, cfg.st, args[1])
    for x, r in ((a, args[0]), (b, args[1])):
        if isinstance(x, Atom) and isinstance(r, Ref) and x.ty and x.ty.get('k') == 'adt':
            ad = m.prog.adts.get(x.ty.get('adt'))
            if ad and ad['kind'] == 'enum':
                raise NeedVariant(r.key, r.path, x)
    ne = f['path'].endswith('::ne')
    for x, y in ((a, b), (b, a)):
        if isinstance(x, Atom) and x.ty and x.ty.get('k') == 'leaftype' and isinstance(y, Adt) and not y.fields:
            # the data type of an opaque leaf item: by contract neither null nor break (see l2.d_datatype)
            ad = m.prog.adts.get(y.adt)
            if ad and ad['variants'][y.variant]['name'] in ('Null', 'Break', 'Undefined'):
                return Int.const(1 if ne else 0)
    r = structural_eq(m, cfg.st, a, b)
    if r is None:
        return NotImplemented
    if isinstance(r, Cond):
        return Cond(r.sym, iv_sub(cfg.st.ranges[r.sym], r.tset)) if ne else r
    if isinstance(r, Int) and r.is_const():
        return Int.const(1 - r.c) if ne else r
    return NotImplemented


def structural_eq(m, st, a, b):
    if isinstance(a, Int) and isinstance(b, Int):
        r = m.compare(st, 'Eq', a, b)
        if isinstance(r, Atom):
            # two unrelated symbols: a named (deterministic) truth value, so that later branches on it stay consistent
            return Atom('eq(%r,%r)' % (a, b), {'s': 'bool', 'k': 'bool'})
        return r
    if isinstance(a, (Atom, Int)) and isinstance(b, (Atom, Int)):
        return Atom('eq(%r,%r)' % (a, b), {'s': 'bool', 'k': 'bool'})
    if isinstance(a, Adt) and isinstance(b, Adt):
        if a.variant != b.variant:
            return Int.const(0)
        res = Int.const(1)
        for x, y in zip(a.fields, b.fields):
            r = structural_eq(m, st, x, y)
            if r is None:
                return None
            if isinstance(r, Int) and r.is_const():
                if r.c == 0:
                    return Int.const(0)
                continue
            if isinstance(res, Int) and res.is_const() and res.c == 1:
                res = r
            else:
                return None
        return res
    if isinstance(a, Tup) and isinstance(b, Tup) and not a.fields and not b.fields:
        return Int.const(1)
    return None


# --- integers --------------------------------------------------------------------------

from . import absint as _absint
INT_TYPES = ['u8', 'u16', 'u32', 'u64', 'u128', 'usize', 'i8', 'i16', 'i32', 'i64', 'i128', 'isize']


def _to_be(n, kind):
    def h(m, cfg, f, args, t):
        return BeBytes(args[0], n, kind)
    return h


def _from_be(n, tys):
    def h(m, cfg, f, args, t):
        a = args[0]
        if isinstance(a, BeBytes) and a.n == n:
            return a.val
        if isinstance(a, Arr) and all(isinstance(e, Int) and e.is_const() for e in a.elems):
            v = 0
            for e in a.elems:
                v = v * 256 + e.c
            return Int.const(v)
        nm = a.name if isinstance(a, Atom) else repr(a)
        s = m.new_sym(cfg.st, 'be(%s)' % nm, tys)
        return Int.sym(s)
    return h


for _t in INT_TYPES:
    _ii = int_info(_t)
    P['core::num::<impl %s>::to_be_bytes' % _t] = _to_be(_ii[0] // 8, 'be')
    P['core::num::<impl %s>::from_be_bytes' % _t] = _from_be(_ii[0] // 8, _t)
    P['core::num::<impl %s>::to_le_bytes' % _t] = _to_be(_ii[0] // 8, 'le')


def _float_to_be(n):
    def h(m, cfg, f, args, t):
        return BeBytes(args[0], n, 'be')
    return h


def _float_from_be(n, tys):
    def h(m, cfg, f, args, t):
        a = args[0]
        if isinstance(a, BeBytes) and a.n == n:
            inner = a.val
            nm = inner.name if isinstance(inner, Atom) else repr(inner)
            return Atom('%s::from_bits(%s)' % (tys, nm), ty_from_str(tys))
        return Atom('%s::from_be_bytes(%r)' % (tys, a), ty_from_str(tys))
    return h


P['core::f32::<impl f32>::to_be_bytes'] = _float_to_be(4)
P['core::f64::<impl f64>::to_be_bytes'] = _float_to_be(8)
P['core::f32::<impl f32>::from_be_bytes'] = _float_from_be(4, 'f32')
P['core::f64::<impl f64>::from_be_bytes'] = _float_from_be(8, 'f64')


def _opaque_fn(label, tys=None):
    def h(m, cfg, f, args, t):
        def nm(a):
            return a.name if isinstance(a, Atom) else repr(a)
        return Atom('%s(%s)' % (label, ', '.join(nm(a) for a in args)), ty_from_str(tys) if tys else None)
    return h


# half crate: opaque, bit-typed (IEEE correctness of the crate is trusted, see DESIGN 5.12)
P['half::f16::from_f32'] = _opaque_fn('f16::from_f32', 'half::f16')
P['half::f16::to_f32'] = _opaque_fn('f16::to_f32', 'f32')
P['half::f16::from_bits'] = _opaque_fn('f16::from_bits', 'half::f16')


@prim('half::f16::to_bits')
def f16_to_bits(m, cfg, f, args, t):
    a = args[0]
    nm = a.name if isinstance(a, Atom) else repr(a)
    return Atom('f16::to_bits(%s)' % nm, ty_from_str('u16'))


P['std::convert::num::<impl std::convert::From<f32> for f64>::from'] = _opaque_fn('f64::from', 'f64')


def narrow(m, cfg, v, tys, mk_ok, mk_err):
    """checked conversion of Int v into integer type tys: Fork on the fitting part of the cell"""
    st = cfg.st
    if not isinstance(v, Int):
        st.flags.add('imprecise:narrow')
        return Fork([(None, mk_ok(Atom(fresh('narrowed'), ty_from_str(tys)))), (None, mk_err())])
    r = ty_range(tys)
    lo, hi = m.rng(st, v)
    if iv_min(r) <= lo and hi <= iv_max(r):
        return mk_ok(v)
    if hi < iv_min(r) or lo > iv_max(r):
        return mk_err()
    sg = v.single()
    if not sg:
        st.flags.add('imprecise:narrow')
        return Fork([(None, mk_ok(v)), (None, mk_err())])
    s, k, c = sg
    rng = st.ranges[s]
    # values of s with lo_t <= k*s + c <= hi_t
    from .absint import solve_cmp
    good = []
    for a, b in rng:
        ge = solve_cmp('Ge', k, c - iv_min(r), a, b)
        for g1, g2 in ge:
            good.extend(solve_cmp('Le', k, c - iv_max(r), g1, g2))
    good = iv_norm(good)
    bad = iv_sub(rng, good)
    alts = []
    if good:
        alts.append((lambda st_, g=good: st_.ranges.__setitem__(s, g), mk_ok(v)))
    if bad:
        alts.append((lambda st_, g=bad: st_.ranges.__setitem__(s, g), mk_err()))
    return Fork(alts)


TRY_ERR = Atom('TryFromIntError')


def _target_of(f, which='rargs'):
    a = f.get(which) or []
    return a


@prim('<T as std::convert::TryInto<U>>::try_into')
def try_into(m, cfg, f, args, t):
    a = f.get('rargs') or f.get('args')
    if a and len(a) >= 2 and int_info(a[0]) and int_info(a[1]):
        return narrow(m, cfg, args[0], a[1], ok, lambda: err(TRY_ERR))
    via = f.get('via')
    if via:
        inst = m.prog.get(via['rkey'])
        if inst is not None:
            return CallThen(FnItem({'rkey': inst['key'], 'rpath': inst['path'], 'path': inst['path'], 'rkind': 'item'}), [args[0]])
    return NotImplemented


def _try_from(src, dst):
    def h(m, cfg, f, args, t):
        return narrow(m, cfg, args[0], dst, ok, lambda: err(TRY_ERR))
    return h


def _from_int(src, dst):
    def h(m, cfg, f, args, t):
        return args[0]
    return h


for _s in INT_TYPES:
    for _d in INT_TYPES:
        if _s != _d:
            P['std::convert::num::<impl std::convert::TryFrom<%s> for %s>::try_from' % (_s, _d)] = _try_from(_s, _d)
            P['core::convert::num::<impl core::convert::TryFrom<%s> for %s>::try_from' % (_s, _d)] = _try_from(_s, _d)
            P['std::convert::num::<impl std::convert::From<%s> for %s>::from' % (_s, _d)] = _from_int(_s, _d)
            P['core::convert::num::<impl core::convert::From<%s> for %s>::from' % (_s, _d)] = _from_int(_s, _d)
P['std::convert::num::<impl std::convert::From<bool> for u8>::from'] = _from_int('bool', 'u8')


@prim('<T as std::convert::Into<U>>::into')
def into(m, cfg, f, args, t):
    a = f.get('rargs') or f.get('args')
    if a and len(a) >= 2:
        if a[0] == a[1]:
            return args[0]
        if int_info(a[0]) and int_info(a[1]):
            return args[0]
        if a[0] == 'char' and a[1] == 'u32':
            return args[0]
        via = f.get('via')
        if via:
            if via['rpath'] in P:
                return P[via['rpath']](m, cfg, dict(f, rpath=via['rpath'], rkey=via['rkey']), args, t)
            inst = m.prog.get(via['rkey'])
            if inst is not None:
                return CallThen(FnItem({'rkey': inst['key'], 'rpath': inst['path'], 'path': inst['path'], 'rkind': 'item'}), [args[0]])
        # std conversions that are value-preserving wrappers
        if (a[0], a[1]) in (('std::net::Ipv4Addr', 'std::net::IpAddr'), ('std::net::Ipv6Addr', 'std::net::IpAddr'),
                            ('std::net::SocketAddrV4', 'std::net::SocketAddr'), ('std::net::SocketAddrV6', 'std::net::SocketAddr')):
            return Atom('into(%r)' % (args[0],), ty_from_str(a[1]))
        return Atom('into<%s>(%r)' % (a[1], args[0]), ty_from_str(a[1]))
    return NotImplemented


@prim('<T as std::convert::From<T>>::from')
def from_identity(m, cfg, f, args, t):
    return args[0]


@prim('std::char::convert::<impl std::convert::From<char> for u32>::from')
def char_to_u32(m, cfg, f, args, t):
    return args[0]


@prim('std::char::methods::<impl char>::from_u32')
def char_from_u32(m, cfg, f, args, t):
    return narrow_set(m, cfg, args[0], ty_range('char'), some, lambda: NONE)


def narrow_set(m, cfg, v, good_set, mk_ok, mk_err):
    st = cfg.st
    if isinstance(v, Int):
        sg = v.single()
        if v.is_const():
            return mk_ok(v) if iv_and(((v.c, v.c),), good_set) else mk_err()
        if sg:
            s, k, c = sg
            rng = st.ranges[s]
            from .absint import solve_cmp
            good = []
            for ga, gb in good_set:
                for a, b in rng:
                    for g1, g2 in solve_cmp('Ge', k, c - ga, a, b):
                        good.extend(solve_cmp('Le', k, c - gb, g1, g2))
            good = iv_norm(good)
            bad = iv_sub(rng, good)
            alts = []
            if good:
                alts.append((lambda st_, g=good: st_.ranges.__setitem__(s, g), mk_ok(v)))
            if bad:
                alts.append((lambda st_, g=bad: st_.ranges.__setitem__(s, g), mk_err()))
            return Fork(alts)
    st.flags.add('imprecise:narrow_set')
    return Fork([(None, mk_ok(v)), (None, mk_err())])


@prim('std::num::NonZero::<T>::new')
def nonzero_new(m, cfg, f, args, t):
    v = args[0]
    if isinstance(v, Int):
        a = (f.get('rargs') or ['u64'])[0]
        r = ty_range(a) or ((-(1 << 127), (1 << 127)),)
        good = iv_sub(r, ((0, 0),))
        return narrow_set(m, cfg, v, good, lambda x: some(Adt('std::num::NonZero', 0, [x])), lambda: NONE)
    return NotImplemented


@prim('std::num::NonZero::<T>::get')
def nonzero_get(m, cfg, f, args, t):
    v = args[0]
    if isinstance(v, Adt) and v.adt == 'std::num::NonZero':
        return v.fields[0]
    if isinstance(v, Atom):
        a = (f.get('rargs') or ['u64'])[0]
        r = ty_range(a)
        if r:
            key = 'nz:' + v.name
            if key not in cfg.st.ranges:
                cfg.st.ranges[key] = iv_sub(r, ((0, 0),))
                cfg.st.symty[key] = a
            return Int.sym(key)
    return NotImplemented


def _sat(op):
    def h(m, cfg, f, args, t):
        a, b = args[0], args[1]
        tys = f['rpath'].split('<impl ')[1].split('>')[0]
        r = ty_range(tys)
        if isinstance(a, Int) and isinstance(b, Int):
            if op == 'add':
                res = lin_add(a, b, 1)
            elif op == 'sub':
                res = lin_add(a, b, -1)
            else:
                if a.is_const():
                    res = Int([(s, k * a.c) for s, k in b.terms], b.c * a.c)
                elif b.is_const():
                    res = Int([(s, k * b.c) for s, k in a.terms], a.c * b.c)
                else:
                    res = None
            if res is not None:
                lo, hi = m.rng(cfg.st, res)
                if iv_min(r) <= lo and hi <= iv_max(r):
                    return res
                if lo > iv_max(r):
                    return Int.const(iv_max(r))
                if hi < iv_min(r):
                    return Int.const(iv_min(r))
                sg = res.single()
                if sg:
                    s, k, c = sg
                    cuts = []
                    for bound in (iv_min(r), iv_max(r) + 1):
                        cuts.append(-((-(bound - c)) // k) if k > 0 else (bound - c) // k + 1)
                    cuts = [x for x in cuts if iv_min(cfg.st.ranges[s]) < x <= iv_max(cfg.st.ranges[s])]
                    if cuts:
                        raise NeedSplit(s, cuts)
        cfg.st.flags.add('imprecise:saturating')
        return Atom(fresh('sat'), ty_from_str(tys))
    return h


for _t in INT_TYPES:
    P['core::num::<impl %s>::saturating_add' % _t] = _sat('add')
    P['core::num::<impl %s>::saturating_sub' % _t] = _sat('sub')
    P['core::num::<impl %s>::saturating_mul' % _t] = _sat('mul')


def _checked(op):
    def h(m, cfg, f, args, t):
        a, b = args[0], args[1]
        tys = f['rpath'].split('<impl ')[1].split('>')[0]
        if isinstance(a, Int) and isinstance(b, Int):
            res = lin_add(a, b, 1 if op == 'add' else -1)
            r = narrow(m, cfg, res, tys, some, lambda: NONE)
            if isinstance(r, Fork) and len(res.terms) > 1:
                # two symbols: both outcomes possible, record the assumption on each
                return Fork([(lambda st: st.extra.__setitem__('assume', st.extra.get('assume', ()) + (('fits', repr(res), tys),)), some(res)),
                             (lambda st: st.extra.__setitem__('assume', st.extra.get('assume', ()) + (('overflows', repr(res), tys),)), NONE)])
            return r
        return NotImplemented
    return h


for _t in INT_TYPES:
    P['core::num::<impl %s>::checked_add' % _t] = _checked('add')
    P['core::num::<impl %s>::checked_sub' % _t] = _checked('sub')


def _is_negative(m, cfg, f, args, t):
    return m.compare(cfg.st, 'Lt', args[0], Int.const(0))


for _t in ('i8', 'i16', 'i32', 'i64', 'i128', 'isize'):
    P['core::num::<impl %s>::is_negative' % _t] = _is_negative


def _sub_ref(m, cfg, f, args, t):
    # <iN as Sub<&iN>>::sub(a, &b) : plain subtraction (overflow checked inside; operands small here)
    b = deref(m, cfg.st, args[1])
    tys = f['rpath'].split('<')[1].split(' ')[0]
    if isinstance(args[0], Int) and isinstance(b, Int):
        res = lin_add(args[0], b, -1)
        if m.fit(cfg.st, res, tys):
            return res
        sg = res.single()
        if sg:
            s, k, c = sg
            r = ty_range(tys)
            cuts = []
            for bound in (iv_min(r), iv_max(r) + 1):
                cuts.append(-((-(bound - c)) // k) if k > 0 else (bound - c) // k + 1)
            cuts = [x for x in cuts if iv_min(cfg.st.ranges[s]) < x <= iv_max(cfg.st.ranges[s])]
            if cuts:
                raise NeedSplit(s, cuts)
        m.assert_sites.setdefault((cfg.stack[-1].inst['key'], cfg.stack[-1].bb), {'ok': 0, 'open': 0, 'fail': 0, 'kind': 'Overflow', 'op': 'Sub(ref)', 'sp': t.get('sp'), 'path': cfg.stack[-1].inst['path']})['open'] += 1
        return Atom(fresh('wrapped'), ty_from_str(tys))
    return NotImplemented


for _t in ('i8', 'i16', 'i32', 'i64'):
    P['<%s as std::ops::Sub<&%s>>::sub' % (_t, _t)] = _sub_ref
    P['<%s as core::ops::Sub<&%s>>::sub' % (_t, _t)] = _sub_ref


# --- slices / arrays -----------------------------------------------------------------------

@prim('core::slice::<impl [T]>::len', 'core::str::<impl str>::len')
def slice_len(m, cfg, f, args, t):
    s = args[0]
    if isinstance(s, Ref):
        s2 = deref(m, cfg.st, s)
        if isinstance(s2, Slice) or isinstance(s2, Str):
            s = s2
        elif isinstance(s2, Arr):
            return Int.const(len(s2.elems))
        elif isinstance(s2, Atom):
            s = s2
    if isinstance(s, Slice):
        return s.len
    if isinstance(s, Str):
        return Int.const(len(s.b))
    if isinstance(s, Atom):
        return m.len_sym(cfg.st, s.name)
    return NotImplemented


@prim('std::cell::RefCell::<T>::borrow')
def refcell_borrow(m, cfg, f, args, t):
    from .absint import Ref as R
    nm = m.short_name(cfg.st, args[0])
    key = ('cell', nm)
    cfg.st.mem.setdefault(key, Atom('cell(%s)' % nm))
    return R(key, ())


@prim('std::cell::RefCell::<T>::try_borrow')
def refcell_try_borrow(m, cfg, f, args, t):
    from .absint import Ref as R
    nm = m.short_name(cfg.st, args[0])
    key = ('cell', nm)
    cfg.st.mem.setdefault(key, Atom('cell(%s)' % nm))
    return Fork([(None, ok(R(key, ()))), (None, err(Atom('BorrowError')))])


@prim("<std::cell::Ref<'_, T> as std::ops::Deref>::deref")
def cellref_deref(m, cfg, f, args, t):
    a = args[0]
    if isinstance(a, Ref):
        v = m.read_path(cfg.st, a.key, a.path)
        if isinstance(v, Ref):
            return v
    return a


@prim('core::str::<impl str>::as_bytes')
def str_as_bytes(m, cfg, f, args, t):
    return args[0]


@prim('std::array::<impl std::ops::Index<I> for [T; N]>::index', 'std::array::<impl std::ops::IndexMut<I> for [T; N]>::index_mut',
      'core::slice::index::<impl std::ops::Index<I> for [T]>::index', 'core::slice::index::<impl std::ops::IndexMut<I> for [T]>::index_mut')
def index_range(m, cfg, f, args, t):
    st = cfg.st
    base = args[0]
    idx = args[1]
    ra = f.get('rargs') or []
    ity = ra[1] if len(ra) > 1 else ''
    if isinstance(base, Slice):
        ln = base.len
        bref = base.base
        data = base.data
    elif isinstance(base, Ref):
        tgt = deref(m, st, base)
        if isinstance(tgt, Slice):
            ln, bref, data = tgt.len, tgt.base, tgt.data
        else:
            n = None
            if isinstance(tgt, Arr):
                n = len(tgt.elems)
            elif isinstance(tgt, BeBytes):
                n = tgt.n
            elif len(ra) > 2 and ra[2].isdigit():
                n = int(ra[2])
            if n is None and len(ra) > 2 and ra[2].isidentifier():
                nm = 'const:%s' % ra[2]
                if nm not in st.ranges:
                    st.ranges[nm] = ((0, _absint.len_cap()),)
                    st.symty[nm] = 'usize'
                ln, bref, data = Int.sym(nm), base, None
            elif n is None:
                return NotImplemented
            else:
                ln, bref, data = Int.const(n), base, None
    else:
        return NotImplemented
    if 'RangeFull' in ity:
        return Slice(bref, data, ln)
    if isinstance(idx, Adt) and 'RangeFrom' in idx.adt:
        start = idx.fields[0]
        ok_ = m.compare(st, 'Le', start, ln)
        check_prim(m, cfg, t, ok_, 'slice index start <= len')
        new_len = lin_add(ln, start, -1) if isinstance(ln, Int) and isinstance(start, Int) else Atom(fresh('len'))
        if isinstance(start, Int) and start.is_const() and start.c == 0:
            return Slice(bref, data, ln)
        return Slice(None, 'sub(%s,%r..)' % (bref if bref is not None else data, start), new_len)
    if isinstance(idx, Adt) and idx.adt.endswith('RangeTo'):
        end = idx.fields[0]
        ok_ = m.compare(st, 'Le', end, ln)
        check_prim(m, cfg, t, ok_, 'slice index end <= len')
        return Slice(bref, ('prefix', data, repr(end)), end)
    return NotImplemented


def check_prim(m, cfg, t, cond, label):
    """record a potential panic inside a primitive (like an Assert terminator)"""
    fr = cfg.stack[-1]
    site = (fr.inst['key'], fr.bb)
    rec = m.assert_sites.setdefault(site, {'ok': 0, 'open': 0, 'fail': 0, 'kind': 'prim:' + label, 'op': None, 'sp': t.get('sp'), 'path': fr.inst['path']})
    st = cfg.st
    if isinstance(cond, Int) and cond.is_const():
        if cond.c == 1:
            rec['ok'] += 1
        else:
            rec['fail'] += 1
        return
    if isinstance(cond, Cond):
        rng = st.ranges[cond.sym]
        if not iv_sub(rng, cond.tset):
            rec['ok'] += 1
            return
    rec['open'] += 1
    st.asserts.append((site, 'open'))


@prim('core::slice::<impl [T]>::copy_from_slice')
def copy_from_slice(m, cfg, f, args, t):
    st = cfg.st
    dst, src = args[0], args[1]
    dl = dst.len if isinstance(dst, Slice) else None
    sl = src.len if isinstance(src, Slice) else (Int.const(len(src.b)) if isinstance(src, Str) else None)
    if dl is not None and sl is not None:
        check_prim(m, cfg, t, m.compare(st, 'Eq', dl, sl), 'copy_from_slice lengths equal')
    else:
        check_prim(m, cfg, t, Atom('?'), 'copy_from_slice lengths equal')
    st.extra['copies'] = st.extra.get('copies', ()) + ((repr(dst.data if isinstance(dst, Slice) and dst.base is None else dst), repr(dl),
                                                         repr(src.data if isinstance(src, Slice) and src.base is None else src), repr(sl)),)
    if isinstance(dst, Slice) and dst.base is not None:
        if isinstance(src, Slice) and src.base is not None:
            val = m.read_path(st, src.base.key, src.base.path)
        elif isinstance(src, Slice):
            n = sl.c if isinstance(sl, Int) and sl.is_const() else None
            val = BeBytes(Atom('bytes(%s)' % (src.data,)), n, 'raw') if n else Atom('bytes(%s)' % (src.data,))
        else:
            val = Atom('bytes(%r)' % (src,))
        if isinstance(dst.data, tuple) and dst.data and dst.data[0] == 'prefix':
            cur = m.read_path(st, dst.base.key, dst.base.path)
            val = Atom('patched(%r, prefix=%r)' % (cur, val))
        m.write_path(st, dst.base.key, dst.base.path, val)
    return UNIT


@prim('core::slice::<impl [T]>::split_at_mut', 'core::slice::<impl [T]>::split_at')
def split_at(m, cfg, f, args, t):
    st = cfg.st
    s, mid = args[0], args[1]
    if not isinstance(s, Slice):
        return NotImplemented
    check_prim(m, cfg, t, m.compare(st, 'Le', mid, s.len), 'split_at mid <= len')
    rest = lin_add(s.len, mid, -1) if isinstance(s.len, Int) and isinstance(mid, Int) else Atom(fresh('len'))
    nm = s.data if s.base is None else repr(s.base)
    return Tup([Slice(None, 'head(%s)' % nm, mid), Slice(None, 'tail(%s)' % nm, rest)])


@prim('core::slice::<impl [T]>::split_at_mut_checked', 'core::slice::<impl [T]>::split_at_checked')
def split_at_checked(m, cfg, f, args, t):
    """slice::split_at_checked(mid): None when mid > len, otherwise Some((head of mid elements, rest))"""
    st = cfg.st
    s, mid = args[0], args[1]
    if not isinstance(s, Slice):
        return NotImplemented
    c = m.compare(st, 'Le', mid, s.len)
    rest = lin_add(s.len, mid, -1) if isinstance(s.len, Int) and isinstance(mid, Int) else Atom(fresh('len'))
    nm = s.data if s.base is None else repr(s.base)
    pair = Tup([Slice(None, 'head(%s)' % nm, mid), Slice(None, 'tail(%s)' % nm, rest)])
    if isinstance(c, Int) and c.is_const():
        return some(pair) if c.c else NONE
    if isinstance(c, Cond):
        return narrow_set(m, cfg, Int.sym(c.sym), c.tset, lambda _: some(pair), lambda: NONE)
    if isinstance(c, Atom):
        def known(v):
            return lambda st_: st_.extra.__setitem__('known', dict(st_.extra.get('known') or {}, **{c.name: v}))
        return Fork([(known(1), some(pair)), (known(0), NONE)])
    return NotImplemented


@prim('std::mem::take')
def mem_take(m, cfg, f, args, t):
    r = args[0]
    if isinstance(r, Ref):
        v = m.read_path(cfg.st, r.key, r.path)
        if isinstance(v, Slice):
            m.write_path(cfg.st, r.key, r.path, Slice(None, 'empty', Int.const(0)))
            return v
    return NotImplemented


@prim('std::mem::forget')
def mem_forget(m, cfg, f, args, t):
    cfg.st.events.append(('FORGET', repr(args[0])[:60]))
    return UNIT


@prim('core::slice::<impl [T]>::get', 'core::slice::<impl [T]>::get_mut')
def slice_get(m, cfg, f, args, t):
    st = cfg.st
    s, idx = args[0], args[1]
    if isinstance(s, Ref):
        s2 = deref(m, st, s)
        if isinstance(s2, Slice):
            s = s2
        elif isinstance(s2, Arr):
            s = Slice(s, None, Int.const(len(s2.elems)))
        elif isinstance(s2, Atom) and s2.ty and s2.ty.get('k') == 'array' and isinstance(s2.ty.get('len'), int):
            s = Slice(s, None, Int.const(s2.ty['len']))
    if not isinstance(s, Slice):
        return NotImplemented
    nm = s.data if s.base is None else repr(s.base)

    def assume(tag, *x):
        return lambda st_: st_.extra.__setitem__('assume', st_.extra.get('assume', ()) + ((tag,) + x,))
    if isinstance(idx, Int):
        inb = m.compare(st, 'Lt', idx, s.len)
        elem = Ref(('elem', nm, repr(idx)), ())
        if isinstance(inb, Int) and inb.is_const():
            if inb.c:
                st.mem.setdefault(elem.key, Atom('%s[%r]' % (nm, idx), {'s': 'u8', 'k': 'int:u8'}))
                return some(elem)
            return NONE

        def mk(st_):
            st_.mem.setdefault(elem.key, Atom('%s[%r]' % (nm, idx), {'s': 'u8', 'k': 'int:u8'}))
            assume('in_bounds', repr(idx), repr(s.len))(st_)
            # a slice has at most isize::MAX bytes: an in-bounds index is below that
            m.add_ub(st_, idx, ISIZE_MAX - 1)
        return Fork([(mk, some(elem)), (assume('out_of_bounds', repr(idx), repr(s.len)), NONE)])
    if isinstance(idx, Adt) and idx.adt.endswith('::Range'):
        a, b = idx.fields
        new_len = lin_add(b, a, -1) if isinstance(a, Int) and isinstance(b, Int) else Atom(fresh('len'))
        sub = Slice(None, '%s[%r..%r]' % (nm, a, b), new_len)

        def mk2(st_):
            assume('range_in_bounds', repr(a), repr(b), repr(s.len))(st_)
            m.add_ub(st_, b, ISIZE_MAX)   # end <= len <= isize::MAX
        return Fork([(mk2, some(sub)),
                     (assume('range_out_of_bounds', repr(a), repr(b), repr(s.len)), NONE)])
    return NotImplemented


@prim('core::slice::<impl [T]>::first')
def slice_first(m, cfg, f, args, t):
    s = args[0]
    if isinstance(s, Slice):
        nm = s.data if s.base is None else repr(s.base)
        e = m.compare(cfg.st, 'Eq', s.len, Int.const(0))
        elem = Ref(('elem', nm, '0'), ())

        def mk(st_):
            st_.mem.setdefault(elem.key, Atom('%s[0]' % nm, {'s': 'u8', 'k': 'int:u8'}))
            st_.extra['assume'] = st_.extra.get('assume', ()) + (('nonempty', nm),)
        if isinstance(e, Int) and e.is_const():
            if e.c:
                return NONE
            mk(cfg.st)
            return some(elem)
        return Fork([(mk, some(elem)), (lambda st_: st_.extra.__setitem__('assume', st_.extra.get('assume', ()) + (('empty', nm),)), NONE)])
    return NotImplemented


@prim('std::array::<impl std::convert::TryFrom<&[T]> for [T; N]>::try_from')
def array_try_from(m, cfg, f, args, t):
    s = args[0]
    ra = f.get('rargs') or []
    n = int(ra[-1]) if ra and ra[-1].isdigit() else None
    if isinstance(s, Slice):
        nm = s.data if s.base is None else repr(s.base)
        if n is None and ra and ra[-1].isidentifier() and s.len == Int.sym('const:' + ra[-1]):
            return ok(Atom('array(%s)' % nm))   # slice of exactly N bytes into [u8; N]
        arrv = BeBytes(Atom('bytes(%s)' % nm), n, 'raw') if n is not None else Atom('array(%s)' % nm)
        if n is not None and isinstance(s.len, Int):
            return narrow_set(m, cfg, s.len, ((n, n),), lambda _: ok(arrv), lambda: err(Atom('TryFromSliceError')))
        return Fork([(None, ok(arrv)), (None, err(Atom('TryFromSliceError')))])
    return NotImplemented


@prim('std::str::from_utf8', 'core::str::converts::from_utf8')
def from_utf8(m, cfg, f, args, t):
    s = args[0]
    nm = s.data if isinstance(s, Slice) else repr(s)
    cfg.st.events.append(('UTF8CHECK', nm))
    ln = s.len if isinstance(s, Slice) else Atom('len')
    return Fork([(None, ok(Slice(None, 'utf8(%s)' % (nm,), ln))), (None, err(Atom('Utf8Error')))])


@prim('std::hint::must_use')
def must_use(m, cfg, f, args, t):
    return args[0]


@prim('std::clone::impls::<impl std::clone::Clone for &T>::clone', 'std::clone::impls::<impl std::clone::Clone for usize>::clone')
def clone_copy(m, cfg, f, args, t):
    return deref(m, cfg.st, args[0])


@prim('std::boxed::Box::<T>::new')
def box_new(m, cfg, f, args, t):
    return Atom('Box(%r)' % (args[0],))


def _pure(label):
    def h(m, cfg, f, args, t):
        return Atom('%s(%s)' % (label, ', '.join(repr(a)[:(400 if '::new' in label or label in ('to_vec', 'String::from') else 40)] for a in args)))
    return h


for _n, _l in (('<std::string::String as std::default::Default>::default', 'String::default'),
               ('<T as std::string::ToString>::to_string', 'to_string'),
               ('std::string::ToString::to_string', 'to_string'),
               ('std::fmt::format', 'format'),
               ('alloc::fmt::format', 'format'),
               ('std::fmt::Arguments::<\'_>::new', 'fmt::Arguments'),
               ('std::fmt::Arguments::<\'_>::from_str', 'fmt::Arguments'),
               ('core::fmt::rt::Argument::<\'_>::new_display', 'fmt::arg'),
               ('core::fmt::rt::Argument::<\'_>::new_debug', 'fmt::arg'),
               ('core::fmt::rt::Argument::<\'_>::new_lower_hex', 'fmt::arg'),
               ('core::fmt::rt::Argument::<\'_>::new_lower_exp', 'fmt::arg'),
               ('<&str as std::default::Default>::default', 'str::default'),
               ('std::net::SocketAddrV4::new', 'SocketAddrV4::new'),
               ('std::net::SocketAddrV6::new', 'SocketAddrV6::new'),
               ('std::time::Duration::new', 'Duration::new'),
               ('std::ops::RangeInclusive::<Idx>::new', 'RangeInclusive::new'),
               ('std::path::Path::new', 'Path::new'),
               ('std::slice::<impl [T]>::to_vec', 'to_vec'),
               ('<std::string::String as std::convert::From<&str>>::from', 'String::from'),
               ):
    P[_n] = _pure(_l)
    if _n.startswith('std::'):
        P['core::' + _n[5:]] = _pure(_l)
        P['alloc::' + _n[5:]] = _pure(_l)


@prim('<I as std::iter::IntoIterator>::into_iter')
def into_iter_identity(m, cfg, f, args, t):
    # blanket impl `impl<I: Iterator> IntoIterator for I`: the identity
    return args[0]


# pattern primitives (consulted when no exact name matches)
import re as _re


def _try_from_pat(m, cfg, f, args, t):
    mo = _re.search(r'TryFrom<(\w+)> for (\w+)>::try_from$', f.get('rpath') or f.get('path') or '')
    if mo and int_info(mo.group(1)) and int_info(mo.group(2)):
        return narrow(m, cfg, args[0], mo.group(2), ok, lambda: err(TRY_ERR))
    return NotImplemented


def _from_pat(m, cfg, f, args, t):
    mo = _re.search(r'convert::From<(\w+)> for (\w+)>::from$', f.get('rpath') or f.get('path') or '')
    if mo and int_info(mo.group(1)) and int_info(mo.group(2)):
        return args[0]
    return NotImplemented


PATTERN_PRIMS = [(_re.compile(r'.*TryFrom<\w+> for \w+>::try_from$'), _try_from_pat),
                 (_re.compile(r'.*convert::From<\w+> for \w+>::from$'), _from_pat)]


# one spelling for std items (see mir.Program): every primitive is reachable under its std:: name
from .absint import std_name as _std_name
for _k in list(P):
    P.setdefault(_std_name(_k), P[_k])


def _range_contains(inclusive):
    def h(m, cfg, f, args, t):
        """`(lo..=hi).contains(&x)` / `(lo..hi).contains(&x)` with constant bounds on a single-symbol value: a membership test"""
        st = cfg.st
        r, x = deref(m, st, args[0]), deref(m, st, args[1])
        if not (isinstance(r, Adt) and len(r.fields) >= 2 and isinstance(x, Int)):
            return NotImplemented
        lo, hi = r.fields[0], r.fields[1]
        if not (isinstance(lo, Int) and lo.is_const() and isinstance(hi, Int) and hi.is_const()):
            return NotImplemented
        top = hi.c if inclusive else hi.c - 1
        if x.is_const():
            return Int.const(1 if lo.c <= x.c <= top else 0)
        sg = x.single()
        if not (sg and sg[1] == 1):
            return NotImplemented
        s_, _k, c_ = sg
        from .absint import Cond, iv_and
        rng = st.ranges[s_]
        tset = iv_and(rng, ((lo.c - c_, top - c_),)) if lo.c <= top else ()
        if not tset:
            return Int.const(0)
        if tset == rng:
            return Int.const(1)
        return Cond(s_, tset)
    return h


P['std::ops::RangeInclusive::<Idx>::contains'] = _range_contains(True)
P['std::ops::Range::<Idx>::contains'] = _range_contains(False)


def _range_inclusive_new(m, cfg, f, args, t):
    return Adt('std::ops::RangeInclusive', 0, [args[0], args[1], Int.const(0)])


# not a general primitive (the reconstruction axioms of rules/valeq.py know the call form): used for constant ranges in promoted bodies only
CONST_FNS = {'std::ops::RangeInclusive::<Idx>::new': _range_inclusive_new}
