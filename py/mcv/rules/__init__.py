import importlib


def run(ctx):
    mod = importlib.import_module('mcv.rules.' + ctx.pid.lower())
    return mod.run(ctx)
