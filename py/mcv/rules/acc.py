"""Shared rule: typed accessor tables vs the RFC 8949 data model (C04, C11, C12, C17)."""
from ..absint import Int, Adt, Atom, Slice, Tup, iv_and, iv_sub, iv_norm, iv_min, iv_max, iv_str, lin_add
from .. import tables, mir, l1, oracle
from .intdec import split_by_class
from ..prims import OPTION, RESULT, norm_adt


def decomp(r):
    """per initial-byte class of a decoder row: dict(part, base, major, w, arg, argset, nread, truncated)"""
    cons = r.consumed()
    heads = [e for e in r.events if e[0] in ('READ1', 'CUR')]
    if not heads:
        return
    b0 = heads[0][1]
    if cons and cons[0][0] == 'READ1' and cons[0][1] == b0:
        head_consumed = True
    elif not cons:
        head_consumed = False
        cons = [('UNREAD', b0)]
    else:
        return
    for part, base, major, w in split_by_class(r.st.ranges[b0]):
        d = dict(part=part, base=base, major=major, w=w, b0=b0, cons=cons, arg=None, argset=None, truncated=False, badwidth=None, head_consumed=head_consumed)
        if w in ('bad', 'indef'):
            d['rest'] = cons[1:]
            yield d
            continue
        if w == 0:
            d['arg'] = lin_add(Int.sym(b0), Int.const(base), -1)
            d['argset'] = tuple((a - base, b - base) for a, b in part)
            d['rest'] = cons[1:]
        else:
            if len(cons) < 2:
                d['truncated'] = True
                d['rest'] = []
            else:
                ev = cons[1]
                if ev[0] == 'READ1':
                    asym, aw = ev[1], 1
                elif ev[0] == 'READN':
                    asym, aw = ev[2], ev[1]
                else:
                    asym, aw = None, -1
                if aw != w:
                    d['badwidth'] = (aw, ev)
                else:
                    d['arg'] = Int.sym(asym)
                    d['argset'] = r.st.ranges[asym]
                d['rest'] = cons[2:]
        yield d


def check_accessor(ctx, rule, label, prog, path, ref, floor_rows=1):
    """ref(major, w, d, row) -> ('ok', valchk, payload) | ('err',) | ('any',)
    valchk(raw Ok value, d, row) -> None or reason string; payload: None | 'slice' (READSLICE(arg) must follow)"""
    res = tables.dec_rows(prog, path)
    if res is None:
        ctx.fail_closed(rule, 'anchor %s not found in the export' % path)
        return 0
    inst, rows, m = res
    where = mir.loc(inst['sp'])
    n = 0
    for r in rows:
        if r.kind != 'return':
            ctx.violation(rule + '.total', label, 'a path does not return: %s' % r.why, where)
            continue
        if not r.consumed() and not any(e[0] == 'CUR' for e in r.events):
            if r.result == 'Err' and r.value == 'EndOfInput':
                ctx.ok(rule + '.eoi', label + '|empty', nontrivial=False)
            else:
                ctx.violation(rule + '.eoi', label + '|empty', 'exhausted input yields %s(%s), expected the end-of-input error' % (r.result, r.value), where)
            continue
        bad_flags = sorted(f for f in r.flags if f.startswith(('imprecise', 'trunc')))
        for d in decomp(r):
            n += 1
            part, major, w = d['part'], d['major'], d['w']
            key = '%s|ib=%s' % (label, iv_str(part))
            exp = ref(major, w, d, r)
            if exp[0] == 'any':
                ctx.ok(rule + '.dontcare', key, nontrivial=False)
                continue
            if exp[0] == 'err':
                if r.result == 'Ok':
                    ctx.violation(rule + '.accept', '%s|accepts|major%d' % (label, major), 'initial byte %s does not have the shape this accessor decodes but it returns Ok(%r)' % (iv_str(part), r.value), where)
                else:
                    ctx.ok(rule + '.reject', key, nontrivial=False)
                continue
            # expected success (for well-formed continuation)
            _, valchk, payload = exp
            if d['badwidth']:
                ctx.violation(rule + '.consume', '%s|width' % label, 'head %s announces a %s-byte argument but %r is read' % (iv_str(part), w, d['badwidth'][1]), where)
                continue
            if d['truncated'] or r.eoi():
                if r.result == 'Err' and r.value == 'EndOfInput':
                    ctx.ok(rule + '.eoi', key + '|truncated', nontrivial=False)
                else:
                    ctx.violation(rule + '.eoi', '%s|truncated' % label, 'head %s followed by too few bytes yields %s(%s), expected end-of-input' % (iv_str(part), r.result, r.value), where)
                continue
            rest = d['rest']
            if not d['head_consumed']:
                ctx.violation(rule + '.consume', '%s|head' % label, 'head %s is accepted without being consumed' % iv_str(part), where)
                continue
            if payload == 'slice':
                if len(rest) != 1 or rest[0][0] != 'READSLICE' or rest[0][1] != d['arg']:
                    # a failed length conversion (usize overflow) is an error path without payload read
                    if r.result == 'Err' and not rest:
                        ctx.ok(rule + '.lenconv', key, nontrivial=False)
                        continue
                    ctx.violation(rule + '.consume', '%s|payload' % label, 'head %s: payload reads %r, expected exactly the announced %r bytes' % (iv_str(part), rest, d['arg']), where)
                    continue
            elif rest:
                ctx.violation(rule + '.consume', '%s|extra' % label, 'head %s: extra reads %r beyond the head' % (iv_str(part), rest), where)
                continue
            if r.result != 'Ok':
                why = valchk(None, d, r) if valchk else 'error'
                if why == 'ERR-OK':
                    ctx.ok(rule + '.reject', key + '|' + str(r.value))
                    continue
                from .. import absint as _a
                if str(r.value) == 'Overflow' and _a.PTR_BITS < 64 and d['argset'] and iv_min(d['argset']) > (1 << _a.PTR_BITS) - 1 and major in (2, 3):
                    # a string longer than the address space of a 32-bit target: the length does not fit usize
                    ctx.ok(rule + '.lenconv', key + '|usize', nontrivial=False)
                    continue
                ctx.violation(rule + '.reject', '%s|rejects|major%d' % (label, major), 'well-formed head %s (argument %s) yields Err(%s)' % (iv_str(part), iv_str(d['argset']) if d['argset'] else '-', r.value), where)
                continue
            if bad_flags:
                ctx.violation(rule + '.precision', label, 'value is touched by something other than comparisons/affine copies (%s)' % ','.join(bad_flags), where)
                continue
            why = valchk(r.raw.fields[0], d, r) if valchk else None
            if why and why != 'ERR-OK':
                ctx.violation(rule + '.value', '%s|value' % label, 'head %s: %s' % (iv_str(part), why), where)
            else:
                ctx.ok(rule + '.value', key + '|' + (iv_str(d['argset']) if d['argset'] else ''))
    ctx.count(rule + '.cells', n)
    if n < floor_rows:
        ctx.fail_closed(rule, '%s: only %d table cells (floor %d)' % (label, n, floor_rows))
    return n


# value checkers ---------------------------------------------------------------

def is_int(expected_fn):
    def chk(v, d, r):
        if v is None:
            return 'error'
        e = expected_fn(d)
        if not isinstance(v, Int) or v != e:
            return 'returns %r, the data-model value is %r' % (v, e)
    return chk


def is_some_arg(v, d, r):
    if v is None:
        return 'error'
    if isinstance(v, Adt) and norm_adt(v.adt) == OPTION and v.variant == 1 and v.fields[0] == d['arg']:
        return None
    return 'returns %r, expected Some(%r)' % (v, d['arg'])


def is_none(v, d, r):
    if v is None:
        return 'error'
    if isinstance(v, Adt) and norm_adt(v.adt) == OPTION and v.variant == 0:
        return None
    return 'returns %r, expected None (indefinite length)' % (v,)


def is_unit(v, d, r):
    if v is None:
        return 'error'
    if isinstance(v, Tup) and not v.fields:
        return None
    return 'returns %r, expected ()' % (v,)
