"""C01 - value round-trip of built-in codec types: pairing + shape mirror (DESIGN 5.1)."""
import json, os
from ..absint import Adt, Atom, Int, Abort
from .. import load, l1, l2, mir
from . import summaries, valeq
from .derive_rules import fmt_items

VERIF = os.path.abspath(os.path.join(os.path.dirname(__file__), '..', '..', '..'))

ALLOWED = ('opaque:std::vec::Vec::<T, A>::push', 'opaque:std::collections::VecDeque::<T, A>::push_back', 'opaque:std::collections::LinkedList::<T, A>::push_back',
           'opaque:std::collections::BinaryHeap::<T, A>::push', 'opaque:std::collections::HashSet::<T, S, A>::insert', 'opaque:std::collections::BTreeSet::<T, A>::insert',
           'opaque:std::collections::HashMap::<K, V, S, A>::insert', 'opaque:std::collections::BTreeMap::<K, V, A>::insert')


def run(ctx):
    prog = load.program('core-full')
    table = json.load(open(os.path.join(VERIF, 'tables', 'one_sided_impls.json')))
    enc = dict((i['self_ty'], i) for i in prog.impls if i['trait'] == 'minicbor::encode::Encode' and i['krate'] == 'minicbor')
    dec = dict((i['self_ty'], i) for i in prog.impls if i['trait'] == 'minicbor::decode::Decode' and i['krate'] == 'minicbor')
    ctx.rules_run.append('PAIR: the set of types with both Encode and Decode, and the deliberate one-sided impls, match the justified table')
    pairs = sorted(set(enc) & set(dec))
    for t in sorted(set(enc) ^ set(dec)):
        side = 'Encode' if t in enc else 'Decode'
        row = table['one_sided'].get(t)
        if row and row['side'] == side:
            ctx.ok('PAIR', t, nontrivial=False)
        else:
            ctx.violation('PAIR', t, 'only %s is implemented and the type is not in tables/one_sided_impls.json (a codec type lost its partner impl?)' % side, mir.loc((enc.get(t) or dec.get(t))['sp']))
    ctx.floor('PAIR', 'two-sided types', len(pairs), 70)
    ctx.rules_run.append('MIRROR: Decode interpreted over the abstract item stream of Encode: succeeds on every path, consumes exactly the stream, leaves are decoded as the type they were encoded as')
    ctx.rules_run.append('MIRROR.value: the term the decoder returns, normalised by the reconstruction axioms of rules/valeq.py (constructor applied to the projections of x = x, field-for-field structs), is literally the encoded value')
    n = 0
    nval = 0
    for t in pairs:
        ep = enc[t]['trait_ref'] + '::encode'
        dp = dec[t]['trait_ref'] + '::decode'
        e = summaries.summary(prog, ep, 'enc')
        where = mir.loc(dec[t]['sp'])
        if e is None or e[0] == 'abort':
            ctx.fail_closed('MIRROR', '%s: encode not summarised (%s)' % (t, e[1] if e else 'missing'))
            continue
        einst, eouts, em = e
        excl = table['excluded'].get(t)
        for eo in eouts:
            if eo.kind != 'return' or l1.result_kind(eo.value) != 'Ok':
                continue
            key = '%s|%s' % (t, ','.join('%s=%s' % kv for kv in sorted(summaries.choices(eo.st).items())) or 'all')
            try:
                r = l2.run_decode(prog, dp, eo.st.events, from_state=eo.st)
            except Abort as ex:
                ctx.fail_closed('MIRROR', '%s: decode cannot be summarised: %s' % (t, ex))
                continue
            if r is None:
                ctx.fail_closed('MIRROR', '%s: %s not found' % (t, dp))
                continue
            inst, outs, m = r
            n += 1
            good = True
            nok = 0
            for o in outs:
                if o.kind != 'return':
                    ctx.violation('MIRROR.total', key, 'decode path does not return: %s' % o.why, where)
                    good = False
                    continue
                if l1.result_kind(o.value) != 'Ok':
                    cls = l1.error_class(prog, o.value.fields[0]) if isinstance(o.value, Adt) and o.value.fields else '?'
                    mm = [x for x in o.st.events if x[0] in ('MISMATCH', 'NARROWING')]
                    if excl and cls in excl.get('errors', []):
                        continue
                    ctx.violation('MIRROR', key + '|error:' + cls, 'decoding the type\'s own encoding %s can fail with %s%s' % (fmt_items(eo.st.events)[:120], cls, (' (%s)' % repr(mm[0][1:3])[:100]) if mm else ''), where)
                    good = False
                    continue
                nok += 1
                if l2.cur(o.st) != len(l2.stream(o.st)):
                    rest = l2.stream(o.st)[l2.cur(o.st):]
                    ctx.violation('MIRROR', key + '|consumption', 'decoding leaves %d item(s) of the encoding unread: %s' % (len(rest), fmt_items(rest)[:120]), where)
                    good = False
                # MIRROR.value: the decoded term, normalised by the reconstruction axioms of valeq.py, is the encoded value
                dv = repr(o.value.fields[0])
                if dv.startswith(tuple('<' + u for u in valeq.UNDECIDED)):
                    ctx.count('MIRROR.value.undecided')
                else:
                    nval += 1
                    same, ab = valeq.equal_values(repr(eo.st.mem.get(('arg', 'self'))), dv, prog.adts)
                    if same:
                        ctx.ok('MIRROR.value', key)
                    else:
                        ctx.violation('MIRROR.value', key, 'decoding the encoding of x does not rebuild x: the encoder wrote %s for x = %s, the decoder returns %s (no reconstruction axiom explains this term: swapped or transformed components, or a new idiom to add to rules/valeq.py after review)'
                                      % (fmt_items(eo.st.events)[:160], ab[0][:80], ab[1][:200]), where)
                        good = False
                for ev in o.st.events:
                    if ev[0] == 'DECODED' and ev[1] != ev[2] and ev[1] != '<%s as std::borrow::ToOwned>::Owned' % ev[2]:
                        ctx.violation('MIRROR', key + '|leaf', 'component written as %s is read back as %s' % (ev[2], ev[1]), where)
                        good = False
                fl = [f for f in summaries.bad_flags(o.st) if f not in ALLOWED and not (excl and any(a in f for a in excl.get('allow_flags', [])))]
                if fl:
                    ctx.violation('MIRROR.precision', t, 'decode summary not exact (%s)' % ','.join(fl), where)
                    good = False
            if nok == 0 and good:
                ctx.violation('MIRROR', key + '|nopath', 'no successful decode path for the encoding %s' % fmt_items(eo.st.events)[:120], where)
                good = False
            if good:
                ctx.ok('MIRROR', key)
                if t in ('std::result::Result<T, E>', 'std::ops::Bound<T>'):
                    ctx.sample({'type': t, 'case': key, 'stream': fmt_items(eo.st.events)})
    ctx.count('MIRROR.cases', n)
    ctx.floor('MIRROR.value', 'decided (type, variant) cases', nval, 100 if prog.feature('std') else 60)
    return 'Pairing table checked; %d (type, variant) encodings were fed item by item to the matching decoder by abstract interpretation.' % n
