"""C02 - decoding untrusted bytes is total (DESIGN 5.2)."""
import json, os
from ..absint import Machine, State, Int, Adt, Atom, Abort
from .. import load, facts, mir, l1, prims, tables

VERIF = os.path.abspath(os.path.join(os.path.dirname(__file__), '..', '..', '..'))
DEC = l1.DEC


def jtable(name):
    d = json.load(open(os.path.join(VERIF, 'tables', name)))
    d.pop('_comment', None)
    from ..absint import std_name
    return dict((mir.canon(std_name(k)), v) for k, v in d.items())


def is_decode_root(i):
    p = i['path']
    if i['krate'] not in ('minicbor', 'minicbor_serde'):
        return False
    if 'fmt::Debug' in p or 'fmt::Display' in p or 'std::error::Error' in p or 'core::error::Error' in p or 'as std::clone::Clone' in p:
        return False
    return (p.startswith('minicbor::decode::') or 'as minicbor::decode::Decode<' in p or 'as minicbor::bytes::DecodeBytes<' in p
            or p in ('minicbor::decode', 'minicbor::decode_with', 'minicbor::bytes::decode', 'minicbor::bytes::nil')
            or p.startswith('minicbor::data::token::skip_byte') or p.startswith('minicbor_serde::de::'))


def root_runs(prog, keys, overrides):
    """run every instance as a root with unconstrained arguments; returns (assert site stats, set of keys summarised)"""
    sites = {}
    done = set()
    visited = {}
    for k in keys:
        inst = prog.get(k)
        if inst is None:
            continue
        if '::{closure#' in inst['path']:
            continue   # closures are covered in the context of their defining function
        m = Machine(prog, prims=prims.P, overrides=overrides, max_configs=1500, max_steps=60000)
        st = State()
        body = inst['body']
        names = dict((l, n) for l, n in body['names'])
        try:
            args = [m.make_value(st, body['locals'][i], names.get(i, 'a%d' % i)) for i in range(1, body['argc'] + 1)]
            m.run(inst, args, st)
            done.add(k)
            ok_run = True
        except (Abort, RecursionError, KeyError, IndexError, TypeError, AttributeError):
            ok_run = False
        for site, rec in m.assert_sites.items():
            if not ok_run and site[0] == k:
                continue
            r = sites.setdefault((rec['path'], site[1]), {'ok': 0, 'open': 0, 'fail': 0})
            for f in ('ok', 'open', 'fail'):
                r[f] += rec[f]
        if ok_run:
            for kk, bbs in m.visited_blocks.items():
                visited.setdefault(kk, set()).update(bbs)
    return sites, done, visited


def parent_key(prog, inst):
    """defining function of a closure instance"""
    p = inst['path']
    if '::{closure#' not in p:
        return None
    return p[:p.index('::{closure#')]


def f_panic(ctx, prog, reach, label, overrides=None, rule='F-PANIC', pre_sites=None):
    ext_table = jtable('ext_callees.json')
    site_table = jtable('panic_sites.json')
    keys = sorted(reach)
    sites, done, visited = root_runs(prog, keys, overrides if overrides is not None else l1.decoder_overrides())
    done_paths = set(prog.get(k)['path'] for k in done)
    if pre_sites:
        # assert statistics gathered by the caller's own (loop-head) interpretations of some of these functions
        for site, rec in pre_sites.items():
            r = sites.setdefault(site, {'ok': 0, 'open': 0, 'fail': 0})
            for f_ in ('ok', 'open', 'fail'):
                r[f_] += rec[f_]
            for k in keys:
                if prog.get(k)['path'] == site[0]:
                    done.add(k)
        done_paths = set(prog.get(k)['path'] for k in done)
    ctx.count(rule + '.functions', len(keys))
    ctx.count(rule + '.functions_summarised', len(done))
    used = {}
    n_sites = 0
    for k in keys:
        inst = prog.get(k)
        for s in facts.panic_sites(prog, inst):
            n_sites += 1
            where = mir.loc(s['sp'])
            site = (inst['path'], s['bb'])
            rec = sites.get(site)
            pk = parent_key(prog, inst)
            covered = (k in done) or (pk is not None and pk in done_paths)
            if s['kind'].startswith('ext:'):
                row = ext_table.get(s['op'])
                if row is None:
                    import fnmatch
                    for pat, r_ in ext_table.items():
                        if '*' in pat and fnmatch.fnmatchcase(s['op'], pat):
                            row = r_
                            break
                if row is None:
                    ctx.violation(rule + '.ext', '%s|%s' % (inst['path'], s['op']), 'call of external function %s whose scan says "%s" (%s) and which is not classified in tables/ext_callees.json'
                                  % (s['op'], s['kind'][4:], (s.get('why') or '')[:120]), where)
                    continue
                if row['class'] != 'panics-if':
                    ctx.ok(rule + '.ext', '%s|%s' % (inst['path'], s['op']), nontrivial=False)
                    continue
                # a precondition call: needs a per-site discharge by the range analysis (check_prim) or a table row
            elif s['kind'] in ('call:diverging', 'call:indirect'):
                ctx.violation(rule + '.diverge', '%s|%s' % (inst['path'], s['op']), '%s reachable from decoding entry points' % s['kind'], where)
                continue
            key = '%s|%s|%s' % (inst['path'], s['kind'], s['op'])
            if rec is not None and rec['ok'] > 0 and rec['open'] == 0 and rec['fail'] == 0 and covered:
                ctx.ok(rule, key + '|bb-discharged')
                continue
            if s['kind'].startswith('assert') and guarded_increment(inst['body'], s['bb']):
                ctx.ok(rule, key + '|guarded-increment')
                continue
            if s['kind'].startswith('assert') and enumerate_index(inst['body'], s['bb']):
                ctx.ok(rule, key + '|enumerate-index')
                continue
            row = site_table.get(key)
            if row is None:
                import fnmatch
                for pat, r_ in site_table.items():
                    if pat.startswith('*') and key.endswith(pat[1:]):
                        row = r_
                        break
            used[key] = used.get(key, 0) + 1
            if row is not None and used[key] <= row['max']:
                ctx.ok(rule + '.table', key, nontrivial=False)
                continue
            why = 'not reached by the range analysis' if rec is None else ('operand range does not exclude the failure on %d path(s)' % (rec['open'] + rec['fail']))
            extra = ''
            if row is not None:
                extra = ' (tables/panic_sites.json allows %d such site(s) in this function, this is number %d)' % (row['max'], used[key])
            ctx.violation(rule, key, 'potential panic (%s %s): %s%s' % (s['kind'], s['op'] or '', why, extra), where)
    ctx.count(rule + '.sites', n_sites)
    return n_sites


def guarded_increment(body, bb):
    """`x + 1` cannot overflow where every path to it has just passed the true edge of `x < y` with x unchanged since
    (the counter of `while i < n { ..; i += 1 }`): x < y <= MAX of the common type."""
    t = body['blocks'][bb]['t']
    msg = t.get('msg') or {}
    if t.get('k') != 'assert' or msg.get('kind') != 'Overflow' or msg.get('op') != 'Add':
        return False
    a, b = msg.get('a') or {}, msg.get('b') or {}
    c = b.get('const')
    cv = c.get('int') if isinstance(c, dict) else None
    if cv is None and isinstance(c, dict):
        cv = c.get('v')
    x = mir.op_local(a)
    if x is None or cv not in (1, '1'):
        return False
    cfg = mir.CFG(body)
    dom = cfg.dominators()
    blocks = body['blocks']

    def copies_of(blk, upto=None):
        """locals that hold a copy of x at the end of blk (simple `_t = copy x` chains inside the block)"""
        same = {x}
        for st in blk['s']:
            if st['k'] != 'assign':
                continue
            d = st['p']['l'] if not st['p'].get('p') else None
            r = st['r']
            if d is None:
                continue
            if r.get('rv') == 'use' and mir.op_local(r['a']) in same:
                same.add(d)
            elif d in same and d != x:
                same.discard(d)
        return same
    for sb in dom.get(bb, ()):
        st_ = blocks[sb]['t']
        if st_['k'] != 'switch' or sb == bb:
            continue
        dl = mir.op_local(st_['d'])
        if dl is None:
            continue
        same = copies_of(blocks[sb])
        cmp_ok = False
        for s_ in blocks[sb]['s']:
            if s_['k'] == 'assign' and not s_['p'].get('p') and s_['p']['l'] == dl and s_['r'].get('rv') == 'bin' and s_['r'].get('op') == 'Lt' \
                    and mir.op_local(s_['r']['a']) in same:
                cmp_ok = True
        if not cmp_ok:
            continue
        # the true edge: the target taken for a non-zero discriminant
        false_t = [tg for v, tg in st_['vs'] if v == 0]
        true_t = st_['o'] if false_t else None
        if true_t is None or true_t not in dom.get(bb, ()) or (false_t and false_t[0] == true_t):
            continue
        # x is not assigned between the comparison and the addition
        between = [b_ for b_ in cfg.reach if true_t in dom.get(b_, ()) and b_ != bb and bb in cfg.reachable_from(b_, avoid=(sb,))] + [bb]
        clean = True
        for b_ in between:
            for s_ in blocks[b_]['s']:
                if s_['k'] == 'assign' and s_['p']['l'] == x and (b_ != bb or True):
                    clean = False
                if s_['k'] == 'assign' and s_['r'].get('rv') in ('ref', 'addr_of') and s_['r'].get('mut') and s_['r']['p']['l'] == x and not s_['r']['p'].get('p'):
                    clean = False
            tt = blocks[b_]['t']
            if b_ != bb and tt['k'] == 'call' and tt.get('dest') and tt['dest']['l'] == x:
                clean = False
        if clean:
            return True
    return False


IN_MEMORY_ITERS = ('std::slice::Iter<', 'std::slice::IterMut<', 'std::str::Chars<', 'std::str::Bytes<', 'std::str::CharIndices<',
                   'core::slice::Iter<', 'core::slice::iter::Iter<', 'std::slice::iter::Iter<')


def enumerate_index(body, bb):
    """`i + 1` cannot overflow when i is the index `Enumerate` yields over an in-memory sequence: fewer than isize::MAX items
    exist, so every index it yields is below isize::MAX."""
    t = body['blocks'][bb]['t']
    msg = t.get('msg') or {}
    if t.get('k') != 'assert' or msg.get('kind') != 'Overflow' or msg.get('op') != 'Add':
        return False
    c = (msg.get('b') or {}).get('const')
    if not isinstance(c, dict) or c.get('v') != 1:
        return False
    x = mir.op_local(msg.get('a') or {})
    if x is None:
        return False
    proj = []
    seen = set()
    while x not in seen:
        seen.add(x)
        defs = [s_ for b_ in body['blocks'] for s_ in b_['s'] if s_['k'] == 'assign' and s_['p']['l'] == x]
        calls = [b_['t'] for b_ in body['blocks'] if b_['t']['k'] == 'call' and b_['t'].get('dest') and b_['t']['dest']['l'] == x]
        if calls and not defs:
            if len(calls) != 1 or calls[0]['dest'].get('p'):
                return False
            f = calls[0].get('f') or {}
            rp = f.get('rpath') or f.get('path') or ''
            inner = ' '.join(f.get('rargs') or []) + ' ' + (f.get('self_ty') or '')
            if not (rp.endswith('Enumerate<I> as std::iter::Iterator>::next') or rp.endswith('Enumerate<I> as core::iter::Iterator>::next')):
                return False
            if not any(k_ in inner for k_ in IN_MEMORY_ITERS):
                return False
            kinds = [(e.get('k'), e.get('n') if e.get('k') == 'downcast' else e.get('i')) for e in proj]
            return kinds == [('downcast', 'Some'), ('field', 0), ('field', 0)]
        if len(defs) != 1 or defs[0]['p'].get('p') or defs[0]['r'].get('rv') != 'use':
            return False
        pl = mir.op_place(defs[0]['r']['a'])
        if pl is None:
            return False
        proj = list(pl.get('p') or []) + proj
        x = pl['l']
    return False


def f_recursion(ctx, prog, krates=('minicbor', 'minicbor_serde'), label=''):
    """no recursion among the workspace's own functions: a cycle in the resolved call graph (calls and fn items taken as values,
    by definition path) makes the stack depth a function of the input.  Recursion *through a type parameter* (`T::decode` of a
    nested user type) is not in this graph: its depth is the nesting depth of the Rust type, not of the input."""
    # nodes are *instances* (definition + type arguments as far as the caller fixes them): `encode_with::<Ipv4Addr>` called from
    # `<SocketAddrV4 as Encode>::encode` is another node than the `encode_with::<SocketAddrV4>` that led there - recursion that
    # follows the structure of a type, not of the input.  A closure belongs to the function that defines it.
    g = {}
    by_path = {}
    parents = {}
    for k, inst in prog.insts.items():
        if inst['krate'] not in krates:
            continue
        parents.setdefault(inst['path'].split('::{closure')[0], []).append(k)
    for k, inst in prog.insts.items():
        if inst['krate'] not in krates:
            continue
        by_path[k] = inst
        outs = g.setdefault(k, set())
        if '::{closure' not in inst['path']:
            for k2 in parents.get(inst['path'], ()):
                if k2 != k and '::{closure' in prog.insts[k2]['path'] and prog.insts[k2]['path'].startswith(inst['path'] + '::{closure'):
                    outs.add(k2)
        for bi, t in mir.iter_calls(inst['body']):
            f = t.get('f') or {}
            rk = f.get('rkey')
            tgt = prog.insts.get(rk) if rk else None
            if tgt is not None and tgt['krate'] in krates:
                outs.add(rk)
        for f, sp in mir.fn_consts_in_body(inst['body']):
            rk = f.get('rkey')
            tgt = prog.insts.get(rk) if rk else None
            if tgt is not None and tgt['krate'] in krates:
                outs.add(rk)
    import sys
    sys.setrecursionlimit(max(sys.getrecursionlimit(), 20000))
    idx, low, stack, on, cycles, c = {}, {}, [], set(), [], [0]

    def sc(v):
        idx[v] = low[v] = c[0]
        c[0] += 1
        stack.append(v)
        on.add(v)
        for w in g.get(v, ()):
            if w not in idx:
                sc(w)
                low[v] = min(low[v], low[w])
            elif w in on:
                low[v] = min(low[v], idx[w])
        if low[v] == idx[v]:
            comp = []
            while True:
                w = stack.pop()
                on.discard(w)
                comp.append(w)
                if w == v:
                    break
            if len(comp) > 1 or v in g.get(v, ()):
                cycles.append(sorted(comp))
    for v in sorted(g):
        if v not in idx:
            sc(v)
    for comp in cycles:
        inst = by_path[comp[0]]
        ctx.violation('F-RECURSION', prog.insts[comp[0]]['path'], 'recursion among the crate\'s own functions (%s): the stack depth follows the input; nesting must be handled iteratively (as skip() does) or bounded' % ' -> '.join(prog.insts[k_]['path'] for k_ in comp[:4]), mir.loc(inst['sp']))
    if not cycles:
        ctx.ok('F-RECURSION', '%d functions%s, no cycle' % (len(g), label))
    return len(g)


def f_unsafe(ctx, prog):
    allowed = {
        'minicbor::decode::ArrayVec::<T, N>::into_array': 'reads [MaybeUninit<T>; N] as [T; N] under len == N, then forgets self',
        '<minicbor::decode::ArrayVec<T, N> as std::ops::Drop>::drop': 'drops the first `len` initialised elements',
        "<&'_ minicbor::bytes::ByteSlice as std::convert::From<&'_ [u8]>>::from": 'repr(transparent) reference cast',
        "<&'_ mut minicbor::bytes::ByteSlice as std::convert::From<&'_ mut [u8]>>::from": 'repr(transparent) reference cast',
    }
    seen = set()
    for u in prog.unsafe_blocks:
        if not u['user']:
            continue
        owner = u['owner']
        seen.add(owner)
        if owner in allowed:
            ctx.ok('F-UNSAFE', owner)
        else:
            ctx.violation('F-UNSAFE', owner, 'unsafe block outside the reviewed set (ArrayVec::{into_array,drop}, the two ByteSlice reference casts)', mir.loc(u['sp']))
    for a in allowed:
        if a not in seen:
            ctx.fail_closed('F-UNSAFE', 'reviewed unsafe site %s no longer exists (update the table after review)' % a)
    ad = prog.adts.get('minicbor::bytes::ByteSlice')
    if not ad or not ad.get('transparent'):
        ctx.violation('F-UNSAFE.repr', 'ByteSlice', 'ByteSlice is not repr(transparent): the reference casts are unsound')
    else:
        ctx.ok('F-UNSAFE.repr', 'ByteSlice')
    # ArrayVec typestate
    AV = 'minicbor::decode::ArrayVec'
    writers = {}
    for inst in prog.insts.values():
        if inst['krate'] != 'minicbor':
            continue
        for bi, si, s in mir.iter_stmts(inst['body']):
            if s['k'] != 'assign':
                continue
            pj = s['p'].get('p') or []
            if pj and pj[-1]['k'] == 'field' and pj[-1].get('adt') == AV and pj[-1].get('n') == 'len':
                writers.setdefault(inst['path'], []).append((bi, si, s))
    for w in writers:
        if w != AV + '::<T, N>::push':
            ctx.violation('F-UNSAFE.arrayvec', 'len-writer|' + w, 'ArrayVec.len is assigned outside ArrayVec::push', mir.loc(writers[w][0][2].get('sp')))
    push = prog.one(AV + '::<T, N>::push')
    if push is None:
        ctx.fail_closed('F-UNSAFE.arrayvec', 'ArrayVec::push not found')
    else:
        cfg = mir.CFG(push['body'])
        wr = [bi for bi, t in mir.iter_calls(push['body']) if (mir.callee_path(t) or '').endswith('MaybeUninit::<T>::write')]
        lw = writers.get(AV + '::<T, N>::push', [])
        if len(wr) == 1 and lw and all(cfg.dominates(wr[0], bi) for bi, _, _ in lw):
            ctx.ok('F-UNSAFE.arrayvec', 'push: slot.write dominates len += 1')
        else:
            ctx.violation('F-UNSAFE.arrayvec', 'push|order', 'len is incremented on a path that has not initialised the slot (slot.write must dominate len += 1)', mir.loc(push['sp']))
    ia = prog.one(AV + '::<T, N>::into_array')
    if ia is None:
        ctx.fail_closed('F-UNSAFE.arrayvec', 'ArrayVec::into_array not found')
    else:
        body = ia['body']
        cfg = mir.CFG(body)
        reads = [bi for bi, t in mir.iter_calls(body) if (mir.callee_path(t) or '').endswith('const_ptr::<impl *const T>::read')]
        forgets = [bi for bi, t in mir.iter_calls(body) if (mir.callee_path(t) or '') in ('std::mem::forget', 'core::mem::forget')]
        # the comparison len == N: a switch on an Eq of the len field
        guards = []
        for bi, b in enumerate(body['blocks']):
            t = b['t']
            if t['k'] == 'switch':
                for s in b['s']:
                    if s['k'] == 'assign' and s['r'].get('rv') == 'bin' and s['r'].get('op') == 'Eq':
                        guards.append((bi, t))
        ok_ = len(reads) == 1 and len(forgets) >= 1 and len(guards) >= 1
        if ok_:
            rb = reads[0]
            gb, gt = guards[0]
            true_tgt = gt['o'] if all(v[0] == 0 for v in gt['vs']) else [v[1] for v in gt['vs'] if v[0] == 1][0]
            dom_guard = cfg.dominates(true_tgt, rb) and true_tgt != gb
            # every path from the read to a return passes a forget
            reach_wo = cfg.reachable_from(rb, avoid=forgets)
            leaks = [x for x in reach_wo if body['blocks'][x]['t']['k'] == 'return']
            # no call between read and forget that could unwind and drop `self` twice
            between = cfg.reachable_from(rb, avoid=forgets) - {rb}
            calls_between = [x for x in between if body['blocks'][x]['t']['k'] == 'call']
            if dom_guard and not leaks and not calls_between:
                ctx.ok('F-UNSAFE.arrayvec', 'into_array: read under len == N, forget(self) on every path after it')
            else:
                ctx.violation('F-UNSAFE.arrayvec', 'into_array|typestate',
                              'the buffer is read as [T; N] %s%s%s' % ('' if dom_guard else 'without being dominated by the len == N test; ',
                                                                      'and a path returns without mem::forget(self) (elements would be dropped twice); ' if leaks else '',
                                                                      'and a call that can unwind sits between the read and the forget' if calls_between else ''), mir.loc(ia['sp']))
        else:
            ctx.violation('F-UNSAFE.arrayvec', 'into_array|shape', 'expected one ptr::read, a len == N guard and mem::forget(self); found %d read(s), %d guard(s), %d forget(s)' % (len(reads), len(guards), len(forgets)), mir.loc(ia['sp']))
    # partial decode failure drops what was decoded: the [T; N] impl holds the ArrayVec as a local that is dropped on the error edges
    arr = prog.one("<[T; N] as minicbor::decode::Decode<'_, C>>::decode")
    if arr is None:
        ctx.fail_closed('F-UNSAFE.arrayvec', '[T; N]::decode not found')
    else:
        body = arr['body']
        cfg = mir.CFG(body)
        av_locals = [i for i, l in enumerate(body['locals']) if l.get('adt') == AV]
        drops = {}
        for bi, b in enumerate(body['blocks']):
            t = b['t']
            if t['k'] == 'drop' and not t['p'].get('p') and t['p']['l'] in av_locals and not b.get('cleanup'):
                drops.setdefault(t['p']['l'], []).append(bi)
        # every return reachable after the ArrayVec was created must pass a drop of it or the into_array call (which consumes it)
        creates = [bi for bi, t in mir.iter_calls(body) if (mir.callee_path(t) or '').endswith('ArrayVec::<T, N>::new')]
        consumes = [bi for bi, t in mir.iter_calls(body) if (mir.callee_path(t) or '').endswith('ArrayVec::<T, N>::into_array')]
        if not creates or not av_locals:
            ctx.fail_closed('F-UNSAFE.arrayvec', '[T; N]::decode no longer builds an ArrayVec (anchor moved)')
        else:
            start = body['blocks'][creates[0]]['t'].get('t')
            alld = [x for v in drops.values() for x in v]
            esc = cfg.reachable_from(start, avoid=alld + consumes)
            leaks = [x for x in esc if body['blocks'][x]['t']['k'] == 'return']
            if leaks:
                ctx.violation('F-UNSAFE.arrayvec', 'decode|drop', 'a path returns from [T; N]::decode without dropping or consuming the partially filled ArrayVec (decoded elements leak)', mir.loc(arr['sp']))
            else:
                ctx.ok('F-UNSAFE.arrayvec', '[T; N]::decode: every exit drops or consumes the ArrayVec')


# allocation request functions of std -> index of the operand that carries the requested size
ALLOC_SINKS = {'with_capacity': 0, 'try_with_capacity': 0, 'with_capacity_in': 0, 'reserve': 1, 'reserve_exact': 1, 'try_reserve': 1, 'try_reserve_exact': 1,
               'resize': 1, 'resize_with': 1, 'from_elem': 1, 'repeat': 1}


def f_alloc(ctx, prog, reach):
    n = 0
    for k in sorted(reach):
        inst = prog.get(k)
        for bi, t in mir.iter_calls(inst['body']):
            p = mir.callee_path(t) or ''
            last = p.split('::')[-1]
            if last in ALLOC_SINKS and (p.startswith(('std::', 'alloc::', 'core::'))):
                n += 1
                # constant-size requests are fine
                si = ALLOC_SINKS[last]
                size_op = t['args'][si] if si < len(t['args']) else None
                if size_op is not None and 'const' in size_op and 'v' in size_op['const']:
                    ctx.ok('F-ALLOC', '%s|%s|const' % (inst['path'], p), nontrivial=False)
                    continue
                ctx.violation('F-ALLOC', '%s|%s' % (inst['path'], p), 'allocation sized by a runtime value in a decoding path (a declared length could force a huge allocation)', mir.loc(t.get('sp')))
    ctx.count('F-ALLOC.sites', n)


def whole_buf_copy_into_new(body, stmt, pl):
    """`_x = copy self.buf` (the fat pointer itself: `buf` is the last projection) whose only use - through plain copies and
    reborrows `&*_x` - is as the argument of Decoder::new"""
    pj = pl.get('p') or []
    if not pj or pj[-1].get('k') != 'field' or pj[-1].get('n') != 'buf':
        return False
    if stmt['r'].get('rv') != 'use' or stmt['p'].get('p'):
        return False
    alias = {stmt['p']['l']}
    uses = 0
    changed = True
    while changed:
        changed = False
        for b in body['blocks']:
            for st_ in b['s']:
                if st_ is stmt or st_['k'] != 'assign' or st_['p'].get('p'):
                    continue
                r = st_['r']
                src = None
                if r.get('rv') == 'use' and mir.op_local(r.get('a')) in alias and not (mir.op_place(r['a']) or {}).get('p'):
                    src = True
                if r.get('rv') == 'ref' and r['p'].get('l') in alias and [q['k'] for q in (r['p'].get('p') or [])] == ['deref']:
                    src = True
                if src and st_['p']['l'] not in alias:
                    alias.add(st_['p']['l'])
                    changed = True
    for b in body['blocks']:
        for st_ in b['s']:
            if st_ is stmt or st_['k'] != 'assign':
                continue
            r = st_['r']
            if st_['p']['l'] in alias and not st_['p'].get('p'):
                continue        # the alias definitions themselves
            for kx in ('a', 'b'):
                if isinstance(r.get(kx), dict) and mir.op_local(r[kx]) in alias:
                    return False
            if isinstance(r.get('p'), dict) and r['p'].get('l') in alias:
                return False
            for o_ in r.get('ops') or []:
                if mir.op_local(o_) in alias:
                    return False
        t = b['t']
        if t['k'] == 'call':
            for a_ in t.get('args') or []:
                if mir.op_local(a_) in alias:
                    if (mir.callee_path(t) or '') == DEC + 'new':
                        uses += 1
                    else:
                        return False
    return uses == 1


def f_input(ctx, prog):
    D = 'minicbor::decode::decoder::Decoder'
    buf_ok = {DEC + x for x in ('current', 'read', 'peek', 'read_slice', 'input', 'new')} | {DEC + 'peek::{closure#0}', DEC + 'read_slice::{closure#0}',
                                                                                             "<minicbor::decode::decoder::Decoder<'_> as std::fmt::Debug>::fmt", "<minicbor::decode::decoder::Decoder<'_> as std::clone::Clone>::clone"}
    pos_w_ok = {DEC + x for x in ('read', 'read_slice', 'set_position', 'new')}
    n = 0
    for inst in prog.insts.values():
        if inst['krate'] not in ('minicbor', 'minicbor_serde'):
            continue

        def fields_in(place):
            return [(pj.get('n'), pj.get('adt')) for pj in (place.get('p') or []) if pj['k'] == 'field']
        for bi, si, s in mir.iter_stmts(inst['body']):
            if s['k'] != 'assign':
                continue
            # writes
            fw = fields_in(s['p'])
            if fw and fw[-1] == ('pos', D):
                n += 1
                if inst['path'] in pos_w_ok:
                    ctx.ok('F-INPUT.pos', inst['path'])
                else:
                    ctx.violation('F-INPUT.pos', inst['path'], 'Decoder.pos is written outside read/read_slice/set_position', mir.loc(s.get('sp')))
            # reads of buf
            r = s['r']
            places = []
            for kx in ('a', 'b'):
                if isinstance(r.get(kx), dict):
                    pl = mir.op_place(r[kx])
                    if pl:
                        places.append(pl)
            if 'p' in r and isinstance(r['p'], dict):
                places.append(r['p'])
            for pl in places:
                if ('buf', D) in fields_in(pl):
                    n += 1
                    if inst['path'] in buf_ok:
                        ctx.ok('F-INPUT.buf', inst['path'], nontrivial=False)
                    elif whole_buf_copy_into_new(inst['body'], s, pl):
                        # the reference to the whole input handed to another Decoder (probe-like copies): not an access to input bytes
                        ctx.ok('F-INPUT.buf', inst['path'] + '|copy-into-Decoder::new', nontrivial=False)
                    else:
                        ctx.violation('F-INPUT.buf', inst['path'], 'Decoder.buf is accessed outside the checked input primitives', mir.loc(s.get('sp')))
    ctx.floor('F-INPUT', 'field accesses', n, 8)
    # end_of_input is produced only by the input primitives (calls and fn-item references)
    eoi_ok = {DEC + x for x in ('current', 'read', 'peek', 'read_slice')} | {'minicbor::decode::info::Size::tail', 'minicbor_serde::de::Deserializer::<\'_>::current', 'minicbor_serde::de::Deserializer::<\'_>::read'}
    for inst in prog.insts.values():
        if inst['krate'] not in ('minicbor', 'minicbor_serde'):
            continue
        refs = []
        for bi, t in mir.iter_calls(inst['body']):
            if (mir.callee_path(t) or '') == l1.EOI:
                refs.append(t.get('sp'))
        for f, sp in mir.fn_consts_in_body(inst['body']):
            if (f.get('rpath') or f.get('path')) == l1.EOI:
                refs.append(sp)
        for sp in refs:
            if inst['path'] in eoi_ok:
                ctx.ok('F-INPUT.eoi', inst['path'])
            else:
                ctx.violation('F-INPUT.eoi', inst['path'], 'constructs the end-of-input error outside the input primitives (would blur the error class of truncated input)', mir.loc(sp))


def t_prim(ctx, prog):
    """tables of the input primitives themselves: Ok <=> in bounds, pos advanced by exactly the bytes returned; Err = end_of_input, pos unchanged"""
    exp_adv = {'current': 0, 'peek': 0, 'read': 1, 'read_slice': 'n'}
    for name, adv in exp_adv.items():
        inst = prog.one(DEC + name)
        if inst is None:
            ctx.fail_closed('T-PRIM', 'Decoder::%s not found' % name)
            continue
        m = Machine(prog, prims=prims.P)
        st = State()
        body = inst['body']
        names = dict((l, n) for l, n in body['names'])
        args = [m.make_value(st, body['locals'][i], names.get(i, 'a%d' % i)) for i in range(1, body['argc'] + 1)]
        try:
            outs = m.run(inst, args, st)
        except Abort as e:
            ctx.fail_closed('T-PRIM', 'Decoder::%s cannot be summarised: %s' % (name, e))
            continue
        where = mir.loc(inst['sp'])
        pos0 = Int.sym('self*.pos')
        for o in outs:
            if o.kind != 'return':
                ctx.violation('T-PRIM', name + '|diverge', 'input primitive can diverge: %s' % o.why, where)
                continue
            kind, val = l1.describe_result(prog, o.value)
            selfv = o.st.mem.get(('arg', 'self'))
            posv = selfv.fields[1] if isinstance(selfv, Adt) and len(selfv.fields) > 1 else None
            assume = o.st.extra.get('assume') or ()
            inb = any(a[0] in ('in_bounds', 'range_in_bounds') for a in assume)
            if kind == 'Ok':
                want = pos0 if adv == 0 else (Int([('self*.pos', 1)], 1) if adv == 1 else Int([('self*.pos', 1), ('n', 1)], 0))
                if not inb:
                    ctx.violation('T-PRIM', name + '|unchecked', 'returns Ok on a path without a successful bounds check', where)
                elif posv != want:
                    ctx.violation('T-PRIM', name + '|advance', 'on success the position becomes %r, expected %r' % (posv, want), where)
                else:
                    # which byte(s): the element at the position (peek: one behind it), the slice from the position
                    want_val = {'current': '<self*.buf*[self*.pos]>', 'read': '<self*.buf*[self*.pos]>', 'peek': '<self*.buf*[self*.pos + 1]>',
                                'read_slice': "slice('self*.buf*[self*.pos..n + self*.pos]', len=n)"}[name]
                    if repr(val) != want_val:
                        ctx.violation('T-PRIM', name + '|value', 'returns %r; expected %s (the input at the current position%s)' % (val, want_val, ' + 1' if name == 'peek' else ''), where)
                    else:
                        ctx.ok('T-PRIM', name + '|ok')
            else:
                if val != 'EndOfInput':
                    ctx.violation('T-PRIM', name + '|class', 'exhausted input yields error class %s, expected EndOfInput' % val, where)
                elif posv != pos0:
                    ctx.violation('T-PRIM', name + '|advance-on-error', 'position changes to %r on the error path' % (posv,), where)
                else:
                    ctx.ok('T-PRIM', name + '|err')
        for site, rec in m.assert_sites.items():
            if rec['open'] or rec['fail']:
                ctx.violation('T-PRIM', name + '|arith', 'position arithmetic may overflow (%s)' % rec['kind'], mir.loc(rec.get('sp')))


CONSUMING = ('read', 'read_slice', 'read_array', 'skip', 'skip_byte', 'array_iter', 'array_iter_with', 'map_iter', 'map_iter_with', 'bytes_iter', 'str_iter', 'decode', 'decode_with', 'decode_bytes', 'next', 'token',
             'u8', 'u16', 'u32', 'u64', 'i8', 'i16', 'i32', 'i64', 'int', 'bytes', 'str', 'array', 'map', 'tag', 'null', 'undefined', 'simple',
             'bool', 'char', 'f16', 'f32', 'f64', 'unsigned', 'next_element_seed', 'next_key_seed', 'next_value_seed', 'deserialize', 'pair')


_may_consume = {}


def may_consume(prog):
    """workspace functions that can advance the decoder: reverse reachability, over resolved calls, from the position-advancing input
    primitives (read, read_slice, set_position and the serde twin) - whatever the functions in between are called"""
    if id(prog) in _may_consume:
        return _may_consume[id(prog)]
    base = {DEC + 'read', DEC + 'read_slice', DEC + 'set_position', 'minicbor_serde::de::Deserializer::<\'_>::read'}
    callers = {}
    for inst in prog.insts.values():
        for bi, t in mir.iter_calls(inst['body']):
            f = t.get('f') or {}
            cp = f.get('rpath') or f.get('path')
            if cp:
                callers.setdefault(cp, set()).add(inst['path'])
        # closures run on behalf of the function that creates them
        if '::{closure' in inst['path']:
            callers.setdefault(inst['path'], set()).add(inst['path'].split('::{closure')[0])
    seen = set(base)
    work = list(base)
    while work:
        x = work.pop()
        for c in callers.get(x, ()):
            if c not in seen:
                seen.add(c)
                work.append(c)
    _may_consume[id(prog)] = seen
    return seen


def is_consuming_call(prog, t):
    f = t.get('f') or {}
    cp = f.get('rpath') or f.get('path') or ''
    if cp in may_consume(prog):
        return True
    # calls the exporter could not resolve (trait methods on type parameters) and external adaptors: by name
    last = cp.split('::')[-1].split('<')[0]
    return (not f.get('resolved') or f.get('krate') not in ('minicbor', 'minicbor_serde')) and last in CONSUMING


def f_loop(ctx, prog, reach):
    table = jtable('loops.json')
    used = {}
    n = 0
    for k in sorted(reach):
        inst = prog.get(k)
        cfg = mir.CFG(inst['body'])
        for scc in cfg.sccs():
            n += 1
            calls = []
            for bi in scc:
                t = inst['body']['blocks'][bi]['t']
                if t['k'] == 'call':
                    calls.append(((mir.callee_path(t) or '').split('::')[-1].split('<')[0], t))
            consuming = [c for c, t in calls if is_consuming_call(prog, t)]
            key = inst['path']
            if consuming:
                ctx.ok('F-LOOP', '%s|%s' % (key, ','.join(sorted(set(consuming)))))
                continue
            used[key] = used.get(key, 0) + 1
            row = table.get(key)
            if row and used[key] <= row['max']:
                ctx.ok('F-LOOP.table', key, nontrivial=False)
            else:
                ctx.violation('F-LOOP', key, 'loop with no input-consuming call in a decoding path (work not bounded by the input length); calls in the loop: %s' % sorted(set(c for c, _ in calls)), mir.loc(inst['sp']))
    ctx.count('F-LOOP.loops', n)


def f_minconsume(ctx, prog):
    """every Decode::decode / DecodeBytes::decode_bytes impl calls at least one consuming primitive on the way to Ok"""
    n = 0
    for i in prog.impls:
        if i['krate'] != 'minicbor' or i['trait'] not in ('minicbor::decode::Decode', 'minicbor::bytes::DecodeBytes'):
            continue
        meth = 'decode' if i['trait'].endswith('Decode') else 'decode_bytes'
        inst = prog.one(i['trait_ref'] + '::' + meth)
        if inst is None:
            continue
        n += 1
        body = inst['body']
        cfg = mir.CFG(body)
        cons = [bi for bi, t in mir.iter_calls(body) if is_consuming_call(prog, t) or 'decode' in (mir.callee_path(t) or '').split('::')[-1]]
        errs = []
        for bi, b in enumerate(body['blocks']):
            t = b['t']
            if t['k'] == 'call' and (mir.callee_path(t) or '').endswith('from_residual'):
                errs.append(bi)
            for st_ in b['s']:
                if st_['k'] == 'assign' and st_['r'].get('rv') == 'agg' and st_['r'].get('adt', '').endswith('result::Result') and st_['r'].get('variant') == 1:
                    errs.append(bi)
        esc = cfg.reachable_from(0, avoid=cons + errs)
        rets = [x for x in esc if body['blocks'][x]['t']['k'] == 'return']
        if rets:
            ctx.violation('F-MINCONSUME', i['self_ty'], 'a path through %s returns without calling any input-consuming primitive (a declared element count could then drive unbounded work)' % meth, mir.loc(inst['sp']))
        else:
            ctx.ok('F-MINCONSUME', i['self_ty'])
    ctx.floor('F-MINCONSUME', 'Decode impls', n, 80)


def lemma_prim(ctx):
    """the part of C02 every decoder-level table rests on: the byte-level model of the input primitives (l1) is what the real
    primitives do, and nothing else touches the input"""
    prog = load.program('core-full', 'serde-full')
    ctx.rules_run.append('T-PRIM: input primitives: Ok <=> bounds check succeeded, position advanced by exactly the bytes returned, the bytes returned are the input at the old position; error = EndOfInput with position unchanged')
    t_prim(ctx, prog)
    ctx.rules_run.append('F-INPUT: Decoder.buf / Decoder.pos are touched only by the checked input primitives')
    f_input(ctx, prog)
    return 'input primitives'


def run(ctx):
    prog = load.program('core-full', 'serde-full')
    # rendering code (Display / Debug impls and private helpers only they call) is C19's subject, whatever module it lives in
    callers0 = {}
    for inst in prog.insts.values():
        if inst['krate'] not in ('minicbor', 'minicbor_serde'):
            continue
        for bi, t in mir.iter_calls(inst['body']):
            f = t.get('f') or {}
            cp = f.get('rpath') or f.get('path')
            if cp and cp != inst['path']:
                callers0.setdefault(cp, set()).add(inst['path'])
    display_only = set(i['path'] for i in prog.insts.values() if 'fmt::Display' in i['path'] or 'fmt::Debug' in i['path'])
    grew = True
    while grew:
        grew = False
        for cp, cs in callers0.items():
            if cp not in display_only and cp.startswith(('minicbor::', 'minicbor_serde::', '<minicbor')) and cs and cs <= display_only:
                display_only.add(cp)
                grew = True
    roots = [k for k, i in prog.insts.items() if is_decode_root(i) and i['path'] not in display_only and i['path'].split('::{')[0] not in display_only]
    reach0 = set(k for k in facts.reachable(prog, roots) if prog.get(k)['krate'] in ('minicbor', 'minicbor_serde'))
    # several instances can share one definition (they differ only in erased regions / type arguments): census per definition
    by_path = {}
    for k in sorted(reach0, key=lambda k: (prog.get(k)['depth'], len(k), k)):
        by_path.setdefault(prog.get(k)['path'], k)
    reach = set(by_path.values())
    ctx.count('entry points', len(roots))
    ctx.count('reachable functions', len(reach))
    ctx.floor('C02', 'decode entry points', len(roots), 300)
    ctx.rules_run.append('F-PANIC: every potential panic site (Assert terminators, panicking std callees, diverging calls) reachable from the decoding entry points is discharged by the range analysis or a justified table row')
    # the checked input primitives (and private helpers only they call) carry their own panic obligation: T-PRIM interprets each of
    # them whole, with the bounds check's outcome as an assumption, and reports any assert left open (T-PRIM|arith)
    prim_paths = set(DEC + n_ for n_ in ('current', 'peek', 'read', 'read_slice'))
    callers = {}
    for inst in prog.insts.values():
        if inst['krate'] != 'minicbor':
            continue
        for bi, t in mir.iter_calls(inst['body']):
            f = t.get('f') or {}
            cp = f.get('rpath') or f.get('path')
            if cp and cp != inst['path']:
                callers.setdefault(cp, set()).add(inst['path'])
    grew = True
    only_prims = set(prim_paths)
    while grew:
        grew = False
        for cp, cs in callers.items():
            if cp not in only_prims and cp.startswith('minicbor::') and cs and cs <= only_prims:
                only_prims.add(cp)
                grew = True
    # skip() and private helpers only it calls: the bookkeeping arithmetic (`nrounds - 1`, `*n -= 1`, ..) is safe because of the
    # loop's state invariant, which is exactly what C06's step interpretation carries: every state shape x every head class is
    # interpreted with the stack modelled, and a step that can panic (or goes through a call the analysis cannot follow) is reported
    only_skip = {DEC + 'skip'}
    grew = True
    while grew:
        grew = False
        for cp, cs in callers.items():
            if cp not in only_skip and cp.startswith('minicbor::') and cs and cs <= only_skip:
                only_skip.add(cp)
                grew = True
    f_panic(ctx, prog, set(k for k in reach if prog.get(k)['path'] not in only_prims and prog.get(k)['path'] not in only_skip), 'decode')
    if True:
        from . import c06_sim

        class SkipPanics:
            def __init__(self):
                self.analysed = {}
                self.n = 0

            def ok(self, rule, inst, nontrivial=True):
                self.n += 1

            def violation(self, rule, inst, msg, where=None, **kw):
                if '|diverge' in inst or '|opaque' in inst or 'panic' in msg:
                    ctx.violation('F-PANIC.skip', inst, msg, where)

            def fail_closed(self, rule, msg):
                ctx.fail_closed('F-PANIC.skip', msg)

            def count(self, *a):
                pass
        sp = SkipPanics()
        try:
            rows = c06_sim.sim(sp, prog, 'skip', bool(prog.feature('alloc') or prog.feature('std')))
            ctx.ok('F-PANIC.skip', '%d step rows of skip() interpreted without a possible panic' % rows)
        except Abort as e:
            ctx.fail_closed('F-PANIC.skip', 'skip cannot be interpreted: %s' % e)
    ctx.rules_run.append('F-PANIC.skip: skip() and helpers only it calls are interpreted from every state shape of its bookkeeping (C06 T-SKIP.sim machinery): no step can panic')
    ctx.rules_run.append('T-PRIM: input primitives: Ok <=> bounds check succeeded, position advanced by exactly the bytes returned; error = EndOfInput with position unchanged')
    t_prim(ctx, prog)
    ctx.rules_run.append('F-RECURSION: the resolved call graph of minicbor and minicbor-serde (calls and fn items, by definition) has no cycle: stack depth never follows the input (generic recursion through `T::decode` follows the Rust type)')
    nf = f_recursion(ctx, prog)
    ctx.floor('F-RECURSION', 'functions in the call graph', nf, 800)
    ctx.rules_run.append('F-UNSAFE: unsafe blocks = reviewed set; ArrayVec typestate (write before len++, read under len == N then forget, drop on error exits)')
    f_unsafe(ctx, prog)
    ctx.rules_run.append('F-ALLOC: no allocation sized by a runtime value in decode paths')
    f_alloc(ctx, prog, reach)
    ctx.rules_run.append('F-INPUT: Decoder.buf / Decoder.pos are touched only by the checked input primitives; end_of_input is constructed only there')
    f_input(ctx, prog)
    ctx.rules_run.append('F-LOOP / F-MINCONSUME: every loop in a decode path contains an input-consuming call; every Decode impl consumes on the way to Ok')
    f_loop(ctx, prog, reach)
    f_minconsume(ctx, prog)
    ctx.rules_run.append('T-TOKENIZER (shared with C11): tokenisation ends after an error whoever owns the decoder: Tokenizer::token drains the input on every error return; next() maps only end-of-input to None')
    if not load.ALIAS:
        from . import c11
        c11.tokenizer_rules(ctx, prog)
    # positive controls
    try:
        from . import controls
        controls.run(ctx, ('F-ALLOC', 'F-PANIC', 'F-UNSAFE', 'F-LOOP', 'F-RECURSION'))
    except ImportError:
        ctx.notes.append('fixtures not built')
    return ('Census over %d decode-reachable functions (%d entry points): panic sites, unsafe blocks, allocation sinks, input-field accesses, loops.' % (len(reach), len(roots)))
