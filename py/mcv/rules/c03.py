"""C03 - encoder output is well-formed, deterministic, shortest-form (DESIGN 5.3)."""
from ..absint import Int, Atom, BeBytes, Abort, iv_min, iv_max, lin_add
from .. import load, tables, oracle, mir, l1

FIXED = {'null': [0xf6], 'undefined': [0xf7], 'begin_array': [0x9f], 'begin_bytes': [0x5f],
         'begin_map': [0xbf], 'begin_str': [0x7f], 'end': [0xff]}
UNSIGNED = ['u8', 'u16', 'u32', 'u64', 'char']
SIGNED = ['i8', 'i16', 'i32', 'i64']
LEN_MAJOR = {'bytes': 2, 'str': 3, 'array': 4, 'map': 5}


def sym_of(row, name):
    return name if name in row.st.ranges else None


def expected_for(m, method, row):
    """expected byte stream of `method` on the row's cell according to RFC 8949; (terms, reason)"""
    st = row.st
    if method in FIXED:
        return [Int.const(b) for b in FIXED[method]], None
    if method in UNSIGNED:
        return tables.expected_head(m, st, 0, Int.sym('x'))
    if method in SIGNED:
        lo, hi = iv_min(st.ranges['x']), iv_max(st.ranges['x'])
        if lo >= 0:
            return tables.expected_head(m, st, 0, Int.sym('x'))
        if hi < 0:
            return tables.expected_head(m, st, 1, Int([('x', -1)], -1))
        return None, 'cell mixes negative and non-negative values'
    if method == 'int':
        neg = st.ranges['x.neg']
        if neg == ((0, 0),):
            return tables.expected_head(m, st, 0, Int.sym('x.val'))
        if neg == ((1, 1),):
            return tables.expected_head(m, st, 1, Int.sym('x.val'))
        return None, 'cell mixes signs'
    if method == 'bool':
        v = st.ranges['x']
        if v == ((0, 0),):
            return [Int.const(0xf4)], None
        if v == ((1, 1),):
            return [Int.const(0xf5)], None
        return None, 'cell mixes true and false'
    if method == 'simple':
        lo, hi = iv_min(st.ranges['x']), iv_max(st.ranges['x'])
        if hi < 24:
            return [lin_add(Int.sym('x'), Int.const(0xe0), 1)], None
        if lo >= 32:
            return [Int.const(0xf8), Int.sym('x')], None
        if lo >= 24 and hi < 32:
            return 'REFUSE', None
        return None, 'simple value cell [%d, %d] mixes the one-byte (<24), reserved (24..31) and two-byte (>=32) forms' % (lo, hi)
    if method in ('f32', 'f64'):
        n = 4 if method == 'f32' else 8
        return [Int.const(0xfa if n == 4 else 0xfb), BeBytes(Atom('x'), n, 'be')], None
    if method == 'f16':
        return [Int.const(0xf9), BeBytes(Atom('f16::to_bits(f16::from_f32(x))'), 2, 'be')], None
    if method == 'tag':
        # x: Tag(u64)
        s = [k for k in st.ranges if k.startswith('x')]
        if len(s) != 1:
            return None, 'tag argument symbols %r' % s
        return tables.expected_head(m, st, 6, Int.sym(s[0]))
    if method in LEN_MAJOR:
        if method in ('bytes', 'str'):
            terms, why = tables.expected_head(m, st, LEN_MAJOR[method], Int.sym('x.len'))
            if terms is None:
                return None, why
            return terms + [('DATA', 'x*', 'x.len')], None
        return tables.expected_head(m, st, LEN_MAJOR[method], Int.sym('len'))
    return None, 'no oracle for method'


def run(ctx):
    prog = load.program('core-full')
    ctx.rules_run.append('T-ENC: complete input->bytes table of every Encoder method vs RFC 8949 preferred serialisation')
    n_methods = 0
    half = prog.feature('half')
    for method in tables.ENC_METHODS:
        if method == 'f16' and not half:
            continue      # exists only with feature `half`
        try:
            res = tables.enc_rows(prog, method)
        except Abort as e:
            ctx.fail_closed('T-ENC', 'Encoder::%s cannot be summarised: %s' % (method, e))
            continue
        if res is None:
            ctx.fail_closed('T-ENC', 'anchor Encoder::%s not found in the export' % method)
            continue
        inst, rows, m = res
        n_methods += 1
        where = mir.loc(inst['sp'])
        okrows = [r for r in rows if r.result == 'Ok']
        if not okrows:
            ctx.violation('T-ENC', 'Encoder::%s' % method, 'no successful path', where)
        for r in rows:
            inst_key = 'Encoder::%s|%s' % (method, r.cell())
            if r.kind != 'return':
                ctx.violation('T-ENC.total', 'Encoder::%s' % method, 'path does not return (%s)' % r.kind, where)
                continue
            bad_flags = [f for f in r.flags if f.startswith(('imprecise', 'opaque', 'trunc'))]
            if r.result == 'Ok':
                exp, why = expected_for(m, method, r)
                if exp == 'REFUSE':
                    ctx.violation('T-ENC.simple', 'Encoder::simple|reserved', 'simple values 24..31 are encoded (as %s) although RFC 8949 3.3 reserves them' % tables.fmt_stream(r.stream), where)
                    continue
                if exp is None:
                    # distinguish D2-style reports
                    ctx.violation('T-ENC', 'Encoder::%s|%s' % (method, 'straddle'), '%s on cell {%s}: emitted %s' % (why, r.cell(), tables.fmt_stream(r.stream)), where)
                    continue
                if bad_flags:
                    ctx.violation('T-ENC.precision', 'Encoder::%s' % method, 'argument is touched by something other than comparisons/copies (%s): table not exact' % ','.join(sorted(bad_flags)), where)
                    continue
                if not tables.stream_eq(r.stream, exp):
                    ctx.violation('T-ENC', 'Encoder::%s|%s' % (method, 'bytes'), 'on cell {%s} emitted %s, RFC 8949 preferred serialisation is %s' % (r.cell(), tables.fmt_stream(r.stream), tables.fmt_stream(exp)), where)
                else:
                    ctx.ok('T-ENC', inst_key)
                    if method in ('u16', 'i32', 'simple'):
                        ctx.sample({'method': method, 'cell': r.cell(), 'bytes': tables.fmt_stream(r.stream)})
            elif r.result == 'Err':
                # failing sink: what was offered must be a prefix of the successful stream of an overlapping cell (C13)
                pref = r.stream
                if any(len(o.stream) >= len(pref) and tables.stream_eq(o.stream[:len(pref)], pref) for o in okrows):
                    ctx.ok('T-ENC.prefix', inst_key, nontrivial=False)
                else:
                    ctx.violation('T-ENC.prefix', 'Encoder::%s' % method, 'bytes offered before a sink error %s are not a prefix of any successful stream' % tables.fmt_stream(pref), where)
        # the Ok cells must cover the whole argument space: union of cells = type range (machine splits are exhaustive by construction)
    ctx.floor('T-ENC', 'methods', n_methods, 27 if half else 26)

    # put / type_len: single funnel
    ctx.rules_run.append('F-PUT: Write::write_all is reached only through Encoder::put in encoder.rs')
    callers = set()
    for inst in prog.insts.values():
        if inst['krate'] != 'minicbor':
            continue
        for bi, t in mir.iter_calls(inst['body']):
            f = t.get('f') or {}
            if (f.get('path') or '').endswith('encode::write::Write::write_all') and not f.get('resolved'):
                callers.add(inst['path'])
    # the funnel is whichever single inherent method of Encoder<W> hands bytes to the sink (today `put`); its name does not matter
    fwd = '<&mut W as minicbor::encode::write::Write>::write_all'
    funnels = sorted(c for c in callers if c.startswith(l1.ENC) and '::{' not in c)
    for c in sorted(callers):
        if c == fwd or (len(funnels) == 1 and c == funnels[0]):
            ctx.ok('F-PUT', c)
        else:
            ctx.violation('F-PUT', c, 'calls Write::write_all on the sink directly; every encoded byte must pass the single write funnel of Encoder (%s)' % (', '.join(funnels) or 'none found'))
    if not funnels:
        ctx.fail_closed('F-PUT', 'no method of Encoder calls Write::write_all (anchor moved)')
    return ('Complete cell->bytes tables of the %d Encoder methods were extracted from MIR by value-range analysis and compared '
            'term by term with the RFC 8949 preferred serialisation for all argument values at once.' % n_methods)


# ---------------------------------------------------------------------------
# S-ENC.wf: every built-in Encode impl writes exactly one item tree; iterator adapters are balanced

import re
from . import summaries
from .derive_rules import parse_tree, fmt_items


def wellformed(ctx, prog):
    ctx.rules_run.append('S-ENC.wf: the emission summary of every built-in Encode impl is exactly one well-formed item tree (header counts = children, begin/break balanced)')
    impls = [i for i in prog.impls if i['trait'] == 'minicbor::encode::Encode' and i['krate'] == 'minicbor']
    n = 0
    for i in impls:
        t = i['self_ty']
        ep = i['trait_ref'] + '::encode'
        r = summaries.summary(prog, ep, 'enc')
        where = mir.loc(i['sp'])
        if r is None or r[0] == 'abort':
            ctx.fail_closed('S-ENC.wf', '%s: encode not summarised (%s)' % (t, r[1] if r else 'missing'))
            continue
        inst, outs, m = r
        for o in outs:
            if o.kind != 'return' or l1.result_kind(o.value) != 'Ok':
                continue
            ev = [e for e in o.st.events if e[0] in ('ITEM', 'REP_BEGIN', 'REP_END')]
            key = '%s|%s' % (t, ','.join('%s=%s' % kv for kv in sorted(summaries.choices(o.st).items())) or 'all')
            n += 1
            if t in ('minicbor::data::token::Token<\'_>', 'minicbor::data::Tag', 'minicbor::data::IanaTag'):
                # tokens and bare tags are one head by design (a tag annotates the item that follows), not one item
                if len([e for e in ev if e[0] == 'ITEM']) == 1:
                    ctx.ok('S-ENC.wf', key)
                else:
                    ctx.violation('S-ENC.wf', key, 'a token writes %s' % fmt_items(ev), where)
                continue
            j, why = parse_tree(ev, 0)
            if j is None:
                ctx.violation('S-ENC.wf', key + '|malformed', 'emission %s is not one well-formed item: %s' % (fmt_items(ev)[:200], why), where)
            elif j != len(ev):
                ctx.violation('S-ENC.wf', key + '|extra', 'emission %s continues after a complete item (more than one item / unbalanced header)' % fmt_items(ev)[:200], where)
            else:
                ctx.ok('S-ENC.wf', key)
            # S-ENC.coll: a definite header whose count is the length of a collection is followed by that collection's own
            # iteration: "the value given" for a sequence is its elements in its order, not some other traversal
            for a, b in zip(ev, ev[1:]):
                if a[0] == 'ITEM' and a[1] in ('ARRAY', 'MAP') and b[0] == 'REP_BEGIN' and not (isinstance(a[2], Int) and a[2].is_const()):
                    cnt = repr(a[2])
                    mm = re.match(r'^<?len\((.*)\)>?$', cnt) or re.match(r'^<?(.*)\.len>?$', cnt)
                    announced = mm.group(1) if mm else cnt
                    it = str(b[1])
                    while True:
                        m2 = re.match(r'^(?:iter|into_iter|iter_mut)\((.*)\)$', it)
                        if not m2:
                            break
                        it = m2.group(1)
                    norm = lambda x: x.rstrip('*').lstrip('&')
                    if (mm and norm(it) == norm(announced)) or (cnt.strip('<>').startswith('const:') and norm(it) == 'self'):
                        # (a const generic N announced for `[T; N]` iterated whole is its length by type)
                        ctx.ok('S-ENC.coll', key)
                    elif t in ('minicbor::encode::ArrayIter<I>', 'minicbor::encode::MapIter<I>'):
                        ctx.ok('S-ENC.coll', key + '|iter-adapter', nontrivial=False)      # S-ENC.iter below
                    else:
                        ctx.violation('S-ENC.coll', key, 'the header announces %s but the elements written come from the traversal `%s`: for a sequence the value given is its elements in its own order' % (cnt, b[1]), where)
    ctx.floor('S-ENC.wf', 'impls', len(impls), 95 if prog.feature('std') else (85 if prog.feature('alloc') else 75))
    # iterator adapters: definite header only under an exact size hint; otherwise begin .. break
    for t in ('minicbor::encode::ArrayIter<I>', 'minicbor::encode::MapIter<I>'):
        r = summaries.summary(prog, '<%s as minicbor::encode::Encode<C>>::encode' % t, 'enc')
        if r is None or r[0] == 'abort':
            ctx.fail_closed('S-ENC.iter', '%s not summarised' % t)
            continue
        inst, outs, m = r
        where = mir.loc(inst['sp'])
        for o in outs:
            if o.kind != 'return' or l1.result_kind(o.value) != 'Ok':
                continue
            items = [e[1:] for e in o.st.events if e[0] == 'ITEM']
            kn = o.st.extra.get('known') or {}
            # the path has established lower bound == upper bound of the size hint (whichever way the code compares them)
            exact = [1 for k, v in kn.items() if k.count('size_hint') >= 2 and ((k.lower().startswith('eq(') and v == 1) or (k.startswith('Ne(') and v == 0))] or \
                    [v for k, v in kn.items() if k.startswith('eq(') and 'size_hint' in k]
            head = items[0] if items else None
            if head is None:
                ctx.violation('S-ENC.iter', t + '|empty', 'nothing is written', where)
                continue
            if head[0] in ('ARRAY', 'MAP'):
                if exact == [1] and 'size_hint' in repr(head[1]):
                    ctx.ok('S-ENC.iter', t + '|definite')
                else:
                    ctx.violation('S-ENC.iter', t + '|definite-without-exact-hint', 'a definite-length header %r is written on a path that has not established lower bound == upper bound of size_hint() (facts on the path: %s)' % (head[1], sorted(kn.items()) or 'none'), where)
                if ('BREAK',) in items:
                    ctx.violation('S-ENC.iter', t + '|break-after-definite', 'a break follows a definite-length container', where)
            elif head[0] == 'BEGIN':
                if items[-1] == ('BREAK',) and items.count(('BREAK',)) == 1:
                    ctx.ok('S-ENC.iter', t + '|indefinite')
                else:
                    ctx.violation('S-ENC.iter', t + '|unbalanced', 'indefinite container without exactly one closing break: %s' % (items,), where)


_run1 = run


# IANA "CBOR Tags" registry entries that minicbor names (RFC 8949 section 3.4, RFC 8746 typed arrays / multi-dimensional arrays)
IANA = {
    'DateTime': 0, 'Timestamp': 1, 'PosBignum': 2, 'NegBignum': 3, 'Decimal': 4, 'Bigfloat': 5,
    'ToBase64Url': 21, 'ToBase64': 22, 'ToBase16': 23, 'Cbor': 24, 'Uri': 32, 'Base64Url': 33, 'Base64': 34, 'Regex': 35, 'Mime': 36,
    'MultiDimArrayR': 40, 'HomogenousArray': 41,
    'TypedArrayU8': 64, 'TypedArrayU16B': 65, 'TypedArrayU32B': 66, 'TypedArrayU64B': 67, 'TypedArrayU8Clamped': 68,
    'TypedArrayU16L': 69, 'TypedArrayU32L': 70, 'TypedArrayU64L': 71,
    'TypedArrayI8': 72, 'TypedArrayI16B': 73, 'TypedArrayI32B': 74, 'TypedArrayI64B': 75,
    'TypedArrayI16L': 77, 'TypedArrayI32L': 78, 'TypedArrayI64L': 79,
    'TypedArrayF16B': 80, 'TypedArrayF32B': 81, 'TypedArrayF64B': 82, 'TypedArrayF128B': 83,
    'TypedArrayF16L': 84, 'TypedArrayF32L': 85, 'TypedArrayF64L': 86, 'TypedArrayF128L': 87,
    'MultiDimArrayC': 1040,
}


def iana_tags(ctx, prog):
    """the data-model value of an `IanaTag` is its registered number: `Encode for IanaTag`, interpreted per variant, writes it"""
    from . import summaries
    from .. import l2
    ctx.rules_run.append('T-IANA: Encode for IanaTag, interpreted for every variant, writes exactly one tag head carrying the number the IANA registry (RFC 8949 3.4, RFC 8746) assigns to that name')
    path = '<minicbor::data::IanaTag as minicbor::encode::Encode<C>>::encode'
    r = summaries.summary(prog, path, 'enc')
    if not r or isinstance(r[0], str):
        ctx.fail_closed('T-IANA', 'Encode for IanaTag cannot be summarised: %s' % (r[1] if r else 'anchor missing'))
        return
    inst, outs = r[0], r[1]
    where = mir.loc(inst['sp'])
    ad = prog.adts.get('minicbor::data::IanaTag')
    names = [v['name'] for v in ad['variants']] if ad else []
    seen = {}
    for o in outs:
        if o.kind != 'return':
            continue
        v = summaries.choices(o.st).get('self*')
        items = l2.items_of(o.st.events)
        seen.setdefault(v, []).append(items)
    n = 0
    for name in names:
        want = IANA.get(name)
        got = seen.get(name)
        n += 1
        if want is None:
            ctx.violation('T-IANA', name + '|unknown', 'IanaTag::%s is not in the reference copy of the registry (add it after checking the IANA number)' % name, where)
        elif not got or any(len(it) != 1 or it[0][0] != 'TAG' or repr(it[0][1]) != str(want) for it in got):
            ctx.violation('T-IANA', name, 'IanaTag::%s is written as %s; the registry assigns tag %d' % (name, [tables.fmt_stream(x) if hasattr(tables, "fmt_stream") else x for x in (got or [])], want), where)
        else:
            ctx.ok('T-IANA', name)
    ctx.floor('T-IANA', 'variants', n, 41)


LOSSLESS_VIEWS = {
    # projections / views of a value that lose nothing of it (std contracts); anything else between `self` and the bytes written
    # is reported for review (a lossy conversion such as to_string_lossy writes a well-formed item for *another* value)
    'as_c_str', 'as_path', 'as_os_str', 'ip', 'port', 'octets', 'segments', 'to_bytes_with_nul', 'to_bytes', 'as_bytes', 'as_str', 'to_str',
    'as_ref', 'as_mut', 'deref', 'deref_mut', 'borrow', 'as_slice', 'as_ptr', 'unwrap', 'expect', 'get', 'get_ref', 'as_inner', 'into_inner',
    'elem', 'len', 'clone', 'copied', 'cloned', 'to_owned', 'into', 'from', 'as_encoded_bytes', 'to_be_bytes', 'to_bits', 'secs', 'as_secs',
    'subsec_nanos', 'duration_since', 'start', 'end', 'load', 'try_borrow', 'as_deref', 'iter', 'into_iter', 'slice', 'input',
}


def value_fidelity(ctx, prog):
    """the data-model value written is the value given: string payloads reach the encoder through lossless views of `self` only"""
    import re as _re
    from . import summaries
    from .. import l2
    ctx.rules_run.append('S-ENC.value: the payload of every text / byte string item a built-in Encode impl writes is `self` seen through lossless views only (as_ref, to_str, octets, to_bytes_with_nul, ..); a conversion that is not in the reviewed list is reported')
    n = 0
    seen = set()
    for im in prog.impls:
        if im['trait'] != 'minicbor::encode::Encode' or im['krate'] != 'minicbor':
            continue
        ty = im['self_ty']
        if ty in seen:
            continue
        seen.add(ty)
        r = summaries.summary(prog, '<%s as minicbor::encode::Encode<C>>::encode' % ty, 'enc')
        if not r or isinstance(r[0], str):
            continue
        inst, outs = r[0], r[1]
        bad = set()
        k = 0
        for o in outs:
            for it in l2.items_of(o.st.events):
                if it[0] not in ('STR', 'BYTES'):
                    continue
                k += 1
                for fn in _re.findall(r'([A-Za-z_][A-Za-z0-9_:]*)\(', str(it[1])):
                    if fn.split('::')[-1] not in LOSSLESS_VIEWS:
                        bad.add(fn)
        n += k
        if bad:
            ctx.violation('S-ENC.value', '%s|%s' % (ty, sorted(bad)[0]), 'Encode for %s writes a string that went through %s, which is not a reviewed lossless view of the value: the item written may describe another value than the one given' % (ty, ', '.join(sorted(bad))), mir.loc(inst['sp']))
        elif k:
            ctx.ok('S-ENC.value', ty)
    ctx.floor('S-ENC.value', 'string items', n, 10)


def run(ctx):
    expl = _run1(ctx)
    wellformed(ctx, load.program('core-full'))
    iana_tags(ctx, load.program('core-full'))
    value_fidelity(ctx, load.program('core-full'))
    return expl + ' Item-level emission summaries of all built-in Encode impls parse as exactly one item tree.'
