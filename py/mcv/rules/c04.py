import re
"""C04 - typed decoding agrees with the RFC 8949 data model (DESIGN 5.4)."""
from ..absint import Int, Adt, Atom, Slice, Tup, Ref, iv_and, iv_sub, iv_str, iv_min, iv_max, Abort, ty_range
from .. import load, tables, mir, l1
from .. import absint as _absint
from . import acc, intdec
from .acc import is_int, is_some_arg, is_none, is_unit
from ..prims import OPTION, norm_adt

DEC = l1.DEC


def within(a, s):
    """'all' / 'none' / 'some' of interval set a lies in s"""
    i = iv_and(a, s)
    if not i:
        return 'none'
    if not iv_sub(a, s):
        return 'all'
    return 'some'


def const_val(c):
    def chk(v, d, r):
        if v is None:
            return 'error'
        if isinstance(v, Int) and v.is_const() and v.c == c:
            return None
        return 'returns %r, expected %r' % (v, c)
    return chk


def simple7(values, chk):
    """ref for one-byte major-7 items whose additional info is in `values`"""
    def ref(major, w, d, r):
        if major == 7 and w == 0:
            rel = within(d['argset'], values)
            if rel == 'all':
                return ('ok', chk if not callable(chk) or chk.__code__.co_argcount == 3 else chk(d), None)
            if rel == 'none':
                return ('err',)
            return ('mixed',)
        return ('err',)
    return ref


def ref_bool(major, w, d, r):
    if major == 7 and w == 0:
        a = d['argset']
        if within(a, ((20, 20),)) == 'all':
            return ('ok', const_val(0), None)
        if within(a, ((21, 21),)) == 'all':
            return ('ok', const_val(1), None)
        if within(a, ((20, 21),)) == 'none':
            return ('err',)
        return ('mixed',)
    return ('err',)


def ref_simple(major, w, d, r):
    if major == 7 and w == 0:
        rel = within(d['argset'], ((0, 19),))
        if rel == 'all':
            return ('ok', is_int(lambda dd: dd['arg']), None)
        if within(d['argset'], ((20, 23),)) == 'all':
            return ('any',)
        return ('mixed',) if rel == 'some' else ('err',)
    if major == 7 and w == 1:
        return ('ok', is_int(lambda dd: dd['arg']), None)
    return ('err',)


def tag_val(v, d, r):
    if v is None:
        return 'error'
    if isinstance(v, Adt) and v.adt.endswith('data::Tag') and v.fields[0] == d['arg']:
        return None
    return 'returns %r, expected Tag(%r)' % (v, d['arg'])


def ref_tag(major, w, d, r):
    if major == 6 and w in (0, 1, 2, 4, 8):
        return ('ok', tag_val, None)
    return ('err',)


def ref_container(mj):
    def ref(major, w, d, r):
        if major == mj and w in (0, 1, 2, 4, 8):
            return ('ok', is_some_arg, None)
        if major == mj and w == 'indef':
            return ('ok', is_none, None)
        return ('err',)
    return ref


def bytes_val(v, d, r):
    if v is None:
        return 'error'
    if isinstance(v, Slice) and isinstance(v.data, str) and v.data.startswith('input@') and v.len == d['arg']:
        return None
    if isinstance(v, Atom) and 'input@' in v.name:
        return None
    return 'returns %r, expected the input sub-slice of length %r' % (v, d['arg'])


def str_val(v, d, r):
    if v is None:
        return 'ERR-OK' if r.value == 'Utf8' else 'error %s' % r.value
    if not any(e[0] == 'UTF8CHECK' for e in r.events):
        return 'text returned without UTF-8 validation'
    if isinstance(v, Slice) and isinstance(v.data, str) and v.data.startswith('utf8(input@') and v.len == d['arg']:
        return None
    return 'returns %r, expected the validated input sub-slice of length %r' % (v, d['arg'])


def ref_bytes(major, w, d, r):
    if major == 2 and w in (0, 1, 2, 4, 8):
        return ('ok', bytes_val, 'slice')
    return ('err',)


def ref_str(major, w, d, r):
    if major == 3 and w in (0, 1, 2, 4, 8):
        return ('ok', str_val, 'slice')
    return ('err',)


def iter_len(field_some):
    def chk(v, d, r):
        if v is None:
            return 'error'
        if isinstance(v, Adt) and len(v.fields) >= 2:
            ln = v.fields[1]
            if field_some and isinstance(ln, Adt) and ln.variant == 1 and ln.fields[0] == d['arg']:
                return None
            if not field_some and isinstance(ln, Adt) and ln.variant == 0:
                return None
        return 'returns %r' % (v,)
    return chk


def ref_chunks(mj):
    def ref(major, w, d, r):
        if major == mj and w in (0, 1, 2, 4, 8):
            return ('ok', iter_len(True), None)
        if major == mj and w == 'indef':
            return ('ok', iter_len(False), None)
        return ('err',)
    return ref


def float_val(expr):
    def chk(v, d, r):
        if v is None:
            return 'error'
        want = expr % {'arg': repr(d['arg'])}
        if isinstance(v, Atom) and v.name == want:
            return None
        return 'returns %r, expected %s' % (v, want)
    return chk


F16 = 'f16::to_f32(f16::from_bits(%(arg)s))'
F32 = 'f32::from_bits(%(arg)s)'
F64 = 'f64::from_bits(%(arg)s)'


def ref_float(widths):
    def ref(major, w, d, r):
        if major == 7 and w in widths:
            return ('ok', float_val(widths[w]), None)
        return ('err',)
    return ref


EXPECTED_TYPES = {0: {0: 'U8', 1: 'U8', 2: 'U16', 4: 'U32', 8: 'U64'},
                  1: {0: ('I8',), 1: ('I8', 'I16'), 2: ('I16', 'I32'), 4: ('I32', 'I64'), 8: ('I64', 'Int')},
                  2: {0: 'Bytes', 1: 'Bytes', 2: 'Bytes', 4: 'Bytes', 8: 'Bytes', 'indef': 'BytesIndef'},
                  3: {0: 'String', 1: 'String', 2: 'String', 4: 'String', 8: 'String', 'indef': 'StringIndef'},
                  4: {0: 'Array', 1: 'Array', 2: 'Array', 4: 'Array', 8: 'Array', 'indef': 'ArrayIndef'},
                  5: {0: 'Map', 1: 'Map', 2: 'Map', 4: 'Map', 8: 'Map', 'indef': 'MapIndef'},
                  6: {0: 'Tag', 1: 'Tag', 2: 'Tag', 4: 'Tag', 8: 'Tag'},
                  7: {1: 'Simple', 2: 'F16', 4: 'F32', 8: 'F64', 'indef': 'Break'}}


def check_datatype(ctx, prog):
    from .c05 import type_rows
    tr = type_rows(prog)
    if tr is None:
        ctx.fail_closed('T-TYPE', 'Decoder::datatype not found')
        return
    inst, rows = tr
    where = mir.loc(inst['sp'])
    n = 0
    for b0, pks, ty, r in rows:
        if b0 is None:
            if ty != 'Err:EndOfInput':
                ctx.violation('T-TYPE.eoi', 'datatype|empty', 'exhausted input yields %s' % ty, where)
            continue
        if r.consumed():
            ctx.violation('T-TYPE.peek', 'datatype', 'datatype() consumes input: %r' % r.consumed(), where)
        for part, base, major, w in intdec.split_by_class(b0):
            n += 1
            key = 'datatype|%s' % iv_str(part)
            if w == 'bad':
                exp = 'Unknown'
            else:
                exp = EXPECTED_TYPES.get(major, {}).get(w, 'Unknown')
            if major == 7 and w == 0:
                a = tuple((x - base, y - base) for x, y in part)
                if within(a, ((0, 19),)) == 'all':
                    exp = 'Simple'
                elif within(a, ((20, 21),)) == 'all':
                    exp = 'Bool'
                elif a == ((22, 22),):
                    exp = 'Null'
                elif a == ((23, 23),):
                    exp = 'Undefined'
                else:
                    exp = 'MIXED'
            if ty == 'Err:EndOfInput' and major == 1 and w in (1, 2, 4, 8) and pks is None:
                ctx.ok('T-TYPE', key + '|eoi', nontrivial=False)
                continue
            if isinstance(exp, tuple):
                good = ty in exp
            else:
                good = (ty == exp)
            if good:
                ctx.ok('T-TYPE', key + '|' + ty)
            else:
                ctx.violation('T-TYPE', 'datatype|major%d' % major, 'initial byte %s is classified as %s, RFC 8949 major type %d / info gives %s' % (iv_str(part), ty, major, exp), where)
    ctx.floor('T-TYPE', 'cells', n, 40)


def run(ctx):
    prog = load.program('core-full')
    ctx.rules_run.append('T-DEC: accept/value/consumption table of every typed accessor vs the RFC 8949 data model; end-of-input discipline')
    specs = [
        ('bool', ref_bool), ('null', simple7(((22, 22),), is_unit)), ('undefined', simple7(((23, 23),), is_unit)),
        ('simple', ref_simple), ('tag', ref_tag), ('array', ref_container(4)), ('map', ref_container(5)),
        ('bytes', ref_bytes), ('str', ref_str), ('bytes_iter', ref_chunks(2)), ('str_iter', ref_chunks(3)),
    ]
    if prog.feature('half'):
        specs += [('f16', ref_float({2: F16})),
                  ('f32', ref_float({2: F16, 4: F32})),
                  ('f64', ref_float({2: 'f64::from(' + F16 + ')', 4: 'f64::from(' + F32 + ')', 8: F64}))]
    else:
        # documented difference: without `half` a half-precision item is a type error and f16() does not exist
        specs += [('f32', ref_float({4: F32})), ('f64', ref_float({4: 'f64::from(' + F32 + ')', 8: F64}))]
    roots = 0
    for name, ref in specs:
        def ref2(major, w, d, r, ref=ref):
            e = ref(major, w, d, r)
            return e
        try:
            acc.check_accessor(ctx, 'T-DEC', name, prog, DEC + name, wrap_mixed(ctx, name, ref))
            roots += 1
        except Abort as e:
            ctx.fail_closed('T-DEC', 'Decoder::%s cannot be summarised: %s' % (name, e))
    # integer accessors (shared with C05)
    from .c05 import INT_ACCESSORS, FULL, int_value
    for a in INT_ACCESSORS:
        intdec.check_int_accessor(ctx, 'T-DEC', a, prog, DEC + a, ty_range(a))
        roots += 1
    intdec.check_int_accessor(ctx, 'T-DEC', 'int', prog, DEC + 'int', FULL, value_of=int_value)
    intdec.check_int_accessor(ctx, 'T-DEC', 'char', prog, DEC + 'char', ty_range('char'))
    roots += 2
    ctx.floor('T-DEC', 'accessor roots', roots, 24 if prog.feature('half') else 23)
    ctx.rules_run.append('T-TYPE: datatype() classification of all 256 initial bytes (+ peek split) vs RFC 8949 major types; no consumption')
    check_datatype(ctx, prog)
    return 'Complete (initial byte x argument) tables of %d accessors extracted from MIR and compared with the RFC 8949 data model.' % roots


def wrap_mixed(ctx, name, ref):
    def f(major, w, d, r):
        e = ref(major, w, d, r)
        if e[0] == 'mixed':
            ctx.violation('T-DEC.mixed', '%s|mixed' % name, 'initial bytes %s with different meanings are handled by one arm' % iv_str(d['part']))
            return ('any',)
        return e
    return f


# ---------------------------------------------------------------------------
# T-ITER: step function of the array / map iterators (item level)

ITERS = [("<minicbor::decode::decoder::ArrayIter<'_, '_, T> as std::iter::Iterator>::next", 1),
         ("<minicbor::decode::decoder::ArrayIterWithCtx<'_, '_, C, T> as std::iter::Iterator>::next", 1),
         ("<minicbor::decode::decoder::MapIter<'_, '_, K, V> as std::iter::Iterator>::next", 2),
         ("<minicbor::decode::decoder::MapIterWithCtx<'_, '_, C, K, V> as std::iter::Iterator>::next", 2)]


def t_iter(ctx, prog):
    """one call of next() from an arbitrary remaining length and next item"""
    from .. import l1, l2
    from ..absint import State, Adt, Ref
    from ..prims import some, NONE, OPTION, RESULT, norm_adt
    ctx.rules_run.append('T-ITER: one next() of ArrayIter/MapIter(+WithCtx) from an arbitrary remaining length x next item: definite counts down once per element and ends at 0 without consuming; indefinite ends exactly on the break byte (consumed); running out of input is reported as Some(Err(end of input)), never as the end of the sequence')
    n = 0
    for path, per in ITERS:
        inst = prog.one(path)
        if inst is None:
            ctx.fail_closed('T-ITER', 'anchor missing: %s' % path)
            continue
        where = mir.loc(inst['sp'])
        short = path.split('decoder::')[1].split('<')[0]
        ad = prog.adts.get('minicbor::decode::decoder::' + short)
        if ad is None or 'len' not in ad['variants'][0]['fields']:
            ctx.fail_closed('T-ITER', '%s has no `len` field any more' % short)
            continue
        li = ad['variants'][0]['fields'].index('len')
        leaves = [('ITEM', 'ENC', 'T', 'e%d' % i) for i in range(per)]
        for lname, lenv, rng in (('None', NONE, None), ('Some(0)', some(Int.const(0)), None), ('Some(n>=1)', some(Int.sym('rem')), ((1, (1 << 64) - 1),))):
            for sname, stream in (('elements', leaves), ('break', [('ITEM', 'BREAK')]), ('eoi', []), ('half', leaves[:per - 1]) if per == 2 else ('eoi2', [])):
                key = '%s|len=%s|next=%s' % (short, lname, sname)
                st = State()
                if rng:
                    st.ranges['rem'] = rng
                    st.symty['rem'] = 'u64'
                st.extra['stream'] = tuple(stream)
                st.extra['cur'] = 0
                m = l2.L2Machine(prog, l2.decoder_overrides())
                body = inst['body']
                names = dict((l, nm) for l, nm in body['names'])
                args = [m.make_value(st, body['locals'][i], names.get(i, 'a%d' % i)) for i in range(1, body['argc'] + 1)]
                a0 = args[0]
                it = m.read_path(st, a0.key, a0.path)
                if not (isinstance(it, Adt) and len(it.fields) > li):
                    ctx.fail_closed('T-ITER', '%s: unexpected iterator value %r' % (short, it))
                    continue
                fs = list(it.fields)
                fs[li] = lenv
                m.write_path(st, a0.key, a0.path, Adt(it.adt, it.variant, fs))
                try:
                    outs = m.run(inst, args, st)
                except Abort as e:
                    ctx.fail_closed('T-ITER', '%s cannot be interpreted: %s' % (key, e))
                    continue
                n += 1
                # reference
                if lname == 'Some(0)':
                    want = ('end', 0, 'Some(0)')
                elif sname == 'elements':
                    want = ('item', per, 'None' if lname == 'None' else 'Some(rem + -1)')
                elif sname == 'break':
                    want = ('end', 1, 'None') if lname == 'None' else ('error', None, None)
                else:
                    want = ('eoi', None, None)
                good = True
                for o in outs:
                    if o.kind != 'return':
                        ctx.violation('T-ITER.total', key, 'path does not return: %s' % o.why, where)
                        good = False
                        continue
                    v = o.value
                    it2 = m.read_path(o.st, a0.key, a0.path)
                    ln = it2.fields[li] if isinstance(it2, Adt) else None
                    lns = 'None' if (isinstance(ln, Adt) and ln.variant == 0) else ('Some(%r)' % (ln.fields[0],) if isinstance(ln, Adt) else repr(ln))
                    if isinstance(v, Adt) and norm_adt(v.adt) == OPTION and v.variant == 0:
                        got = ('end', l2.cur(o.st), lns)
                    elif isinstance(v, Adt) and norm_adt(v.adt) == OPTION and isinstance(v.fields[0], Adt) and norm_adt(v.fields[0].adt) == RESULT:
                        r = v.fields[0]
                        if r.variant == 0:
                            got = ('item', l2.cur(o.st), lns)
                        else:
                            cls = l1.error_class(prog, r.fields[0])
                            got = ('eoi', None, None) if cls == 'EndOfInput' else ('error', None, None)
                    else:
                        got = ('other:%r' % (v,), None, None)
                    if got != want:
                        good = False
                        ctx.violation('T-ITER', key, 'next() with remaining length %s and next input %s: %s; expected %s' % (lname, sname, describe(got), describe(want)), where)
                if good:
                    ctx.ok('T-ITER', key)
    ctx.floor('T-ITER', 'step cases', n, 40)


def describe(t):
    k, c, ln = t
    return {'end': 'ends the sequence (None)', 'item': 'yields an element', 'eoi': 'reports the end-of-input error', 'error': 'reports an error'}.get(k, k) + (
        '' if c is None else ' after consuming %d item(s), remaining length -> %s' % (c, ln))


_run_acc = run


def run(ctx):
    r = _run_acc(ctx)
    t_iter(ctx, load.program('core-full'))
    return r


# ---------------------------------------------------------------------------
# T-IMPL.indef: built-in Decode impls over the indefinite-length re-framing of their own encoding

def expand_reps(events, k=2):
    """representative iterations -> k concrete elements; the header that announced the collection gets the constant k"""
    ev = [e for e in events if e[0] in ('ITEM', 'REP_BEGIN', 'REP_END')]
    out = []
    i = 0
    while i < len(ev):
        e = ev[i]
        if e[0] == 'REP_BEGIN':
            j = i + 1
            inner = []
            while j < len(ev) and ev[j][0] != 'REP_END':
                if ev[j][0] != 'ITEM':
                    return None      # nested representative iteration: not re-framed
                inner.append(ev[j])
                j += 1
            # the header is the closest preceding ARRAY/MAP item with a non-constant count
            for h in range(len(out) - 1, -1, -1):
                if out[h][0] == 'ITEM' and out[h][1] in ('ARRAY', 'MAP') and not (isinstance(out[h][2], Int) and out[h][2].is_const()):
                    out[h] = ('ITEM', out[h][1], Int.const(k))
                    break
            else:
                return None
            for c in range(k):
                for it in inner:
                    if it[1] == 'ENC':
                        out.append(('ITEM', 'ENC', it[2], '%s#%d' % (it[3], c)))
                    else:
                        out.append(it)
            i = j + 1
            continue
        out.append(e)
        i += 1
    return out


def t_impl_indef(ctx, prog):
    import json, os
    from .. import l1, l2
    from . import summaries
    from .derive_rules import reframe, fmt_items
    ctx.rules_run.append('T-IMPL.indef: every built-in Decode impl over its own encoding with the outermost definite array/map re-framed as indefinite-length (two concrete elements for collections): it either fails, or succeeds having consumed the whole item - break included - and read the components in order')
    enc = dict((i['self_ty'], i) for i in prog.impls if i['trait'] == 'minicbor::encode::Encode' and i['krate'] == 'minicbor')
    dec = dict((i['self_ty'], i) for i in prog.impls if i['trait'] == 'minicbor::decode::Decode' and i['krate'] == 'minicbor')
    n = 0
    accepted = 0
    for t in sorted(set(enc) & set(dec)):
        e = summaries.summary(prog, enc[t]['trait_ref'] + '::encode', 'enc')
        if e is None or e[0] == 'abort':
            continue
        where = mir.loc(dec[t]['sp'])
        for eo in e[1]:
            if eo.kind != 'return' or l1.result_kind(eo.value) != 'Ok':
                continue
            ev = expand_reps(eo.st.events)
            if ev is None:
                continue
            lead0 = 0
            while lead0 < len(ev) and ev[lead0][1] == 'TAG':
                lead0 += 1
            # every definite container the impl itself writes (the outermost one and nested ones such as the empty
            # array of Bound::Unbounded) is re-framed, one at a time
            leads = [i for i, x in enumerate(ev) if x[0] == 'ITEM' and x[1] in ('ARRAY', 'MAP') and isinstance(x[2], Int) and x[2].is_const()]
            for lead in leads:
                rf = reframe(ev, lead)
                if rf is None:
                    continue
                key = '%s|%s%s' % (t, ','.join('%s=%s' % kv for kv in sorted(summaries.choices(eo.st).items())) or 'all', '' if lead == lead0 else '|inner@%d' % lead)
                try:
                    r = l2.run_decode(prog, dec[t]['trait_ref'] + '::decode', rf, from_state=eo.st)
                except Abort as ex:
                    ctx.fail_closed('T-IMPL.indef', '%s: decode cannot be interpreted: %s' % (t, ex))
                    continue
                n += 1
                good = True
                want = [x[3] for x in rf if x[0] == 'ITEM' and x[1] == 'ENC']
                for o in r[1]:
                    if o.kind != 'return':
                        ctx.violation('T-IMPL.indef.total', key, 'path does not return: %s' % o.why, where)
                        good = False
                        continue
                    if l1.result_kind(o.value) != 'Ok':
                        continue
                    accepted += 1
                    if l2.cur(o.st) != len(l2.stream(o.st)):
                        rest = l2.stream(o.st)[l2.cur(o.st):]
                        good = False
                        ctx.violation('T-IMPL.indef', key + '|consumption', 'the indefinite-length form %s is accepted but %d item(s) are left unread (%s): the position is not at the end of the item' % (fmt_items(rf)[:100], len(rest), fmt_items(rest)[:60]), where)
                        continue
                    got = [x[3] for x in o.st.events if x[0] == 'DECODED']
                    if got != want:
                        good = False
                        ctx.violation('T-IMPL.indef', key + '|order', 'components are read as %s, the encoding has %s' % (got, want), where)
                if good:
                    ctx.ok('T-IMPL.indef', key)
    ctx.count('T-IMPL.indef.accepting_paths', accepted)
    ctx.floor('T-IMPL.indef', 're-framed encodings', n, 30)


_run_iter = run


def run(ctx):
    r = _run_iter(ctx)
    t_impl_indef(ctx, load.program('core-full'))
    return r


# ---------------------------------------------------------------------------
# T-CHUNK: step function of the string chunk iterators (byte level)

CHUNK_ITERS = [("<minicbor::decode::decoder::BytesIter<'_, '_> as std::iter::Iterator>::next", 'BytesIter', 2),
               ("<minicbor::decode::decoder::StrIter<'_, '_> as std::iter::Iterator>::next", 'StrIter', 3)]


def t_chunk(ctx, prog):
    """one next() of BytesIter / StrIter from every iterator state, at the byte level (the checked input primitives fork on
    exhaustion): the sequence ends (None) only after a definite string was handed out or on a consumed break byte; a chunk is
    a *definite* string of the same major type whose head and payload are consumed exactly; running out of input anywhere is
    Some(Err(end of input)) - never the end of the sequence, never another class."""
    from .. import l1
    from ..absint import State, Adt
    from ..prims import some, NONE, OPTION, RESULT, norm_adt
    ctx.rules_run.append('T-CHUNK: one next() of BytesIter/StrIter from each state (indefinite / definite pending / done) x every next byte x exhaustion: '
                         'None only after the definite payload or on a consumed break; chunks are definite strings of the same major type, consumed exactly; '
                         'exhaustion is Some(Err(end of input))')
    n = 0
    for path, short, major in CHUNK_ITERS:
        inst = prog.one(path)
        if inst is None:
            ctx.fail_closed('T-CHUNK', 'anchor missing: %s' % path)
            continue
        where = mir.loc(inst['sp'])
        ad = prog.adts.get('minicbor::decode::decoder::' + short)
        if ad is None or 'len' not in ad['variants'][0]['fields']:
            ctx.fail_closed('T-CHUNK', '%s has no `len` field any more' % short)
            continue
        li = ad['variants'][0]['fields'].index('len')
        for lname, lenv, rng in (('None', NONE, None), ('Some(0)', some(Int.const(0)), None), ('Some(n>=1)', some(Int.sym('rem')), ((1, (1 << 63) - 1),))):
            m = l1.decoder_machine(prog)
            st = State()
            if rng:
                st.ranges['rem'] = rng
                st.symty['rem'] = 'usize'
            body = inst['body']
            names = dict((l, nm) for l, nm in body['names'])
            args = [m.make_value(st, body['locals'][i], names.get(i, 'a%d' % i)) for i in range(1, body['argc'] + 1)]
            a0 = args[0]
            it = m.read_path(st, a0.key, a0.path)
            if not (isinstance(it, Adt) and len(it.fields) > li):
                ctx.fail_closed('T-CHUNK', '%s: unexpected iterator value %r' % (short, it))
                continue
            fs = list(it.fields)
            fs[li] = lenv
            m.write_path(st, a0.key, a0.path, Adt(it.adt, it.variant, fs))
            try:
                outs = m.run(inst, args, st)
            except Abort as e:
                ctx.fail_closed('T-CHUNK', '%s (len=%s) cannot be interpreted: %s' % (short, lname, e))
                continue
            seen_chunk = seen_end = False
            for o in outs:
                n += 1
                r = tables.DRow(prog, o)
                if o.kind != 'return':
                    ctx.violation('T-CHUNK.total', '%s|len=%s' % (short, lname), 'path does not return: %s' % o.why, where)
                    continue
                v = o.value
                it2 = m.read_path(o.st, a0.key, a0.path)
                ln = it2.fields[li] if isinstance(it2, Adt) else None
                lns = 'None' if (isinstance(ln, Adt) and ln.variant == 0) else ('Some(%r)' % (ln.fields[0],) if isinstance(ln, Adt) and ln.fields else repr(ln))
                cons = r.consumed()
                eoi = r.eoi()
                cell = r.cell()
                key = '%s|len=%s|%s' % (short, lname, cell or ('eoi' if eoi else '-'))
                is_none = isinstance(v, Adt) and norm_adt(v.adt) == OPTION and v.variant == 0
                inner = v.fields[0] if isinstance(v, Adt) and norm_adt(v.adt) == OPTION and v.variant == 1 else None
                is_ok = isinstance(inner, Adt) and norm_adt(inner.adt) == RESULT and inner.variant == 0
                is_err = isinstance(inner, Adt) and norm_adt(inner.adt) == RESULT and inner.variant == 1
                cls = l1.error_class(prog, inner.fields[0]) if is_err else None
                if eoi:
                    if is_err and cls == 'EndOfInput':
                        ctx.ok('T-CHUNK', key + '|eoi')
                    else:
                        ctx.violation('T-CHUNK', '%s|len=%s|eoi' % (short, lname), 'the input ends inside the string (%s) and next() %s; expected Some(Err(end of input)): a strict prefix must not be accepted'
                                      % (eoi[0][1], 'ends the sequence (None)' if is_none else ('yields a chunk' if is_ok else 'reports ' + str(cls))), where)
                    continue
                if is_err and cls == 'EndOfInput':
                    ctx.violation('T-CHUNK', key + '|spurious-eoi', 'end-of-input error although no read failed', where)
                    continue
                if lname == 'Some(0)':
                    if is_none and not cons and lns == 'Some(0)':
                        ctx.ok('T-CHUNK', key)
                        seen_end = True
                    else:
                        ctx.violation('T-CHUNK', '%s|done' % short, 'after the definite payload was handed out next() %s (consumed %r, len -> %s); expected None without consuming' % ('returns None' if is_none else 'yields again', cons, lns), where)
                    continue
                if lname == 'Some(n>=1)':
                    want = [('READSLICE', Int.sym('rem'))]
                    if (is_ok or (is_err and cls == 'Utf8' and major == 3)) and cons == want and lns == 'Some(0)':
                        ctx.ok('T-CHUNK', key + ('|ok' if is_ok else '|utf8'))
                        seen_chunk = seen_chunk or is_ok
                    else:
                        ctx.violation('T-CHUNK', '%s|definite' % short, 'definite string of n bytes pending: next() %s consuming %r, len -> %s; expected the n payload bytes as one chunk and len -> Some(0)'
                                      % ('ends the sequence' if is_none else ('yields a chunk' if is_ok else 'reports ' + str(cls)), cons, lns), where)
                    continue
                # indefinite: dispatch on the next byte
                ds = list(acc.decomp(r))
                if not ds:
                    ctx.violation('T-CHUNK', key + '|shape', 'cannot relate the consumption %r to an initial byte' % (cons,), where)
                    continue
                for d in ds:
                    part, mj, w = d['part'], d['major'], d['w']
                    k2 = '%s|indef|ib=%s' % (short, iv_str(part))
                    if lns != 'None':
                        ctx.violation('T-CHUNK', k2 + '|len', 'the iterator leaves indefinite mode (len -> %s)' % lns, where)
                        continue
                    if mj == 7 and w == 'indef':     # break
                        if is_none and cons == [('READ1', d['b0'])]:
                            ctx.ok('T-CHUNK', k2 + '|break')
                            seen_end = True
                        else:
                            ctx.violation('T-CHUNK', '%s|break' % short, 'on the break byte next() %s having consumed %r; expected None with exactly the break consumed' % ('returns None' if is_none else 'does not end the sequence', cons), where)
                        continue
                    if is_none:
                        ctx.violation('T-CHUNK', k2 + '|early-end', 'the sequence ends on initial byte %s, which is not the break' % iv_str(part), where)
                        continue
                    if mj == major and w in (0, 1, 2, 4, 8):
                        if is_err and not d.get('truncated'):
                            if major == 3 and cls == 'Utf8':
                                ctx.ok('T-CHUNK', k2 + '|utf8', nontrivial=False)
                            elif cls == 'Overflow' and w == 8 and _absint.PTR_BITS < 64 and (not d.get('argset') or iv_min(d['argset']) > (1 << _absint.PTR_BITS) - 1):
                                # 8-byte length on a 32-bit target: lengths >= 2^32 do not fit usize (shorter ones are the Ok rows)
                                ctx.ok('T-CHUNK', k2 + '|usize', nontrivial=False)
                            else:
                                ctx.violation('T-CHUNK', k2 + '|rejected', 'a definite chunk %s is rejected with %s' % (iv_str(part), cls), where)
                            continue
                        rest = d.get('rest') or []
                        if is_ok and d['arg'] is not None and len(rest) == 1 and rest[0][0] == 'READSLICE' and rest[0][1] == d['arg']:
                            ctx.ok('T-CHUNK', k2 + '|chunk')
                            seen_chunk = True
                        else:
                            ctx.violation('T-CHUNK', k2 + '|consumption', 'chunk with head %s: consumed %r; expected the head and exactly the announced payload' % (iv_str(part), cons), where)
                        continue
                    # anything else (other major type, nested indefinite string, reserved info) is not a valid chunk
                    if is_ok:
                        ctx.violation('T-CHUNK', k2 + '|accepted', 'initial byte %s is accepted as a chunk of an indefinite %s string' % (iv_str(part), 'text' if major == 3 else 'byte'), where)
                    else:
                        ctx.ok('T-CHUNK', k2 + '|rejected', nontrivial=False)
            if lname != 'Some(0)' and not seen_chunk:
                ctx.violation('T-CHUNK', '%s|len=%s|nochunk' % (short, lname), 'no path yields a chunk', where)
            if lname != 'Some(n>=1)' and not seen_end:
                ctx.violation('T-CHUNK', '%s|len=%s|noend' % (short, lname), 'no path ends the sequence', where)
    ctx.floor('T-CHUNK', 'step paths', n, 100)


_run_impl = run


def run(ctx):
    r = _run_impl(ctx)
    t_chunk(ctx, load.program('core-full'))
    return r


# ---------------------------------------------------------------------------
# T-IMPL.eoi: built-in Decode impls over every strict prefix (at item granularity) of their own encoding

def t_impl_eoi(ctx, prog):
    from .. import l1, l2
    from . import summaries
    from .derive_rules import fmt_items
    ctx.rules_run.append('T-IMPL.eoi: every built-in Decode impl over every strict prefix of its own encoding cut between items (collections with two concrete elements): '
                         'every path is an error of the end-of-input class - never a value, never another class (cuts inside an item are the accessor tables, T-DEC.eoi)')
    enc = dict((i['self_ty'], i) for i in prog.impls if i['trait'] == 'minicbor::encode::Encode' and i['krate'] == 'minicbor')
    dec = dict((i['self_ty'], i) for i in prog.impls if i['trait'] == 'minicbor::decode::Decode' and i['krate'] == 'minicbor')
    n = 0
    for t in sorted(set(enc) & set(dec)):
        e = summaries.summary(prog, enc[t]['trait_ref'] + '::encode', 'enc')
        if e is None or e[0] == 'abort':
            continue
        where = mir.loc(dec[t]['sp'])
        for eo in e[1]:
            if eo.kind != 'return' or l1.result_kind(eo.value) != 'Ok':
                continue
            ev = expand_reps(eo.st.events)
            if ev is None:
                continue
            base = '%s|%s' % (t, ','.join('%s=%s' % kv for kv in sorted(summaries.choices(eo.st).items())) or 'all')
            fst = eo.st.clone()
            for sy in list(fst.ranges):
                if sy.startswith('const:'):
                    fst.ranges[sy] = ((2, 2),)     # `[T; N]`: the two concrete elements of the expansion are the whole array
            for k in range(len(ev)):
                try:
                    r = l2.run_decode(prog, dec[t]['trait_ref'] + '::decode', ev[:k], from_state=fst)
                except Abort as ex:
                    ctx.fail_closed('T-IMPL.eoi', '%s: decode cannot be interpreted on a prefix: %s' % (t, ex))
                    break
                n += 1
                key = '%s|cut@%d' % (base, k)
                bad = None
                for o in r[1]:
                    if o.kind != 'return':
                        bad = 'a path does not return (%s)' % o.why
                        break
                    if l1.result_kind(o.value) == 'Ok':
                        bad = 'a value is returned'
                        break
                    cls = l1.error_class(prog, o.value.fields[0]) if isinstance(o.value, Adt) and o.value.fields else '?'
                    if cls != 'EndOfInput':
                        bad = 'the error class is %s' % cls
                        break
                if bad:
                    ctx.violation('T-IMPL.eoi', '%s|%s' % (base, bad.split(' (')[0]), 'decoding the strict prefix %s of the encoding %s: %s; expected the end-of-input error' % (fmt_items(ev[:k])[:100], fmt_items(ev)[:100], bad), where)
                    break
                ctx.ok('T-IMPL.eoi', key, nontrivial=(k > 0))
    ctx.floor('T-IMPL.eoi', 'prefixes', n, 200)


_run_chunk = run


def run(ctx):
    r = _run_chunk(ctx)
    t_impl_eoi(ctx, load.program('core-full'))
    return r


def t_impl_nil(ctx, prog):
    """the item kinds that carry no payload (null, undefined, simple values, break) are accepted only by types whose own encoding can
    start with them: `undefined` read as `Option::None` is a different value, not a leniency of the data model"""
    from .. import l1, l2
    from ..absint import State
    from . import summaries, c17
    ctx.rules_run.append('T-IMPL.nil: every built-in Decode impl over a null / undefined / simple / break item: a value is returned only if the type\'s own Encode impl can start an encoding with that kind of item (Option and Token for null; Token for the others); anything else must be an error')
    enc = dict((i['self_ty'], i) for i in prog.impls if i['trait'] == 'minicbor::encode::Encode' and i['krate'] == 'minicbor')
    dec = dict((i['self_ty'], i) for i in prog.impls if i['trait'] == 'minicbor::decode::Decode' and i['krate'] == 'minicbor')
    U = dict(c17.universe(True))
    KIND = {'null': 'NULL', 'undefined': 'UNDEF', 'simple': 'SIMPLE', 'break': 'BREAK'}
    n = 0
    for t in sorted(set(enc) & set(dec)):
        e = summaries.summary(prog, enc[t]['trait_ref'] + '::encode', 'enc')
        if e is None or e[0] == 'abort':
            continue
        own = set()
        for eo in e[1]:
            if eo.kind == 'return' and l1.result_kind(eo.value) == 'Ok':
                its = l2.items_of(eo.st.events)
                if its:
                    own.add(its[0][0])
        where = mir.loc(dec[t]['sp'])
        path = dec[t]['trait_ref'] + '::decode'
        if prog.one(path) is None:
            continue
        for uk, kind in sorted(KIND.items()):
            if uk not in U:
                continue
            try:
                r = c17.run_de(prog, path, [U[uk]], l2.decoder_overrides(), st=State())
            except (Abort, RecursionError, KeyError, IndexError, TypeError, AttributeError) as ex:
                ctx.notes.append('T-IMPL.nil: %s on %s not interpreted (%s)' % (t, uk, type(ex).__name__))
                continue
            if r is None:
                continue
            n += 1
            oks = [o for o in r[1] if o.kind == 'return' and l1.result_kind(o.value) == 'Ok' and not any(ev_[0] == 'DECLEAF' for ev_ in o.st.events)]
            if oks and kind not in own:
                ctx.violation('T-IMPL.nil', '%s|%s' % (t, uk), 'Decode for %s turns a %s item into the value %r although no value of the type is encoded that way (its encodings start with %s)' % (
                    t, uk, oks[0].value.fields[0] if oks[0].value.fields else oks[0].value, sorted(own)), where)
            else:
                ctx.ok('T-IMPL.nil', '%s|%s' % (t, uk), nontrivial=bool(oks))
    ctx.floor('T-IMPL.nil', 'type x item', n, 250)


_run_eoi = run


def run(ctx):
    r = _run_eoi(ctx)
    t_impl_nil(ctx, load.program('core-full'))
    return r


# ---------------------------------------------------------------------------
# T-IMPL.lossy: the value a built-in Decode impl builds from the decoded parts is not passed through a many-to-one std operation

LOSSY_RE = re.compile(r'\b(saturating_\w+|wrapping_\w+|overflowing_\w+|\w*_lossy|clamp|unwrap_or_default|unwrap_or|rem_euclid|from_utf8_unchecked)\(')


def t_impl_lossy(ctx, prog):
    from .. import l1, l2
    from . import summaries
    ctx.rules_run.append('T-IMPL.lossy: the term every built-in Decode impl returns for the items of its own encoding contains no many-to-one std operation '
                         '(saturating_* / wrapping_* / *_lossy / clamp / unwrap_or*): out-of-range parts must be an error, never a different value')
    enc = dict((i['self_ty'], i) for i in prog.impls if i['trait'] == 'minicbor::encode::Encode' and i['krate'] == 'minicbor')
    dec = dict((i['self_ty'], i) for i in prog.impls if i['trait'] == 'minicbor::decode::Decode' and i['krate'] == 'minicbor')
    n = 0
    for t in sorted(set(enc) & set(dec)):
        e = summaries.summary(prog, enc[t]['trait_ref'] + '::encode', 'enc')
        if e is None or e[0] == 'abort':
            continue
        where = mir.loc(dec[t]['sp'])
        bad = None
        for eo in e[1]:
            if eo.kind != 'return' or l1.result_kind(eo.value) != 'Ok':
                continue
            ev = expand_reps(eo.st.events)
            if ev is None:
                continue
            try:
                r = l2.run_decode(prog, dec[t]['trait_ref'] + '::decode', ev, from_state=eo.st.clone())
            except Abort:
                continue      # T-IMPL.eoi / MIRROR report what cannot be interpreted
            n += 1
            for o in r[1]:
                if o.kind == 'return' and l1.result_kind(o.value) == 'Ok' and o.value.fields:
                    mm = LOSSY_RE.search(repr(o.value.fields[0]))
                    if mm:
                        bad = (mm.group(1), repr(o.value.fields[0])[:200])
        if bad:
            ctx.violation('T-IMPL.lossy', '%s|%s' % (t, bad[0]), 'Decode for %s builds its value with the many-to-one operation %s (%s): distinct inputs - among them parts no value of the type is encoded with - come back as the same value instead of an error' % (t, bad[0], bad[1]), where)
        else:
            ctx.ok('T-IMPL.lossy', t)
    ctx.floor('T-IMPL.lossy', 'impl x encoding paths', n, 60)


_run_nil = run


def run(ctx):
    r = _run_nil(ctx)
    t_impl_lossy(ctx, load.program('core-full'))
    return r
