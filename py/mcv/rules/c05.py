"""C05 - integer decoding never wraps or truncates (DESIGN 5.5)."""
from ..absint import Int, Adt, Atom, ty_range, iv_sub, Abort
from .. import load, tables, mir, l1
from . import intdec

DEC = l1.DEC
INT_ACCESSORS = ['u8', 'u16', 'u32', 'u64', 'i8', 'i16', 'i32', 'i64']
FULL = ((-(1 << 64), (1 << 64) - 1),)


def int_value(v):
    """mathematical value of a minicbor::data::Int {neg, val}"""
    if isinstance(v, Adt) and v.adt.endswith('data::Int') and len(v.fields) == 2:
        neg, val = v.fields
        if isinstance(neg, Int) and neg.is_const() and isinstance(val, Int):
            if neg.c == 0:
                return val
            return Int([(s, -k) for s, k in val.terms], -1 - val.c)
    return None


def nonzero_value(v):
    if isinstance(v, Adt) and v.adt == 'std::num::NonZero':
        return v.fields[0]
    return v


def run(ctx):
    prog = load.program('core-full')
    ctx.rules_run.append('T-DEC(int): accept/value/consumption table of every integer accessor and integer Decode impl vs the RFC 8949 data model')
    n = 0
    roots = 0
    for a in INT_ACCESSORS:
        try:
            n += intdec.check_int_accessor(ctx, 'T-DEC', a, prog, DEC + a, ty_range(a))
            roots += 1
        except Abort as e:
            ctx.fail_closed('T-DEC', 'Decoder::%s cannot be summarised: %s' % (a, e))
    try:
        n += intdec.check_int_accessor(ctx, 'T-DEC', 'int', prog, DEC + 'int', FULL, value_of=int_value)
        roots += 1
    except Abort as e:
        ctx.fail_closed('T-DEC', 'Decoder::int cannot be summarised: %s' % e)
    # char
    try:
        n += intdec.check_int_accessor(ctx, 'T-DEC', 'char', prog, DEC + 'char', ty_range('char'))
        roots += 1
    except Abort as e:
        ctx.fail_closed('T-DEC', 'Decoder::char cannot be summarised: %s' % e)
    # Decode impls of integer-like types (inlined down to the input primitives)
    impls = [('usize', ty_range('usize'), None), ('isize', ty_range('isize'), None)]
    for t in ('u8', 'u16', 'u32', 'u64', 'i8', 'i16', 'i32', 'i64'):
        impls.append((t, ty_range(t), None))
        impls.append(('std::num::NonZero<%s>' % t, iv_sub(ty_range(t), ((0, 0),)), nonzero_value))
    impls.append(('std::num::NonZero<usize>', iv_sub(ty_range('usize'), ((0, 0),)), nonzero_value))
    impls.append(('std::num::NonZero<isize>', iv_sub(ty_range('isize'), ((0, 0),)), nonzero_value))
    impls.append(('minicbor::data::Int', FULL, int_value))
    impls.append(('char', ty_range('char'), None))
    for ty, rng, vf in impls:
        path = "<%s as minicbor::decode::Decode<'_, C>>::decode" % ty
        try:
            n += intdec.check_int_accessor(ctx, 'T-DEC.impl', 'Decode for ' + ty, prog, path, rng, value_of=vf)
            roots += 1
        except Abort as e:
            ctx.fail_closed('T-DEC.impl', '%s cannot be summarised: %s' % (path, e))
    ctx.floor('T-DEC', 'integer roots', roots, 10 + 22)
    ctx.count('T-DEC.rows', n)
    return ('For each of %d integer decoding roots the complete (initial byte x argument) -> result table was extracted from MIR and '
            'checked: Ok exactly on the representable arguments, with the mathematically equal value, consuming exactly the head.' % roots)


# ---------------------------------------------------------------------------
# T-INT: conversions between data::Int and the primitive integers

from ..absint import Machine, State, iv_and, iv_str, iv_min, iv_max
from .. import prims
from ..prims import RESULT, norm_adt

ELIM = ['u8', 'u16', 'u32', 'u64', 'u128', 'i8', 'i16', 'i32', 'i64']
INTRO = ['u8', 'u16', 'u32', 'u64', 'i8', 'i16', 'i32', 'i64']


def run_plain(prog, path):
    inst = prog.one(path)
    if inst is None:
        return None
    m = Machine(prog, prims=prims.P)
    st = State()
    body = inst['body']
    names = dict((l, n) for l, n in body['names'])
    args = [m.make_value(st, body['locals'][i], names.get(i, 'a%d' % i)) for i in range(1, body['argc'] + 1)]
    outs = m.run(inst, args, st)
    return inst, outs, m


def math_of_int_cell(st, prefix='i'):
    """(value expr, neg const) of the Int argument named `prefix` on this cell"""
    neg = st.ranges.get(prefix + '.neg')
    val = Int.sym(prefix + '.val')
    if neg == ((0, 0),):
        return val
    if neg == ((1, 1),):
        return Int([(prefix + '.val', -1)], -1)
    return None


def t_int(ctx, prog):
    ctx.rules_run.append('T-INT: exact-or-error tables of the From/TryFrom conversions between data::Int and u8..u128/i8..i128')
    roots = 0
    for t in ELIM + ['i128']:
        if t == 'i128':
            path = 'minicbor::data::<impl std::convert::From<minicbor::data::Int> for i128>::from'
        else:
            path = 'minicbor::data::<impl std::convert::TryFrom<minicbor::data::Int> for %s>::try_from' % t
        label = 'Int->' + t
        try:
            res = run_plain(prog, path)
        except Abort as e:
            ctx.fail_closed('T-INT', '%s cannot be summarised: %s' % (path, e))
            continue
        if res is None:
            ctx.fail_closed('T-INT', 'anchor %s not found' % path)
            continue
        roots += 1
        inst, outs, m = res
        where = mir.loc(inst['sp'])
        tr = ty_range(t)
        for o in outs:
            if o.kind != 'return':
                ctx.violation('T-INT.total', label, 'path does not return: %s' % o.why, where)
                continue
            V = math_of_int_cell(o.st)
            if V is None:
                # both signs on one path: only acceptable for an error path on which neither sign is representable
                vr = o.st.ranges['i.val']
                both = ((iv_min(vr), iv_max(vr)), (-1 - iv_max(vr), -1 - iv_min(vr)))
                isok = isinstance(o.value, Adt) and norm_adt(o.value.adt) == RESULT and o.value.variant == 0
                if isok or t == 'i128' or iv_and(tuple(sorted(both)), tr):
                    ctx.violation('T-INT', label + '|signs', 'a path treats both signs alike on magnitudes %s' % iv_str(vr), where)
                else:
                    ctx.ok('T-INT', '%s|both-signs|%s' % (label, iv_str(vr)))
                continue
            lo, hi = m.rng(o.st, V)
            cellvals = ((lo, hi),)
            bad = sorted(f for f in o.st.flags if f.startswith(('imprecise', 'opaque', 'trunc')))
            v = o.value
            if t == 'i128':
                kind, got = 'Ok', v
            elif isinstance(v, Adt) and norm_adt(v.adt) == RESULT:
                kind, got = ('Ok', v.fields[0]) if v.variant == 0 else ('Err', None)
            else:
                ctx.violation('T-INT', label, 'unexpected result %r' % (v,), where)
                continue
            inst_key = '%s|%s' % (label, l1.fmt_cell(o.st, {'i.neg', 'i.val'}))
            if kind == 'Ok':
                if not (iv_min(tr) <= lo and hi <= iv_max(tr)):
                    ctx.violation('T-INT.range', label + '|accepts', 'returns Ok on values [%d, %d] outside %s' % (lo, hi, t), where)
                elif bad:
                    ctx.violation('T-INT.precision', label, 'not exact: %s' % ','.join(bad), where)
                elif got != V:
                    ctx.violation('T-INT.value', label + '|value', 'on cell {%s} returns %r, mathematical value is %r' % (l1.fmt_cell(o.st, {'i.neg', 'i.val'}), got, V), where)
                else:
                    ctx.ok('T-INT', inst_key)
            else:
                if iv_and(cellvals, tr):
                    ctx.violation('T-INT.range', label + '|rejects', 'returns Err on representable values within [%d, %d]' % (lo, hi), where)
                else:
                    ctx.ok('T-INT', inst_key)
    for t in INTRO + ['u128', 'i128']:
        tf = t in ('u128', 'i128')
        path = '<minicbor::data::Int as std::convert::%s<%s>>::%s' % ('TryFrom' if tf else 'From', t, 'try_from' if tf else 'from')
        label = t + '->Int'
        try:
            res = run_plain(prog, path)
        except Abort as e:
            ctx.fail_closed('T-INT', '%s cannot be summarised: %s' % (path, e))
            continue
        if res is None:
            ctx.fail_closed('T-INT', 'anchor %s not found' % path)
            continue
        roots += 1
        inst, outs, m = res
        where = mir.loc(inst['sp'])
        for o in outs:
            if o.kind != 'return':
                ctx.violation('T-INT.total', label, 'path does not return: %s' % o.why, where)
                continue
            x = Int.sym('i')
            lo, hi = m.rng(o.st, x)
            v = o.value
            if tf:
                if isinstance(v, Adt) and norm_adt(v.adt) == RESULT:
                    kind, got = ('Ok', v.fields[0]) if v.variant == 0 else ('Err', None)
                else:
                    ctx.violation('T-INT', label, 'unexpected result %r' % (v,), where)
                    continue
            else:
                kind, got = 'Ok', v
            inst_key = '%s|%s' % (label, iv_str(o.st.ranges['i']))
            if kind == 'Ok':
                if lo < -(1 << 64) or hi > (1 << 64) - 1:
                    ctx.violation('T-INT.range', label + '|accepts', 'accepts values [%d, %d] outside [-2^64, 2^64-1]' % (lo, hi), where)
                elif int_value(got) != x:
                    ctx.violation('T-INT.value', label + '|value', 'on %s yields %r (= %r), expected the same mathematical value' % (iv_str(o.st.ranges['i']), got, int_value(got)), where)
                else:
                    ctx.ok('T-INT', inst_key)
            else:
                if iv_and(((lo, hi),), FULL):
                    ctx.violation('T-INT.range', label + '|rejects', 'rejects values within [-2^64, 2^64-1]: [%d, %d]' % (lo, hi), where)
                else:
                    ctx.ok('T-INT', inst_key)
    ctx.floor('T-INT', 'conversion roots', roots, 20)


TYPE_ACCESSOR = {'U8': 'u8', 'U16': 'u16', 'U32': 'u32', 'U64': 'u64', 'I8': 'i8', 'I16': 'i16', 'I32': 'i32', 'I64': 'i64', 'Int': 'int'}


def type_rows(prog):
    """rows of Decoder::datatype: (b0 set, pk set or None, Type variant name or error class)"""
    res = tables.dec_rows(prog, DEC + 'datatype')
    if res is None:
        return None
    inst, rows, m = res
    ad = prog.adts.get('minicbor::data::Type')
    out = []
    for r in rows:
        cur = [e for e in r.events if e[0] == 'CUR']
        pk = [e for e in r.events if e[0] == 'PEEK']
        b0 = r.st.ranges[cur[0][1]] if cur else None
        pks = r.st.ranges[pk[0][1]] if pk else None
        if r.result == 'Ok' and isinstance(r.value, Adt):
            out.append((b0, pks, ad['variants'][r.value.variant]['name'], r))
        else:
            out.append((b0, pks, 'Err:%s' % r.value, r))
    return inst, out


def type_accepts(ctx, prog):
    ctx.rules_run.append('T-TYPE: for every cell of datatype()/type_of, the named integer Type has an accessor whose range contains every value of the cell')
    tr = type_rows(prog)
    if tr is None:
        ctx.fail_closed('T-TYPE', 'Decoder::datatype not found')
        return
    inst, rows = tr
    where = mir.loc(inst['sp'])
    n = 0
    for b0, pks, ty, r in rows:
        if b0 is None:
            continue
        for part, base, major, w in intdec.split_by_class(b0):
            if major not in (0, 1) or w in ('bad', 'indef'):
                if ty in TYPE_ACCESSOR:
                    ctx.violation('T-TYPE', 'datatype|major%d' % major, 'initial byte %s is reported as integer type %s' % (iv_str(part), ty), where)
                continue
            if ty.startswith('Err:'):
                if ty == 'Err:EndOfInput' and pks is None and w != 0 and major == 1:
                    continue  # peek past the end
                ctx.violation('T-TYPE', 'datatype|int-head-error', 'integer head %s yields %s' % (iv_str(part), ty), where)
                continue
            if ty not in TYPE_ACCESSOR:
                ctx.violation('T-TYPE', 'datatype|int-head', 'integer head %s is reported as %s' % (iv_str(part), ty), where)
                continue
            if w == 0:
                args = tuple((a - base, b - base) for a, b in part)
            elif pks is None:
                args = ((0, (1 << (8 * w)) - 1),)
            else:
                sh = 8 * (w - 1)
                args = tuple((a << sh, ((b + 1) << sh) - 1) for a, b in pks)
            if major == 0:
                vals = args
            else:
                vals = tuple(sorted((-1 - b, -1 - a) for a, b in args))
            target = FULL if ty == 'Int' else ty_range(TYPE_ACCESSOR[ty])
            lo, hi = iv_min(vals), iv_max(vals)
            n += 1
            if iv_min(target) <= lo and hi <= iv_max(target):
                ctx.ok('T-TYPE', 'datatype|%s|%s|%s' % (iv_str(part), iv_str(pks) if pks else '-', ty))
            else:
                ctx.violation('T-TYPE', 'datatype|%s' % ty, 'head %s (next byte %s) is reported as %s but denotes values in [%d, %d], which %s() rejects' % (iv_str(part), iv_str(pks) if pks else 'any', ty, lo, hi, TYPE_ACCESSOR[ty]), where)
    ctx.floor('T-TYPE', 'integer cells', n, 14)


_run0 = run


def run(ctx):
    expl = _run0(ctx)
    prog = load.program('core-full')
    t_int(ctx, prog)
    type_accepts(ctx, prog)
    return expl + ' The 22 Int conversions were tabulated over (sign, magnitude) cells; datatype() cells were matched against accessor ranges.'
