"""C06 - skip() consumes exactly one item (DESIGN 5.6): one-iteration transfer tables of both twins."""
from ..absint import Machine, State, Int, Adt, Atom, Ref, Fork, Abort, iv_and, iv_str, iv_min, iv_max, lin_add
from .. import load, mir, l1, prims, oracle, export
from ..prims import ok, err, RESULT, norm_adt
from . import io_rules as io, intdec

SKIP = l1.DEC + 'skip'


def type_of_prim(m, cfg, f, args, t):
    return Fork([(None, ok(Atom('type-for-message'))), (lambda s: s.events.append(('EOI', 'peek')), err(l1.eoi_error()))])


def stack_prims():
    o = {}

    def is_empty(m, cfg, f, args, t):
        return Atom('stack.is_empty', {'s': 'bool', 'k': 'bool'})

    def push(m, cfg, f, args, t):
        cfg.st.events.append(('PUSH', repr(args[1])))
        return prims.UNIT

    def pop(m, cfg, f, args, t):
        cfg.st.events.append(('POP',))
        return Atom(prims.fresh('popped'))

    def last(m, cfg, f, args, t):
        if (cfg.st.extra.get('known') or {}).get('stack.is_empty') == 1 and not any(e[0] == 'PUSH' for e in cfg.st.events):
            return prims.NONE
        cfg.st.events.append(('LAST',))
        return Atom(prims.fresh('stack.last'), prims.ty_from_str('std::option::Option<&std::option::Option<u64>>'))

    def sat(op):
        def h(m, cfg, f, args, t):
            a, b = args
            if isinstance(a, Int) and isinstance(b, Int):
                if op == 'add':
                    r = lin_add(a, b, 1)
                elif op == 'mul':
                    if a.is_const():
                        r = Int([(s_, k * a.c) for s_, k in b.terms], b.c * a.c)
                    elif b.is_const():
                        r = Int([(s_, k * b.c) for s_, k in a.terms], a.c * b.c)
                    else:
                        return NotImplemented
                else:
                    # saturating_sub(x, c): max(x - c, 0); split on x >= c when x is a single symbol
                    r = lin_add(a, b, -1)
                    lo, hi = m.rng(cfg.st, r)
                    if hi < 0:
                        return Int.const(0)
                    if lo < 0:
                        sg = r.single()
                        if sg and sg[1] == 1:
                            from ..absint import NeedSplit
                            raise NeedSplit(sg[0], [-sg[2]])
                        cfg.st.flags.add('assume:no-underflow')
                    return r
                # counters count items still to be skipped: they cannot reach 2^64 on any real input, so the
                # saturation point is never the deciding value for the position (both builds saturate alike)
                cfg.st.flags.add('assume:no-saturation')
                return r
            return NotImplemented
        return h
    for op in ('add', 'mul', 'sub'):
        o['core::num::<impl u64>::saturating_%s' % op] = sat(op)
    o['std::vec::Vec::<T, A>::is_empty'] = is_empty
    o['std::vec::Vec::<T, A>::push'] = push
    o['std::vec::Vec::<T, A>::pop'] = pop
    o['core::slice::<impl [T]>::last'] = last
    o['core::slice::<impl [T]>::last_mut'] = last
    o['<std::vec::Vec<T, A> as std::ops::Deref>::deref'] = lambda m, cfg, f, args, t: args[0]
    o['<std::vec::Vec<T, A> as std::ops::DerefMut>::deref_mut'] = lambda m, cfg, f, args, t: args[0]
    o['std::vec::Vec::<T>::new'] = lambda m, cfg, f, args, t: Atom('stack')

    def range_next(m, cfg, f, args, t):
        # `for _ in 0 .. irounds { stack.push(None) }` of the mode switch, wherever it lives (skip itself or a helper): with symbolic
        # counters the number of rounds is symbolic; the table records the loop and steps over it - what it pushes per round and
        # how many rounds it makes is decided by T-SKIP.sim, which runs the switch with 0..3 open indefinite containers
        from .. import l2
        r = args[0]
        it = m.read_path(cfg.st, r.key, r.path) if isinstance(r, Ref) else None
        if isinstance(it, Adt) and it.adt.endswith('ops::Range'):
            a, b = it.fields
            if isinstance(a, Int) and isinstance(b, Int) and a.is_const() and b.is_const():
                return l2.range_next(m, cfg, r, it)
            cfg.st.events.append(('RANGE_LOOP', repr(b)))
            return prims.NONE
        return NotImplemented
    o['std::iter::range::<impl std::iter::Iterator for std::ops::Range<A>>::next'] = range_next
    o['<I as std::iter::IntoIterator>::into_iter'] = lambda m, cfg, f, args, t: args[0]
    return o


def skip_roles(body, head):
    """the loop-carried locals of skip() by role, identified structurally (a rename must not matter):
    nrounds / irounds = the user variables of type u64 assigned the constants 1 / 0 in the blocks that dominate the loop;
    stack = the user variable of type Vec<Option<u64>>; error_msg = a &str constant assigned before the loop"""
    cfg = mir.CFG(body)
    user = dict(body['names'])
    roles = {}
    for bi, b in enumerate(body['blocks']):
        if bi == head or not cfg.dominates(bi, head):
            continue
        for st in b['s']:
            if st['k'] != 'assign' or st['p'].get('p') or st['p']['l'] not in user:
                continue
            l = st['p']['l']
            ty = body['locals'][l].get('s')
            r = st['r']
            c = r.get('a', {}).get('const') if r.get('rv') == 'use' and isinstance(r.get('a'), dict) else None
            if ty == 'u64' and c is not None and c.get('v') == 1 and 'nrounds' not in roles:
                roles['nrounds'] = l
            elif ty == 'u64' and c is not None and c.get('v') == 0 and 'irounds' not in roles:
                roles['irounds'] = l
            elif ty == '&str' and c is not None and 'error_msg' not in roles:
                roles['error_msg'] = l
    for l, nm in body['names']:
        if body['locals'][l].get('s', '').replace(' ', '') in ('std::vec::Vec<std::option::Option<u64>>',) and 'stack' not in roles:
            roles['stack'] = l
    return roles


def transfer(prog, counting=True):
    """one outer-loop iteration of skip from symbolic counters; returns (inst, outcomes, machine)"""
    inst = prog.one(SKIP)
    if inst is None:
        return None
    body = inst['body']
    heads = io.natural_loop_heads(body)
    outer = mir.CFG(body)
    # the outermost head: the one whose loop contains the others == smallest block index among heads of the biggest SCC
    big = io.loop_heads(body)
    outer_head = big[0][1][0]
    names = skip_roles(body, outer_head)
    if 'nrounds' not in names or 'irounds' not in names:
        raise Abort('skip has no pair of u64 loop counters initialised to 1 and 0 before its loop (anchor moved)')
    ov = dict(l1.decoder_overrides())
    ov[l1.DEC + 'type_of'] = type_of_prim
    ov.update(stack_prims())
    m = Machine(prog, prims=prims.P, overrides=ov, max_configs=6000, max_steps=800000)
    m.cuts = set(heads)
    st = State()
    args = [m.make_value(st, body['locals'][1], 'self')]
    n = m.new_sym(st, 'nrounds', 'u64')
    i = m.new_sym(st, 'irounds', 'u64')
    init = {names['nrounds']: Int.sym(n), names['irounds']: Int.sym(i)}
    if 'stack' in names:
        init[names['stack']] = Atom('stack')
        if counting:
            st.extra['known'] = {'stack.is_empty': 1}
    if 'error_msg' in names:
        init[names['error_msg']] = prims.Str(b'indefinite nesting requires alloc')
    outs = m.run(inst, args, st, start_bb=outer_head, init_locals=init)
    return inst, outs, m, outer_head, names


def acc_decomp(o):
    from .acc import decomp

    class R:
        pass
    r = R()
    r.st = o.st
    r.events = o.st.events
    r.consumed = lambda: [e for e in o.st.events if e[0] in ('READ1', 'READN', 'READSLICE')]
    return list(decomp(r))


def iter_len_field(m, o, iter_locals=()):
    """'Some(0)' / 'None' / other: the len field of the live BytesIter/StrIter (the loop's `iter` local) the step left behind"""
    fids = [k[0] for k in o.st.mem if isinstance(k, tuple) and isinstance(k[0], int)]
    root = min(fids) if fids else None
    seen = []
    for l in iter_locals:
        v = o.st.mem.get((root, l))
        if isinstance(v, Adt) and v.adt.endswith(('decoder::BytesIter', 'decoder::StrIter')) and len(v.fields) >= 2:
            ln = v.fields[1]
            if isinstance(ln, Adt) and ln.variant == 1 and ln.fields[0] == Int.const(0):
                return 'Some(0)'
            seen.append('None' if isinstance(ln, Adt) and ln.variant == 0 else repr(ln))
    return seen[0] if seen else '?'


def consumption(o):
    """(bytes of head reads, payload terms) consumed in the step"""
    n = 0
    payload = []
    for e in o.st.events:
        if e[0] == 'READ1':
            n += 1
        elif e[0] == 'READN':
            n += e[1]
        elif e[0] == 'READSLICE':
            payload.append(e[1])
    return n, payload


def counters(m, o, names):
    fid = None
    for k in o.st.mem:
        if isinstance(k, tuple) and k[1] == names['nrounds'] and isinstance(k[0], int):
            fid = k[0] if fid is None else min(fid, k[0])   # the root frame is the oldest one
    if fid is None:
        return None, None
    return o.st.mem.get((fid, names['nrounds'])), o.st.mem.get((fid, names['irounds']))


def first_ib(o):
    for e in o.st.events:
        if e[0] in ('CUR', 'READ1'):
            return e[1]
    return None


def result_of(prog, o):
    if o.kind == 'cut':
        return 'cut:%s' % o.why
    if o.kind == 'return':
        k, v = l1.describe_result(prog, o.value)
        return '%s:%s' % (k, v if k == 'Err' else '')
    return o.kind


def arm_table(ctx, prog, label, counting=True):
    try:
        r = transfer(prog, counting)
    except Abort as e:
        ctx.fail_closed('T-SKIP', '%s: skip cannot be summarised: %s' % (label, e))
        return None
    if r is None:
        ctx.fail_closed('T-SKIP', '%s: Decoder::skip not found' % label)
        return None
    inst, outs, m, head, names = r
    where = mir.loc(inst['sp'])
    rows = []
    for o in outs:
        res = result_of(prog, o)
        ib = first_ib(o)
        if ib is None:
            # loop exit without inspecting a byte (counters exhausted) or end of input
            if res.startswith(('Ok', 'Err:EndOfInput')):
                continue
            ctx.violation('T-SKIP', '%s|no-byte' % label, 'a step ends as %s without inspecting a byte' % res, where)
            continue
        n, payload = consumption(o)
        eoi = any(e[0] == 'EOI' for e in o.st.events)
        nn, ii = counters(m, o, names)
        for part, base, major, w in intdec.split_by_class(o.st.ranges[ib]):
            rows.append(dict(part=part, major=major, w=w, res=res, n=n, payload=payload, eoi=eoi, nn=nn, ii=ii, o=o, events=[e[0] for e in o.st.events], pushes=[e[1] for e in o.st.events if e[0] == 'PUSH']))
            key = '%s|ib=%s|%s' % (label, iv_str(part), res)
            lo = iv_min(part)
            hl = oracle.rfc_headlen(lo)
            outer_done = res == 'cut:%s' % head or res.startswith('Ok')
            inner_cut = res.startswith('cut:') and not outer_done
            if w == 'bad' or hl is None:
                if not res.startswith('Err'):
                    ctx.violation('T-SKIP', '%s|reserved' % label, 'reserved / invalid initial byte %s is skipped (%s) instead of rejected' % (iv_str(part), res), where)
                else:
                    ctx.ok('T-SKIP', key, nontrivial=False)
                continue
            if eoi:
                if res != 'Err:EndOfInput':
                    ctx.violation('T-SKIP', '%s|truncated' % label, 'running out of input inside %s yields %s, expected the end-of-input error (a strict prefix must not be accepted)' % (iv_str(part), res), where)
                else:
                    ctx.ok('T-SKIP.eoi', key, nontrivial=False)
                continue
            if res.startswith('Err'):
                # errors on complete, valid heads: only the documented no-alloc refusal and UTF-8 / overflow conditions
                if res in ('Err:Message', 'Err:Utf8', 'Err:Overflow', 'Err:TypeMismatch') and (major in (2, 3, 4, 5)):
                    ctx.ok('T-SKIP.err', key + '|' + res, nontrivial=False)
                else:
                    ctx.violation('T-SKIP', '%s|rejects|major%d' % (label, major), 'a well-formed head %s is rejected with %s' % (iv_str(part), res), where)
                continue
            strdef = major in (2, 3) and w in (0, 1, 2, 4, 8)
            if outer_done and strdef:
                # a definite string reaches the end of the iteration without payload only if its length is 0;
                # otherwise the payload is read in the (inner-loop) step checked below
                dd = [x for x in acc_decomp(o) if x['part'] == part]
                aset = dd[0]['argset'] if dd and dd[0]['argset'] else None
                if n != hl or payload or aset != ((0, 0),):
                    ctx.violation('T-SKIP', '%s|consume|major%d' % (label, major), 'a definite string head %s (length %s) finishes the iteration after %d head byte(s) and %d payload slice(s)' % (iv_str(part), iv_str(aset) if aset else '?', n, len(payload)), where)
                else:
                    ctx.ok('T-SKIP', key)
                continue
            if inner_cut and not payload and not (major in (2, 3) and w == 'indef'):
                # bookkeeping loops of the stack mode, one iteration each: the `for _ in 0 .. irounds` loop of the mode switch
                # pushes exactly one None per round (T-SKIP.sim instantiates the number of rounds with 0..3)
                pushes = [e[1] for e in o.st.events if e[0] == 'PUSH']
                cut_bb = int(res.split(':')[1]) if res.split(':')[1].isdigit() else None
                tb = inst['body']['blocks'][cut_bb]['t'] if cut_bb is not None else {}
                range_loop = tb.get('k') == 'call' and 'ops::Range' in (mir.callee_path(tb) or '')
                if range_loop and pushes != ['Option#0()']:
                    ctx.violation('T-SKIP', '%s|switch-loop' % label, 'one round of the loop that moves the open indefinite containers onto the stack pushes %r; expected one None' % (pushes,), where)
                else:
                    ctx.ok('T-SKIP.inner', key, nontrivial=False)
                continue
            if inner_cut and strdef:
                dd = [x for x in acc_decomp(o) if x['part'] == part]
                arg = dd[0]['arg'] if dd else None
                it_len = iter_len_field(m, o, [l for l, nm_ in inst['body']['names'] if inst['body']['locals'][l].get('s', '').startswith(('minicbor::decode::decoder::BytesIter', 'minicbor::decode::decoder::StrIter'))])
                if n != hl or len(payload) != 1 or payload[0] != arg:
                    ctx.violation('T-SKIP', '%s|payload|major%d' % (label, major), 'definite string head %s: the payload step reads %r, expected exactly the announced %r bytes' % (iv_str(part), payload, arg), where)
                elif it_len != 'Some(0)':
                    ctx.violation('T-SKIP', '%s|payload-twice|major%d' % (label, major), 'after the payload of a definite string was read the chunk iterator is not exhausted (len = %s)' % it_len, where)
                else:
                    ctx.ok('T-SKIP', key)
                continue
            if outer_done:
                want = hl
                if major in (2, 3) and w == 'indef':
                    # head + terminating break (chunks were consumed by inner iterations)
                    want = hl + 1
                if n != want or (strdef and len(payload) != 1) or (not strdef and payload and not (major in (2, 3))):
                    ctx.violation('T-SKIP', '%s|consume|major%d' % (label, major), 'one iteration on head %s consumes %d head byte(s) and %d payload slice(s); the item head is %d byte(s)%s'
                                  % (iv_str(part), n, len(payload), hl, ' plus its payload' if strdef else ''), where)
                    continue
                ctx.ok('T-SKIP', key)
                # a tag is not an item: counters unchanged
                if major == 6:
                    if nn != Int.sym('nrounds') or ii != Int.sym('irounds'):
                        ctx.violation('T-SKIP', '%s|tag-counted' % label, 'a tag head changes the counters (nrounds -> %r, irounds -> %r): tags must not count as items' % (nn, ii), where)
                    else:
                        ctx.ok('T-SKIP.tag', key)
            elif inner_cut:
                # one chunk of an indefinite string: a definite string of the same major type
                ctx.ok('T-SKIP.chunk', key, nontrivial=False)
    for site, rec in m.assert_sites.items():
        if rec['path'] == SKIP and (rec['open'] or rec['fail']) and counting:
            # counting-mode arithmetic must be saturating or discharged (stack-mode sites are table rows of C02)
            if rec.get('op') and 'Sub' in str(rec.get('op')):
                continue
            ctx.violation('T-SKIP.arith', '%s|%s|%s' % (label, rec['kind'], rec.get('op')), 'counter arithmetic may overflow', mir.loc(rec.get('sp')))
    ctx.count('T-SKIP.rows.' + label, len(rows))
    return rows


def twin_agreement(ctx, a_rows, n_rows):
    """counting-mode transfer of the alloc twin vs the no-alloc twin"""
    def sig(r):
        nxt = r['res'].startswith('cut')
        return ('next' if nxt else r['res'].split(':')[0], r['n'], len(r['payload']), repr(r['nn']) if nxt else '-', repr(r['ii']) if nxt else '-')

    def cells(r):
        st = r['o'].st
        return {k: v for k, v in st.ranges.items() if k in ('nrounds', 'irounds') or k.startswith(('arg', 'b'))}

    def rng_under(expr, cell):
        """(lo, hi) of a linear value under the cell, clamped to u64 (the counters saturate at both ends)"""
        if not isinstance(expr, Int):
            return None
        lo = hi = expr.c
        for s_, k in expr.terms:
            r = cell.get(s_)
            if not r:
                return None
            a, b = iv_min(r) * k, iv_max(r) * k
            lo += min(a, b)
            hi += max(a, b)
        return (max(lo, 0), max(hi, 0))

    def subst(expr, cell):
        if not isinstance(expr, Int):
            return expr
        c = expr.c
        terms = []
        for s_, k in expr.terms:
            r = cell.get(s_)
            if r and len(r) == 1 and r[0][0] == r[0][1]:
                c += k * r[0][0]
            else:
                terms.append((s_, k))
        return Int(terms, c)

    def same_value(x, y, cell):
        if repr(x) == repr(y):
            return True
        if subst(x, cell) == subst(y, cell):
            return True
        rx, ry = rng_under(x, cell), rng_under(y, cell)
        return rx is not None and rx == ry and rx[0] == rx[1]
    n = 0
    for ra in a_rows:
        if ra['eoi']:
            continue
        left_counting = any(e == 'PUSH' for e in ra['events'])
        matched = 0
        for rn in n_rows:
            if rn['eoi'] or rn['major'] != ra['major'] or rn['w'] != ra['w']:
                continue
            if not iv_and(ra['part'], rn['part']):
                continue
            ca, cn = cells(ra), cells(rn)
            if any(not iv_and(ca[k], cn[k]) for k in ca if k in cn):
                continue
            # compare paths that made the same source-level choices (same sequence of input events, same error/success)
            ea = [e for e in ra['events'] if e not in ('PUSH', 'POP', 'LAST', 'CALL', 'RANGE_LOOP')]
            en = [e for e in rn['events'] if e not in ('PUSH', 'POP', 'LAST', 'CALL', 'RANGE_LOOP')]
            if ea != en:
                continue
            if not left_counting and ra['res'].startswith('Err') != rn['res'].startswith('Err'):
                continue
            n += 1
            matched += 1
            key = 'ib=%s|n=%s|i=%s' % (iv_str(iv_and(ra['part'], rn['part'])), iv_str(iv_and(ca.get('nrounds', ()), cn.get('nrounds', ()))) if 'nrounds' in ca and 'nrounds' in cn else '*',
                                       iv_str(iv_and(ca.get('irounds', ()), cn.get('irounds', ()))) if 'irounds' in ca and 'irounds' in cn else '*')
            if left_counting:
                if rn['res'] == 'Err:Message':
                    ctx.ok('T-SKIP.twins', key + '|documented-refusal')
                else:
                    ctx.violation('T-SKIP.twins', 'refusal|major%d' % ra['major'], 'on %s the alloc build switches to its stack, the no-alloc build must refuse with its documented error but yields %s' % (key, rn['res']))
                continue
            cell = {k: iv_and(ca[k], cn[k]) if k in ca and k in cn else (ca.get(k) or cn.get(k)) for k in set(ca) | set(cn)}
            sa, sn = sig(ra), sig(rn)
            a_exit = ra['res'].startswith('Ok')
            n_next = rn['res'].startswith('cut')
            if sa == sn:
                ctx.ok('T-SKIP.twins', key + '|' + ra['res'])
            elif sa[1:3] == sn[1:3] and sa[0] == 'next' and sn[0] == 'next' and same_value(ra['nn'], rn['nn'], cell) and same_value(ra['ii'], rn['ii'], cell):
                ctx.ok('T-SKIP.twins', key + '|' + ra['res'])
            elif sa[1:3] == sn[1:3] and a_exit and n_next and rng_under(rn['nn'], cell) == (0, 0) and rng_under(rn['ii'], cell) == (0, 0):
                ctx.ok('T-SKIP.twins', key + '|exit')   # the alloc build leaves the loop directly, the other one via its loop condition
            elif ra['res'].startswith('Err') != rn['res'].startswith('Err') or sig(ra)[1:] != sig(rn)[1:]:
                ctx.violation('T-SKIP.twins', 'major%d|w=%s' % (ra['major'], ra['w']), 'the two builds of skip() disagree on %s: alloc (%s, consumes %d+%d, nrounds->%s, irounds->%s) vs no-alloc (%s, consumes %d+%d, nrounds->%s, irounds->%s)'
                              % (key, ra['res'], ra['n'], len(ra['payload']), ra['nn'], ra['ii'], rn['res'], rn['n'], len(rn['payload']), rn['nn'], rn['ii']))
        if not matched:
            ctx.violation('T-SKIP.twins', 'unpaired|major%d|w=%s|%s' % (ra['major'], ra['w'], ra['res']), 'the alloc build has an outcome (%s on ib=%s) that no path of the no-alloc build mirrors' % (ra['res'], iv_str(ra['part'])))
    ctx.count('T-SKIP.twin_pairs', n)
    return n


def mode_agreement(ctx, a_rows, s_rows):
    """a definite container header must announce the same number of items in both bookkeeping modes of the alloc build:
    counting mode adds F(n) to nrounds, stack mode pushes Some(F(n)) (arrays n, maps 2n); indefinite headers push None"""
    n = 0
    incr = {}
    for r in a_rows:
        if r['major'] in (4, 5) and r['w'] in (0, 1, 2, 4, 8) and r['res'].startswith('cut') and not r['eoi'] and isinstance(r['nn'], Int) and dict(r['nn'].terms).get('nrounds') == 1:
            f = lin_add(lin_add(r['nn'], Int.sym('nrounds'), -1), Int.const(1), 1)
            if f.is_const() and f.c == 0:
                continue     # empty container
            incr.setdefault((r['major'], r['w'], iv_str(r['part'])), set()).add(repr(f))
    for r in s_rows:
        st = r['o'].st
        if r['eoi'] or r['major'] not in (4, 5) or not r['pushes']:
            continue
        if st.ranges.get('nrounds') != ((0, 0),) or st.ranges.get('irounds') != ((0, 0),):
            continue        # the mode switch (counting -> stack) pushes the saved counters: checked by the step tables
        key = 'major%d|w=%s|ib=%s' % (r['major'], r['w'], iv_str(r['part']))
        if r['w'] == 'indef':
            if r['pushes'] != ['Option#0()']:
                ctx.violation('T-SKIP.modes', key, 'an indefinite container opened in stack mode pushes %s instead of None' % r['pushes'], None)
            else:
                n += 1
                ctx.ok('T-SKIP.modes', key)
            continue
        want = incr.get((r['major'], r['w'], iv_str(r['part'])))
        if not want:
            continue
        n += 1
        exp = ['Option#1(%s)' % w for w in sorted(want)]
        if len(r['pushes']) == 1 and r['pushes'][0] in exp:
            ctx.ok('T-SKIP.modes', key)
        else:
            ctx.violation('T-SKIP.modes', key, 'a %s header with argument a announces %s item(s) in counting mode (nrounds += ..) but pushes %s in stack mode' % (
                'map' if r['major'] == 5 else 'array', ' / '.join(sorted(want)), r['pushes']), None)
    ctx.floor('T-SKIP.modes', 'headers compared', n, 10)


def twins_only(ctx):
    """the configuration-identity part of the skip() argument, for C20: both builds' transfer tables and their agreement"""
    ctx.rules_run.append('T-SKIP.twins (from C06): the alloc build of skip() restricted to counting mode and the no-alloc build have the same one-iteration transfer function '
                         '(result class, bytes consumed, counter updates per initial-byte class), except where the no-alloc build must refuse (indefinite container inside a definite one)')
    pa = load.program('core-full')
    pn = load.program('core-none')
    a_rows = arm_table(ctx, pa, 'alloc', counting=True)
    n_rows = arm_table(ctx, pn, 'no-alloc', counting=True)
    if not a_rows or not n_rows:
        ctx.fail_closed('T-SKIP.twins', 'the transfer table of one build of skip() could not be extracted')
        return
    k = twin_agreement(ctx, a_rows, n_rows)
    ctx.floor('T-SKIP.twins', 'compared cells', k, 40)


def run(ctx):
    ctx.rules_run.append('T-SKIP: one-iteration transfer table of skip() from symbolic counters: consumption per initial-byte class = RFC head length (+ payload / break), reserved heads rejected, truncation = end-of-input, tags bypass the counters')
    pa = load.program('core-full')
    a_rows = arm_table(ctx, pa, 'alloc', counting=True)
    s_rows = arm_table(ctx, pa, 'alloc-stack', counting=False)
    pn = load.program('core-none')
    n_rows = arm_table(ctx, pn, 'no-alloc', counting=True)
    ctx.rules_run.append('T-SKIP.twins: the alloc build restricted to counting mode and the no-alloc build have the same transfer function, except where the no-alloc build must refuse (indefinite container inside a definite one)')
    ctx.rules_run.append('T-SKIP.modes: in the alloc build a container header announces the same number of items in counting mode (added to nrounds) and in stack mode (pushed): arrays n, maps 2n, indefinite = None')
    if a_rows and s_rows:
        mode_agreement(ctx, a_rows, s_rows)
    if a_rows and n_rows:
        k = twin_agreement(ctx, a_rows, n_rows)
        ctx.floor('T-SKIP.twins', 'compared cells', k, 40)
    ctx.floor('T-SKIP', 'rows', len(a_rows or []) + len(n_rows or []), 150)
    ctx.rules_run.append('T-SKIP.sim: the nesting algorithm simulates the item-tree semantics: from every state shape (counting: bottom run / inside indefinite containers; '
                         'stack: every top-run pattern over {0, >=1} up to three frames, on the bottom or above a None, with and without a None on top) one iteration on every head class '
                         'preserves "bottom run exact, no run over-counted, same number of open indefinite containers", and the loop is left exactly when nothing is outstanding')
    from . import c06_sim
    # a build whose loop body cannot even be tabulated (reported above) is not simulated shape by shape as well
    ka = c06_sim.sim(ctx, pa, 'alloc', True) if a_rows else 0
    kn = c06_sim.sim(ctx, pn, 'no-alloc', False) if n_rows else 0
    ctx.floor('T-SKIP.sim', 'alloc rows', ka, 2500)
    ctx.floor('T-SKIP.sim', 'no-alloc rows', kn, 170)
    return ('skip(): one loop iteration interpreted from arbitrary counters in both builds (consumption, refusals, truncation, twin agreement), and from every state shape '
            'of the counting / stack bookkeeping against the item-tree semantics (simulation relation preserved by every step: %d + %d step rows). ' % (ka, kn)) + ('Bounded parts of the nesting argument: stack patterns of up to three frames per run and 0..3 enclosing indefinite containers at the mode switch (the step function is uniform beyond that: it only looks at the top run); counter saturation at 2^64 is outside the argument.')
