"""C06 / T-SKIP.sim - the nesting algorithm of skip() simulates the item-tree semantics (measure-vector argument).

Reference semantics (written from RFC 8949 section 3: definite containers announce their element count, indefinite ones
end at the break): while an item tree is being traversed, let U = (u_0 .. u_k) hold, for every run of open definite
containers between two open indefinite ones (bottom to top), the number of items that still have to be *completed* there
after the container currently open above it has been completed.  One head of the input changes U as follows:

    scalar / complete string / empty definite container   u_top := max(u_top - 1, 0)
    definite container with c >= 1 children               u_top := max(u_top - 1, 0) + c       (maps: c = 2 * pairs)
    indefinite container                                   u_top := max(u_top - 1, 0);  U := U ++ (0)
    break (only where u_top = 0 and k >= 1)                U := U without its last component
    tag                                                    nothing (the tagged item follows)

and the traversal of one item starts with U = (1) and is complete exactly when U = (0).  (u_top = 0 with k >= 1 is the
"free" position directly inside an indefinite container: any number of items may follow.)

The implementation state is mapped to a vector V of the same shape: counting mode (nrounds, irounds, empty stack) is
V = (0, .., 0, nrounds) with irounds zeros; stack mode is V = the per-segment sums of the stack split at its None entries,
the top segment counted + 1 when it is not empty (a frame Some(t) at the top stands for t + 1 outstanding items, below a
child for t).  The rule checks, on the code's own one-iteration transfer function (extracted by abstract interpretation
from arbitrary symbolic states of each shape), that

    v_0 = u_0   and   v_j <= u_j (j >= 1),  same length                     (R)

is preserved by every step and that the loop is left exactly in V = (0).  (R) gives both directions of the property:
skip() cannot stop early (u_0 = v_0 = 0 and equal length mean U = (0)) and cannot run past the item (U = (0) forces V = (0)).
Under-counting above an indefinite container is harmless - items are free there - and is what the code does; over-counting
or any slip in the bottom run is a violation.  Counter saturation at 2^64 is outside the argument (more than 2^64 announced
items cannot be followed by that many bytes of input; both builds saturate alike - T-SKIP.twins)."""
from ..absint import Machine, State, Int, Adt, Atom, Ref, Fork, Abort, iv_and, iv_str, iv_min, iv_max, lin_add, NeedSplit
from .. import load, mir, l1, prims, oracle
from ..prims import ok, err, some, NONE, OPTION, norm_adt
from . import io_rules as io, intdec
from . import c06

BOTTOM, REST = 'BOTTOM', 'REST'      # what lies below the modelled frames: nothing / an arbitrary stack whose top entry is None


def stack_model():
    """Vec<Option<u64>> as an explicit list of frames in the abstract state (st.mem[('stk', i)], st.extra['stk'] = (base, len))"""
    o = {}

    def get(st):
        return st.extra.get('stk', (BOTTOM, 0))

    def is_empty(m, cfg, f, args, t):
        base, n = get(cfg.st)
        return Int.const(1 if (n == 0 and base == BOTTOM) else 0)

    def push(m, cfg, f, args, t):
        st = cfg.st
        base, n = get(st)
        st.mem[('stk', n)] = args[1]
        st.extra['stk'] = (base, n + 1)
        st.extra['stk_ops'] = st.extra.get('stk_ops', ()) + (('push', repr(args[1])),)
        return prims.UNIT

    def pop(m, cfg, f, args, t):
        st = cfg.st
        base, n = get(st)
        if n == 0:
            if base == BOTTOM:
                return NONE
            # the None that closes the unmodelled part: only a break may remove it (checked by the caller); anything else is reported
            if st.extra.get('rest_popped'):
                raise Abort('skip pops two entries below the modelled part of the stack')
            st.extra['rest_popped'] = True
            return some(NONE)
        v = st.mem.pop(('stk', n - 1))
        st.extra['stk'] = (base, n - 1)
        st.extra['stk_ops'] = st.extra.get('stk_ops', ()) + (('pop', repr(v)),)
        return some(v)

    def last(m, cfg, f, args, t):
        st = cfg.st
        base, n = get(st)
        if n > 0:
            return some(Ref(('stk', n - 1), (), True))
        if base == BOTTOM:
            return NONE
        st.mem[('stk_rest_top',)] = NONE     # by assumption the part below ends with a None entry
        return some(Ref(('stk_rest_top',), (), True))

    o['std::vec::Vec::<T, A>::is_empty'] = is_empty
    o['std::vec::Vec::<T, A>::push'] = push
    o['std::vec::Vec::<T, A>::pop'] = pop
    o['core::slice::<impl [T]>::last'] = last
    o['core::slice::<impl [T]>::last_mut'] = last
    o['<std::vec::Vec<T, A> as std::ops::Deref>::deref'] = lambda m, cfg, f, args, t: args[0]
    o['<std::vec::Vec<T, A> as std::ops::DerefMut>::deref_mut'] = lambda m, cfg, f, args, t: args[0]
    o['std::vec::Vec::<T>::new'] = lambda m, cfg, f, args, t: Atom('stack')
    return o


def sat_prims():
    """saturating arithmetic as plain arithmetic (no announced count reaches 2^64 on a real input), subtraction clamped at 0"""
    o = {}
    base = c06.stack_prims()
    for op in ('add', 'mul', 'sub'):
        o['core::num::<impl u64>::saturating_%s' % op] = base['core::num::<impl u64>::saturating_%s' % op]
    return o


def frames_of(st):
    base, n = st.extra.get('stk', (BOTTOM, 0))
    return base, [st.mem.get(('stk', i)) for i in range(n)]


def is_none_frame(v):
    return isinstance(v, Adt) and norm_adt(v.adt) == OPTION and v.variant == 0


def frame_val(v):
    if isinstance(v, Adt) and norm_adt(v.adt) == OPTION and v.variant == 1 and isinstance(v.fields[0], Int):
        return v.fields[0]
    return None


def measures(base, frames, n=None, i=None):
    """V of an implementation state (list of Int, bottom to top); None if a frame is not understood.
    REST contributes its (unknown) components symbolically as the single marker 'REST' at the front."""
    if n is not None:
        # counting mode
        if not (isinstance(i, Int) and i.is_const()):
            return None
        return ([] if base == BOTTOM else ['REST']) + [Int.const(0)] * i.c + [n]
    segs = [[]]
    for f in frames:
        if is_none_frame(f):
            segs.append([])
        else:
            v = frame_val(f)
            if v is None:
                return None
            segs[-1].append(v)
    out = []
    for k, sg in enumerate(segs):
        tot = Int.const(0)
        for v in sg:
            tot = lin_add(tot, v, 1)
        if k == len(segs) - 1 and sg:
            tot = lin_add(tot, Int.const(1), 1)
        out.append(tot)
    if base == REST:
        # the modelled frames continue the top segment of REST only if REST ends with a None: they form a new segment
        out = ['REST'] + out
    return out


def run_step(prog, n0, i0, frames, base=BOTTOM, ranges=None, max_configs=4000):
    """one iteration of skip's outer loop from the given implementation state; returns (inst, outcomes, machine, head, names)"""
    inst = prog.one(c06.SKIP)
    if inst is None:
        return None
    body = inst['body']
    big = io.loop_heads(body)
    outer_head = big[0][1][0]
    names = c06.skip_roles(body, outer_head)
    if 'nrounds' not in names or 'irounds' not in names:
        raise Abort('skip has no pair of u64 loop counters initialised to 1 and 0 before its loop (anchor moved)')
    ov = dict(l1.decoder_overrides())
    ov[l1.DEC + 'type_of'] = c06.type_of_prim
    ov.update(sat_prims())
    ov.update(stack_model())
    from .. import l2

    def range_next(m, cfg, f, args, t):
        r = args[0]
        it = m.read_path(cfg.st, r.key, r.path) if isinstance(r, Ref) else None
        if isinstance(it, Adt) and it.adt.endswith('ops::Range'):
            return l2.range_next(m, cfg, r, it)
        return NotImplemented
    ov['std::iter::range::<impl std::iter::Iterator for std::ops::Range<A>>::next'] = range_next
    ov['<I as std::iter::IntoIterator>::into_iter'] = lambda m, cfg, f, args, t: args[0]
    # strings: the chunk loops are T-SKIP's / T-CHUNK's business (exact consumption); for the counters a string is one scalar item
    for it in ('BytesIter', 'StrIter'):
        ov["<minicbor::decode::decoder::%s<'_, '_> as std::iter::Iterator>::next" % it] = (
            lambda m, cfg, f, args, t: Fork([(None, NONE), (lambda s: s.events.append(('EOI', 'chunk')), some(err(l1.eoi_error())))]))
    m = Machine(prog, prims=prims.P, overrides=ov, max_configs=max_configs, max_steps=600000)
    m.cuts = {outer_head}
    st = State()
    for s_, (ty, rng) in (ranges or {}).items():
        st.ranges[s_] = rng
        st.symty[s_] = ty
    args = [m.make_value(st, body['locals'][1], 'self')]
    init = {names['nrounds']: n0, names['irounds']: i0}
    if 'stack' in names:
        init[names['stack']] = Atom('stack')
        for k, f in enumerate(frames):
            st.mem[('stk', k)] = f
        st.extra['stk'] = (base, len(frames))
    elif frames or base != BOTTOM:
        raise Abort('this build of skip has no stack')
    if 'error_msg' in names:
        init[names['error_msg']] = prims.Str(b'indefinite nesting requires alloc')
    outs = m.run(inst, args, st, start_bb=outer_head, init_locals=init)
    return inst, outs, m, outer_head, names


# ---------------------------------------------------------------------------
# the simulation check

def counters(o, names):
    fid = None
    for k in o.st.mem:
        if isinstance(k, tuple) and len(k) == 2 and isinstance(k[0], int) and k[1] == names['nrounds']:
            fid = k[0] if fid is None else min(fid, k[0])
    if fid is None:
        return None, None
    return o.st.mem.get((fid, names['nrounds'])), o.st.mem.get((fid, names['irounds']))


def normal_form(base, frames, n, i):
    """(mode, depth, top, below, intact) of an implementation state.
    depth: number of open indefinite containers the state remembers (Int; for REST relative to REST's own depth),
    top / below: measure of the top run and of the run under the topmost None (None if that run is not modelled),
    intact: the modelled frames under the topmost two runs"""
    zero = Int.const(0)
    counting = not frames and base == BOTTOM and not (isinstance(n, Int) and n.is_const() and n.c == 0 and isinstance(i, Int) and i.is_const() and i.c == 0)
    if frames or base == REST:
        if not (isinstance(n, Int) and n.is_const() and n.c == 0 and isinstance(i, Int) and i.is_const() and i.c == 0):
            return None      # counters and stack in use at the same time: not a state of this algorithm
        v = measures(BOTTOM, frames)
        if v is None:
            return None
        depth = Int.const(len(v) - 1)
        below = v[-2] if len(v) >= 2 else None
        return dict(mode='stack', depth=depth, top=v[-1], below=below, rest=(base == REST), deeper=tuple(repr(x) for x in v[:-2]), nseg=len(v))
    if not isinstance(i, Int) or not isinstance(n, Int):
        return None
    return dict(mode='count', depth=i, top=n, below=zero, rest=False, deeper=('zeros',), nseg=None)


def classify(o):
    """event class of the head a step consumed: ('scalar'|'tag'|'break'|'indef'|'def', c)"""
    dd = c06.acc_decomp(o)
    if len(dd) != 1:
        return None
    d = dd[0]
    major, w = d['major'], d['w']
    if w == 'bad':
        return None
    if major == 6:
        return ('tag', None)
    if major == 7 and w == 'indef':
        return ('break', None)
    if major in (4, 5):
        if w == 'indef':
            return ('indef', None)
        a = d['arg']
        if a is None:
            return None
        c = a if major == 4 else Int([(s_, 2 * k) for s_, k in a.terms], 2 * a.c)
        return ('def', c)
    return ('scalar', None)


FAMILIES_COUNT = [
    # name, nrounds, irounds, ranges
    ('count: bottom run, n >= 1', Int.sym('n'), Int.const(0), {'n': ('u64', ((1, 1 << 40),))}),
    ('count: inside indefinite, free position (n = 0)', Int.const(0), Int.sym('i'), {'i': ('u64', ((1, 1 << 40),))}),
    ('count: inside indefinite, n = 1', Int.const(1), Int.sym('i'), {'i': ('u64', ((1, 1 << 40),))}),
]
FAMILIES_COUNT_DEEP_ALLOC = [('count: inside %d indefinite, n >= 2' % k, Int.sym('n'), Int.const(k), {'n': ('u64', ((2, 1 << 40),))}) for k in (1, 2, 3)]
FAMILIES_COUNT_DEEP_NOALLOC = [('count: inside indefinite, n >= 2', Int.sym('n'), Int.sym('i'), {'n': ('u64', ((2, 1 << 40),)), 'i': ('u64', ((1, 1 << 40),))})]


def stack_families():
    """top-run patterns over {0, >= 1} up to three frames, on the bottom and above a None; and a None on top of each shorter pattern"""
    fams = []
    pats = [()]
    for ln in (1, 2, 3):
        pats += [p for p in __import__('itertools').product((0, 1), repeat=ln)]
    for base in (BOTTOM, REST):
        for p in pats:
            if not p and base == BOTTOM:
                continue       # the empty stack is the exit state (checked separately)
            rng = {}
            frames = []
            for k, z in enumerate(p):
                if z:
                    s_ = 't%d' % k
                    rng[s_] = ('u64', ((1, 1 << 40),))
                    frames.append(some(Int.sym(s_)))
                else:
                    frames.append(some(Int.const(0)))
            fams.append(('stack: %s + %s' % (base.lower(), list(p) or 'empty top run'), frames, base, rng))
            if len(p) <= 2:
                fams.append(('stack: %s + %s + None' % (base.lower(), list(p)), frames + [NONE], base, dict(rng)))
    return fams


def sim(ctx, prog, label, has_stack):
    rule = 'T-SKIP.sim'
    zero, one = Int.const(0), Int.const(1)
    fams = [(nm, n0, i0, [], BOTTOM, rg) for nm, n0, i0, rg in FAMILIES_COUNT + (FAMILIES_COUNT_DEEP_ALLOC if has_stack else FAMILIES_COUNT_DEEP_NOALLOC)]
    if has_stack:
        fams += [(nm, zero, zero, fr, base, rg) for nm, fr, base, rg in stack_families()]
    nrows = 0
    nfam = 0
    nabort = 0
    for nm, n0, i0, frames, base, rg in fams:
        key0 = '%s|%s' % (label, nm)
        try:
            r = run_step(prog, n0, i0, frames, base, rg)
        except Abort as e:
            ctx.fail_closed(rule, '%s: the step cannot be interpreted: %s' % (key0, e))
            nabort += 1
            if nabort >= 3:
                ctx.fail_closed(rule, '%s: three state shapes in a row cannot be interpreted; the remaining ones are not attempted' % label)
                return nrows
            continue
        if r is None:
            ctx.fail_closed(rule, 'Decoder::skip not found')
            return 0
        inst, outs, m, head, names = r
        where = mir.loc(inst['sp'])
        pre = normal_form(base, frames, n0, i0)
        if pre is None:
            ctx.fail_closed(rule, '%s: family not in normal form' % key0)
            continue
        nfam += 1
        for o in outs:
            res = c06.result_of(prog, o)
            ib = c06.first_ib(o)
            if ib is None:
                if res.startswith('Err:EndOfInput'):
                    continue
                # every family is a state with outstanding work: the loop must not be left without looking at the input
                ctx.violation(rule, key0 + '|early-exit', 'from a state with outstanding items the loop ends (%s) without reading: skip would stop before the end of the item' % res, where)
                continue
            if res.startswith('Err') or any(e[0] == 'EOI' for e in o.st.events):
                continue          # refusals / truncation: T-SKIP
            ev = classify(o)
            if ev is None:
                continue
            kind, c = ev
            nn, ii = counters(o, names)
            b2, fr2 = frames_of(o.st)
            if o.kind == 'diverge':
                a = [s_ for s_ in o.st.ranges if s_.startswith('arg')]
                if kind == 'def' and a and iv_min(o.st.ranges[a[0]]) > (1 << 62):
                    continue      # announced counts beyond 2^62: the saturation region, outside the argument (see module doc)
                ctx.violation(rule, key0 + '|' + kind + '|diverge', 'the step can panic: %s' % o.why, where)
                continue
            opq = sorted(f_ for f_ in o.st.flags if f_.startswith('opaque:'))
            if opq:
                ctx.violation(rule, key0 + '|' + kind + '|opaque', 'the step goes through %s, which the analysis cannot follow (panic freedom and effect on the bookkeeping not established)' % opq[0][7:], where)
                continue
            exited = res.startswith('Ok')
            if not exited and res != 'cut:%s' % head:
                ctx.violation(rule, key0 + '|' + kind + '|incomplete', 'the step ends as %s' % res, where)
                continue
            if o.st.extra.get('rest_popped'):
                if kind == 'break' and not frames:
                    continue      # closes an indefinite container of the unmodelled part: the '+ None' families cover it
                ctx.violation(rule, key0 + '|' + kind + '|pops-too-much', 'a %s head removes an entry that belongs to an enclosing indefinite container' % kind, where)
                continue
            post = normal_form(b2, fr2, nn, ii)
            nrows += 1
            cell = ', '.join('%s in %s' % (k, iv_str(v)) for k, v in sorted(o.st.ranges.items()) if k in rg or k.startswith('arg'))
            key = '%s|%s|ib=%s' % (key0, kind, iv_str(o.st.ranges[ib]))
            if post is None:
                ctx.violation(rule, key + '|state', 'after the step the state (nrounds=%r, irounds=%r, stack %r) is not one the algorithm can interpret' % (nn, ii, fr2), where)
                continue
            # ---- reference step on (depth, top = v + d, below = w + e) --------------------------------------
            for dcase in ((0,) if (pre['mode'] == 'count' and pre['depth'].is_const() and pre['depth'].c == 0) or (pre['mode'] == 'stack' and pre['nseg'] == 1 and not pre['rest']) else (0, 1)):
                bottom_top = dcase == 0 and ((pre['mode'] == 'count' and pre['depth'].is_const() and pre['depth'].c == 0) or (pre['mode'] == 'stack' and pre['nseg'] == 1 and not pre['rest']))
                st = o.st
                d = zero
                if dcase:
                    if 'slack' not in st.ranges:
                        st.ranges['slack'] = ((1, 1 << 40),)
                        st.symty['slack'] = 'u64'
                    d = Int.sym('slack')
                u = lin_add(pre['top'], d, 1)
                lo_u, hi_u = m.rng(st, u)
                if kind == 'break' and hi_u > 0 and lo_u > 0:
                    continue          # a break where items are still outstanding: not well-formed input
                if kind == 'break' and dcase:
                    continue
                if kind == 'break' and not (pre['top'].is_const() and pre['top'].c == 0):
                    continue
                if lo_u >= 1:
                    um1 = lin_add(u, one, -1)
                elif hi_u == 0:
                    um1 = zero
                else:
                    ctx.fail_closed(rule, '%s: family straddles the free position' % key)
                    continue
                problems = []
                if kind == 'tag':
                    want = dict(depth=pre['depth'], top=u, below=None)
                elif kind == 'scalar':
                    want = dict(depth=pre['depth'], top=um1, below=None)
                elif kind == 'def':
                    want = dict(depth=pre['depth'], top=lin_add(um1, c, 1), below=None)
                elif kind == 'indef':
                    want = dict(depth=lin_add(pre['depth'], one, 1), top=zero, below=um1)
                else:   # break
                    lo_d, hi_d = m.rng(st, pre['depth'])
                    if hi_d == 0 and not pre['rest']:
                        continue      # no indefinite container open: not well-formed input
                    want = dict(depth=lin_add(pre['depth'], one, -1), top=pre['below'], below=None)
                    if want['top'] is None:
                        continue      # the run below is not modelled in this family (covered by the '+ None' families)
                # depth
                if post['mode'] == 'count' or pre['mode'] == 'count':
                    dpost = post['depth']
                else:
                    dpost = post['depth']
                if dpost != want['depth']:
                    problems.append('it remembers %r open indefinite container(s), the item tree has %r' % (dpost, want['depth']))
                # exactness of the bottom run / no over-count elsewhere
                wd = want['depth']
                lo_wd, hi_wd = m.rng(st, wd)
                top_is_bottom = (hi_wd == 0 and not pre['rest'])
                diff = lin_add(want['top'], post['top'], -1)
                lo, hi = m.rng(st, diff)
                if top_is_bottom:
                    if not (diff.is_const() and diff.c == 0) and not (lo == 0 and hi == 0):
                        problems.append('the bottom run has %r outstanding item(s) in the tree but the state stands for %r' % (want['top'], post['top']))
                elif lo < 0:
                    problems.append('the top run has %r outstanding item(s) in the tree but the state stands for %r (over-count: a break would be passed over)' % (want['top'], post['top']))
                if want['below'] is not None:
                    if post['below'] is None:
                        problems.append('the run under the new indefinite container is lost')
                    else:
                        diff2 = lin_add(want['below'], post['below'], -1)
                        lo2, hi2 = m.rng(st, diff2)
                        below_is_bottom = bottom_top
                        if below_is_bottom:
                            if not (lo2 == 0 and hi2 == 0):
                                problems.append('under the new indefinite container %r item(s) remain in the tree, the state keeps %r' % (want['below'], post['below']))
                        elif lo2 < 0:
                            problems.append('under the new indefinite container %r item(s) remain in the tree, the state keeps %r (over-count)' % (want['below'], post['below']))
                if exited:
                    # leaving the loop is right exactly when nothing is outstanding anywhere
                    lo_t, hi_t = m.rng(st, want['top'])
                    if not (hi_wd == 0 and not pre['rest'] and hi_t == 0):
                        problems.append('the loop is left although the tree still has outstanding items (depth %r, top %r)' % (want['depth'], want['top']))
                elif top_is_bottom:
                    lo_t, hi_t = m.rng(st, want['top'])
                    if hi_t == 0 and post['mode'] == 'stack' and not fr2 and b2 == BOTTOM:
                        pass
                if problems:
                    ctx.violation(rule, key + ('|slack' if dcase else ''), 'from {%s}%s on a %s head%s: %s' % (
                        cell, ' (tree has more outstanding items than the state counts)' if dcase else '', kind, (' announcing %r item(s)' % c) if c is not None else '', '; '.join(problems)), where)
                else:
                    ctx.ok(rule, key + ('|slack' if dcase else ''))
    # exit state: nothing outstanding -> the loop ends without reading
    try:
        r = run_step(prog, zero, zero, [], BOTTOM, {})
        inst, outs, m, head, names = r
        bad = [o for o in outs if not (o.kind == 'return' and l1.result_kind(o.value) == 'Ok' and c06.first_ib(o) is None)]
        if bad or not outs:
            ctx.violation(rule, label + '|exit', 'with nothing outstanding (nrounds = irounds = 0, empty stack) skip does not return Ok without reading (%s)' % (c06.result_of(prog, bad[0]) if bad else 'no path'), mir.loc(inst['sp']))
        else:
            ctx.ok(rule, label + '|exit')
    except Abort as e:
        ctx.fail_closed(rule, '%s: exit state cannot be interpreted: %s' % (label, e))
    ctx.count(rule + '.families.' + label, nfam)
    return nrows
