"""C07 - CborLen is exact (DESIGN 5.7)."""
from .. import load, tables, mir
from . import lens, summaries

SCALAR_SELF = set(lens.SCALARS)


def builtin_impls(ctx, prog, rule='S-LEN'):
    impls = [i for i in prog.impls if i['trait'] == 'minicbor::encode::CborLen' and i['krate'] == 'minicbor']
    n = 0
    roots = 0
    for i in impls:
        st = i['self_ty']
        if st in SCALAR_SELF:
            continue
        lp = i['trait_ref'] + '::cbor_len'
        ep = i['trait_ref'].replace('CborLen<', 'Encode<') + '::encode'
        if not prog.find(ep):
            ctx.violation(rule + '.pair', st, 'CborLen is implemented but Encode is not', mir.loc(i['sp']))
            continue
        roots += 1
        n += summaries.compare_len_enc(ctx, rule, st, prog, ep, lp)
    ctx.floor(rule, 'built-in CborLen impls', roots, 85)
    ctx.count(rule + '.pairs', n)
    return roots


def run_config(ctx):
    """the configuration-dependent part (built-in impls of the crate itself); the derive corpus is expanded once, for the host"""
    return run(ctx, derive=False)


def run(ctx, derive=True):
    prog = load.program('core-full')
    ctx.rules_run.append('T-LEN: cbor_len table of the 12 scalar types = length of the encoder table, cell by cell (complete)')
    ok = 0
    for t in lens.SCALARS:
        if lens.check_scalar(ctx, prog, t):
            ok += 1
    ctx.floor('T-LEN', 'scalar types', ok, 12)
    ctx.rules_run.append('S-LEN: for every built-in impl and every Token variant, the length summary equals the length of the emission summary (all values at once)')
    roots = builtin_impls(ctx, prog)
    derived = 0
    try:
        if not derive:
            raise ImportError()
        from . import derive_rules
        derived = derive_rules.c07(ctx)
        if ctx.tier == 'thorough':
            derived += derive_rules.on_random(ctx, derive_rules.c07)
    except ImportError:
        if derive:
            ctx.notes.append('derive corpus not built')
    return ('Scalar length tables equal encoder tables on every cell; item-level length summaries of %d built-in impls equal their emission summaries; '
            '%d derived schema x presence-vector cases compared.' % (roots, derived))
