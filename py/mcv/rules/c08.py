"""C08 - derived Encode emits the documented wire format (DESIGN 5.8)."""
from . import derive_rules


def run(ctx):
    ctx.rules_run.append('S-ENC.derive: emission summary of every corpus schema x presence vector = documented format (reference function)')
    n = derive_rules.c08(ctx)
    if ctx.tier == 'thorough':
        n += derive_rules.on_random(ctx, derive_rules.c08)
    return ('The derived Encode of every corpus schema was expanded by the real proc-macro, its MIR interpreted abstractly for every '
            'variant and presence vector (all leaf values at once) and compared with the documented format: %d cases.' % n)
