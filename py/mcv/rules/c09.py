"""C09 - derived Encode/Decode round-trip (DESIGN 5.9)."""
from . import derive_rules


def run(ctx):
    ctx.rules_run.append('S-RT.derive: derived decode interpreted over the abstract item stream of the derived encode: Ok, whole stream consumed, field<->field, nil defaults, skipped -> Default, Cow borrowed')
    ctx.rules_run.append('S-RT.indef: the same with the type\'s own container re-framed as indefinite-length')
    n = derive_rules.c09(ctx)
    if ctx.tier == 'thorough':
        n += derive_rules.on_random(ctx, derive_rules.c09)
    ctx.rules_run.append('NIL-PAIR: every type (built-in and corpus) whose Encode overrides is_nil and that implements Decode also overrides nil (else derived writers omit what derived readers require)')
    from .. import load
    k = derive_rules.nil_pair(ctx, load.program(derive_rules.CONFIG), ('mcv_schemas',)) + derive_rules.nil_pair(ctx, load.program('core-full'), ('minicbor',))
    ctx.floor('NIL-PAIR', 'two-sided types', k, 150)
    ctx.rules_run.append('S-ERR: streams with a wrong/missing tag, an undeclared variant index or a missing mandatory field are rejected on every path')
    n += derive_rules.c09_errors(ctx)
    return 'Derived decoders were run abstractly over the derived encoders\' item streams for every corpus schema, variant and presence vector: %d cases.' % n
