"""C10 - forward/backward compatibility of derived codecs (DESIGN 5.10)."""
from . import derive_rules


def run(ctx):
    ctx.rules_run.append('S-COMPAT: reader version decoded abstractly over the writer version\'s item stream for every documented-compatible edit, both directions, every variant and presence vector')
    n = derive_rules.c10(ctx)
    ctx.rules_run.append('NIL-PAIR: built-in types whose Encode overrides is_nil also override Decode::nil (an optional field the writer omits must be absent-able for every reader version)')
    from .. import load
    derive_rules.nil_pair(ctx, load.program('core-full'), ('minicbor',))
    return 'Reader schemas were run over writer schemas\' emissions for %d (pair, direction, variant, presence) cases; an incompatible control pair must be reported.' % n
