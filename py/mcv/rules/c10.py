"""C10 - forward/backward compatibility of derived codecs (DESIGN 5.10)."""
from . import derive_rules


def run(ctx):
    ctx.rules_run.append('S-COMPAT: reader version decoded abstractly over the writer version\'s item stream for every documented-compatible edit, both directions, every variant and presence vector')
    n = derive_rules.c10(ctx)
    return 'Reader schemas were run over writer schemas\' emissions for %d (pair, direction, variant, presence) cases; an incompatible control pair must be reported.' % n
