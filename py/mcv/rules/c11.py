"""C11 - token streams are faithful (DESIGN 5.11): decode-table o encode-table composition at the byte level."""
from ..absint import Machine, State, Int, Adt, Atom, BeBytes, Slice, Ref, Abort, iv_str, iv_min, iv_max, lin_add
from .. import load, tables, mir, l1, prims, oracle
from . import acc

TOKEN = "minicbor::data::token::Token<'_>"
TDEC = "<%s as minicbor::decode::Decode<'_, C>>::decode" % TOKEN
TENC = "<%s as minicbor::encode::Encode<C>>::encode" % TOKEN
ONE_BYTE = {0x5f: 'BeginBytes', 0x7f: 'BeginString', 0x9f: 'BeginArray', 0xbf: 'BeginMap', 0xf6: 'Null', 0xf7: 'Undefined', 0xff: 'Break'}
HALF_RT = 'f16::to_bits(f16::from_f32(f16::to_f32(f16::from_bits(%s))))'


def variant_name(prog, v):
    ad = prog.adts.get(v.adt)
    return ad['variants'][v.variant]['name'] if ad else str(v.variant)


def reencode(prog, row, token):
    """interpret Token::encode on the decoded token under the decode row's cell; returns list of (state, stream)"""
    inst = prog.one(TENC)
    m = l1.encoder_machine(prog)
    st = row.st.clone()
    st.events = []
    st.flags = set()
    st.mem[('arg', 'tok')] = token
    st.mem[('arg', 'enc')] = Atom('encoder')
    st.mem[('arg', 'ctx')] = Atom('ctx')
    outs = m.run(inst, [Ref(('arg', 'tok')), Ref(('arg', 'enc'), (), True), Ref(('arg', 'ctx'), (), True)], st)
    res = []
    for o in outs:
        if o.kind == 'return' and l1.result_kind(o.value) == 'Ok':
            res.append((o.st, tables.recombine(tables.flatten_puts(o.st.events), o.st), sorted(f for f in o.st.flags if f.startswith(('imprecise', 'opaque', 'trunc')))))
    return m, res


INT_FAMILY = {'U8', 'U16', 'U32', 'U64', 'I8', 'I16', 'I32', 'I64', 'Int'}


def family(vn):
    return INT_FAMILY if vn in INT_FAMILY else {vn}


def converse(ctx, prog, rows, where):
    """T-TOKEN.converse: every token variant, encoded with a symbolic payload, starts with an initial byte that tokenises
    back to the same variant (integer variants: to an integer variant).  Together with T-TOKEN (re-encoding a decoded token
    gives the same bytes) and the injectivity of the head tables (C03) this is value equality of the round trip
    encode -> tokenise; what it adds to T-TOKEN is that no two different variants are written to the same bytes."""
    ctx.rules_run.append('T-TOKEN.converse: Token::encode of every variant (symbolic payload) emits an initial byte on which Token::decode yields a value-compatible variant')
    from ..absint import iv_and, iv_norm
    fwd = []     # (initial-byte set, variant) of the successful tokenisation cells
    for r in rows:
        if r.kind != 'return' or r.result != 'Ok':
            continue
        vn = variant_name(prog, r.raw.fields[0])
        for d in acc.decomp(r):
            fwd.append((d['part'], vn))
    # tokenisation paths that *reject* a complete head (not for lack of input), with what they looked at behind the initial byte
    fwd_bad = []
    for r in rows:
        if r.kind != 'return' or r.result != 'Err' or r.eoi() or r.value not in ('TypeMismatch', 'Message'):
            continue          # (overflow / UTF-8 errors depend on argument bits and payload the head classes do not fix)
        pk = [e for e in r.events if e[0] == 'PEEK']
        for d in acc.decomp(r):
            cons = r.st.ranges.get(pk[0][1]) if pk else (d['argset'] if d.get('arg') is not None and d['w'] == 1 else None)
            fwd_bad.append((d['part'], cons, r.value))
    adname = TOKEN.split('<')[0]
    ad = prog.adts[adname]
    inst = prog.one(TENC)
    if inst is None:
        ctx.fail_closed('T-TOKEN.converse', 'Token::encode not found')
        return
    tokty = {'s': TOKEN, 'adt': adname, 'args': ["'b"], 'k': 'adt'}
    nvar = 0
    for vi, v in enumerate(ad['variants']):
        vn = v['name']
        if vn == 'F16' and not prog.feature('half'):
            continue
        m = l1.encoder_machine(prog)
        st = State()
        tok = m.make_variant(st, tokty, ad, vi, 'tok')
        st.mem[('arg', 'tok')] = tok
        st.mem[('arg', 'enc')] = Atom('encoder')
        st.mem[('arg', 'ctx')] = Atom('ctx')
        try:
            outs = m.run(inst, [Ref(('arg', 'tok')), Ref(('arg', 'enc'), (), True), Ref(('arg', 'ctx'), (), True)], st)
        except Abort as e:
            ctx.fail_closed('T-TOKEN.converse', 'Token::encode cannot be summarised for %s: %s' % (vn, e))
            continue
        nvar += 1
        nok = 0
        for o in outs:
            if o.kind != 'return' or l1.result_kind(o.value) != 'Ok':
                continue
            stream = tables.recombine(tables.flatten_puts(o.st.events), o.st)
            if not stream or not isinstance(stream[0], Int):
                ctx.violation('T-TOKEN.converse', vn + '|head', 'encoding %s writes no recognisable initial byte (%s)' % (vn, tables.fmt_stream(stream)), where)
                continue
            nok += 1
            h = stream[0]
            if h.is_const():
                ibs = ((h.c, h.c),)
            else:
                sg = h.single()
                if not sg or sg[1] != 1:
                    lo, hi = m.rng(o.st, h)
                    ibs = ((lo, hi),)
                else:
                    ibs = tuple((a + sg[2], b + sg[2]) for a, b in o.st.ranges[sg[0]])
            got = {}
            covered = ()
            for part, fv in fwd:
                x = iv_and(part, ibs)
                if x:
                    got.setdefault(fv, []).extend(x)
                    covered = iv_norm(covered + tuple(x))
            bad = {fv: iv_norm(tuple(x)) for fv, x in got.items() if fv not in family(vn)}
            key = '%s|%s' % (vn, iv_str(ibs))
            # the byte behind the initial byte as the encoder writes it (the argument itself, or its most significant byte)
            nxt = None
            if len(stream) >= 2:
                t1 = stream[1]
                if isinstance(t1, Int):
                    nxt = ((m.rng(o.st, t1)),)
                elif isinstance(t1, BeBytes) and isinstance(t1.val, Int) and t1.n:
                    lo_, hi_ = m.rng(o.st, t1.val)
                    sh = 8 * (t1.n - 1)
                    nxt = ((lo_ >> sh, hi_ >> sh),) if lo_ >= 0 else None
            rejected = None
            for part, cons, cls in fwd_bad:
                if not iv_and(part, ibs):
                    continue
                if cons is None or nxt is None or iv_and(cons, nxt):
                    rejected = (iv_and(part, ibs), cons, cls)
                    break
            if rejected and not bad:
                ctx.violation('T-TOKEN.converse', '%s|rejected' % vn, 'token %s (%s) is written as initial byte %s%s, which tokenisation rejects with %s%s: the token does not tokenise back'
                              % (vn, l1.fmt_cell(o.st), iv_str(rejected[0]), (' followed by %s' % iv_str(nxt)) if nxt else '', rejected[2],
                                 (' when the next byte is in %s' % iv_str(rejected[1])) if rejected[1] else ''), where)
                continue
            if bad:
                for fv, x in sorted(bad.items()):
                    ctx.violation('T-TOKEN.converse', '%s|as=%s' % (vn, fv), 'token %s (%s) is written with initial byte %s, which tokenises as %s: the token does not survive encoding' % (vn, l1.fmt_cell(o.st), iv_str(x), fv), where)
            elif iv_norm(covered) != iv_norm(ibs):
                ctx.violation('T-TOKEN.converse', key + '|untokenisable', 'token %s is written with initial byte %s, part of which no successful tokenisation path accepts (accepted: %s)' % (vn, iv_str(ibs), iv_str(covered) if covered else '-'), where)
            else:
                ctx.ok('T-TOKEN.converse', key)
        if not nok:
            ctx.violation('T-TOKEN.converse', vn + '|refused', 'encoding %s never succeeds' % vn, where)
    ctx.floor('T-TOKEN.converse', 'variants', nvar, 25 + (1 if prog.feature('half') else 0))


def tokenizer_rules(ctx, prog):
    """Tokenizer::token, interpreted for every kind of decoder it can hold (owned / borrowed) with `decode()` succeeding or
    failing: on every error return the decoder is left at the end of the input (so the iterator ends after an error); on success
    the position is whatever decode() left.  next() maps exactly the end-of-input class to None."""
    from ..absint import Fork
    from ..prims import ok, err
    ctx.rules_run.append('T-TOKENIZER: Tokenizer::token interpreted for owned and borrowed decoders x decode() Ok/Err: every error return leaves the position at input().len(), success never moves it; next() maps exactly the end-of-input class to None')
    tok = prog.one("minicbor::decode::tokenizer::Tokenizer::<'_, '_>::token")
    if tok is None:
        ctx.fail_closed('T-TOKENIZER', 'Tokenizer::token not found')
    else:
        def dec_decode(m, cfg, f, args, t):
            cfg.st.events.append(('DECODE',))
            return Fork([(None, ok(Atom('token'))), (None, err(Atom('error')))])
        ov = dict(l1.decoder_overrides())
        ov[l1.DEC + 'decode'] = dec_decode
        m = Machine(prog, prims=prims.P, overrides=ov)
        st = State()
        body = tok['body']
        names = dict(body['names'])
        args = [m.make_value(st, body['locals'][i], names.get(i, 'a%d' % i)) for i in range(1, body['argc'] + 1)]
        where = mir.loc(tok['sp'])
        try:
            outs = m.run(tok, args, st)
        except Abort as e:
            outs = None
            ctx.fail_closed('T-TOKENIZER', 'Tokenizer::token cannot be interpreted: %s' % e)
        kinds = set()
        for o in outs or []:
            ch = ','.join('%s=%s' % kv for kv in (o.st.extra.get('choices') or ())) or 'decoder=?'
            if o.kind != 'return':
                ctx.violation('T-TOKENIZER', 'total|' + ch, 'token() does not return: %s' % o.why, where)
                continue
            kinds.add(ch)
            res = l1.result_kind(o.value)
            sets = [e for e in o.st.events if e[0] == 'SETPOS']
            ndec = len([e for e in o.st.events if e[0] == 'DECODE'])
            if ndec != 1:
                ctx.violation('T-TOKENIZER', 'decode|' + ch, 'token() calls decode() %d times on one path' % ndec, where)
            elif res == 'Ok':
                if sets:
                    ctx.violation('T-TOKENIZER', 'ok-moves|' + ch, 'on success (%s) the position is set to %r' % (ch, sets[-1][1]), where)
                else:
                    ctx.ok('T-TOKENIZER', 'ok|' + ch)
            else:
                end = sets[-1][1] if sets else None
                if isinstance(end, Int) and end == Int.sym('inputlen'):
                    ctx.ok('T-TOKENIZER', 'err|' + ch)
                else:
                    ctx.violation('T-TOKENIZER', 'drain|' + ch, 'after a decoding error (%s) the decoder is left at %s instead of the end of the input: the iterator would yield from the same bytes again and never end'
                                  % (ch, 'position %r' % (end,) if sets else 'the position where decoding stopped'), where)
        if outs is not None and len(kinds) < 2:
            ctx.fail_closed('T-TOKENIZER', 'expected paths for an owned and a borrowed decoder, found %r' % sorted(kinds))
    nxt = prog.one("<minicbor::decode::tokenizer::Tokenizer<'_, '_> as std::iter::Iterator>::next")
    if nxt is None:
        ctx.fail_closed('T-TOKENIZER', 'Tokenizer::next not found')
    else:
        calls = [mir.callee_path(t) for bi, t in mir.iter_calls(nxt['body'])]
        if any(c and c.endswith('Error::is_end_of_input') for c in calls) and any(c and c.endswith('::token') for c in calls):
            ctx.ok('T-TOKENIZER', 'next: None on is_end_of_input')
        else:
            ctx.violation('T-TOKENIZER', 'next', 'Tokenizer::next does not classify errors with is_end_of_input (callees %s)' % [c.split('::')[-1] for c in calls if c], mir.loc(nxt['sp']))


def run(ctx):
    prog = load.program('core-full')
    ctx.rules_run.append('T-TOKEN: for every cell of Token::decode the token is re-encoded by abstract interpretation of Token::encode: the bytes are the preferred serialisation of the same head (identical for preferred input); >= 1 byte per token')
    res = tables.dec_rows(prog, TDEC, max_configs=8000)
    if res is None:
        ctx.fail_closed('T-TOKEN', 'Token::decode not found')
        return 'failed'
    inst, rows, m = res
    where = mir.loc(inst['sp'])
    n = 0
    seen_variants = set()
    for r in rows:
        if r.kind != 'return':
            ctx.violation('T-TOKEN.total', 'decode', 'a tokenisation path does not return: %s' % r.why, where)
            continue
        if r.result != 'Ok':
            continue
        tok = r.raw.fields[0]
        vn = variant_name(prog, tok)
        seen_variants.add(vn)
        cons = r.consumed()
        if not cons:
            ctx.violation('T-TOKEN', 'progress|' + vn, 'a token (%s) is produced without consuming any input byte: tokenisation would not terminate' % vn, where)
            continue
        if any(e[0] == 'SETPOS' for e in r.events):
            ctx.violation('T-TOKEN', 'setpos|' + vn, 'the position is set to something other than "one past the inspected byte" while producing %s' % vn, where)
            continue
        for d in acc.decomp(r):
            n += 1
            part, major, w = d['part'], d['major'], d['w']
            key = 'ib=%s|%s' % (iv_str(part), vn)
            # expected re-encoding: preferred head of (major, arg) [+ payload], or the one-byte item itself
            st = r.st
            lo, hi = iv_min(part), iv_max(part)
            if w in ('indef',) or (major == 7 and w == 0 and d['argset'] and iv_min(d['argset']) >= 20):
                exp = None   # one-byte items: exactly the byte read
                one = True
            elif w == 'bad':
                ctx.violation('T-TOKEN', key, 'a reserved initial byte %s yields token %s' % (iv_str(part), vn), where)
                continue
            else:
                one = False
            try:
                em, outs = reencode(prog, r, tok)
            except Abort as e:
                ctx.fail_closed('T-TOKEN', 'Token::encode cannot be summarised on %s: %s' % (key, e))
                continue
            if not outs:
                # the encoder refuses this token (excluded: "once encoded")
                ctx.ok('T-TOKEN.refused', key, nontrivial=False)
                continue
            for st2, stream, flags in outs:
                if flags:
                    ctx.violation('T-TOKEN.precision', key, 're-encoding not exact (%s)' % ','.join(flags), where)
                    continue
                b0 = Int.sym(d['b0'])
                if one:
                    good = len(stream) == 1 and isinstance(stream[0], Int) and (stream[0] == b0 or (stream[0].is_const() and (stream[0].c,) == tuple(set(range(lo, hi + 1))) if lo == hi else stream[0] == b0))
                    if lo == hi and len(stream) == 1 and isinstance(stream[0], Int) and stream[0].is_const():
                        good = stream[0].c == lo
                    if good:
                        ctx.ok('T-TOKEN', key)
                    else:
                        ctx.violation('T-TOKEN', key + '|bytes', 'the one-byte item %s re-encodes as %s' % (iv_str(part), tables.fmt_stream(stream)), where)
                    continue
                arg = d['arg']
                if arg is None:
                    ctx.violation('T-TOKEN', key + '|arg', 'a token is produced from head %s without reading its argument (consumed %r)' % (iv_str(part), cons), where)
                    continue
                if major == 7 and w in (2, 4, 8):
                    # floats: the bit pattern must come back unchanged
                    want_val = {2: HALF_RT % repr(arg), 4: 'f32::from_bits(%r)' % arg, 8: 'f64::from_bits(%r)' % arg}[w]
                    ok_ = (len(stream) == 2 and isinstance(stream[0], Int) and stream[0].is_const() and stream[0].c == lo and isinstance(stream[1], BeBytes)
                           and stream[1].n == w and isinstance(stream[1].val, Atom) and stream[1].val.name == want_val)
                    if ok_:
                        ctx.ok('T-TOKEN', key)
                    else:
                        ctx.violation('T-TOKEN', key + '|float', 'float head %s re-encodes as %s (expected the same %d-byte pattern)' % (iv_str(part), tables.fmt_stream(stream), w), where)
                    continue
                if major == 7 and w == 1:
                    # two-byte simple value: f8 n for n >= 32 (smaller n are not well-formed input)
                    lo_a, hi_a = em.rng(st2, arg)
                    if hi_a >= 32:
                        exp = [Int.const(0xf8), arg]   # arguments below 32 are not well-formed input (don't care)
                    elif hi_a < 32:
                        ctx.ok('T-TOKEN.illformed', key, nontrivial=False)
                        continue
                    else:
                        exp = None
                    if exp is None or not tables.stream_eq(stream, exp):
                        ctx.violation('T-TOKEN', key + '|simple', 'simple value head f8 with argument in [%d, %d] re-encodes as %s' % (lo_a, hi_a, tables.fmt_stream(stream)), where)
                    else:
                        ctx.ok('T-TOKEN', key)
                    continue
                if major == 7 and w == 0:
                    exp = [b0]
                else:
                    exp, why = tables.expected_head(em, st2, major, arg)
                    if exp is None:
                        ctx.violation('T-TOKEN', key + '|straddle', 're-encoding of head %s: %s; emitted %s' % (iv_str(part), why, tables.fmt_stream(stream)), where)
                        continue
                    if major in (2, 3):
                        payload = [e for e in r.events if e[0] == 'READSLICE']
                        if len(payload) != 1 or payload[0][1] != arg:
                            ctx.violation('T-TOKEN', key + '|payload', 'string token without reading exactly the announced payload', where)
                            continue
                        if not stream or not (isinstance(stream[-1], tuple) and stream[-1][0] == 'DATA' and 'input@' in str(stream[-1][1])):
                            ctx.violation('T-TOKEN', key + '|payload', 're-encoding does not end with the payload slice taken from the input: %s' % tables.fmt_stream(stream), where)
                            continue
                        stream = stream[:-1]
                if tables.stream_eq(stream, exp):
                    ctx.ok('T-TOKEN', key + '|' + iv_str(st2.ranges.get(arg.terms[0][0], ())) if arg.terms else key)
                    if vn in ('U16', 'I8', 'Bytes'):
                        ctx.sample({'ib': iv_str(part), 'token': vn, 'reencoded': tables.fmt_stream(stream)})
                else:
                    ctx.violation('T-TOKEN', key + '|bytes', 'head %s (argument %s) tokenises to %s and re-encodes as %s; the preferred serialisation of that item is %s'
                                  % (iv_str(part), iv_str(d['argset']) if d['argset'] else '-', vn, tables.fmt_stream(stream), tables.fmt_stream(exp)), where)
    ctx.floor('T-TOKEN', 'cells', n, 50)
    converse(ctx, prog, rows, where)
    missing = set(v['name'] for v in prog.adts[TOKEN.split('<')[0]]['variants']) - seen_variants
    if missing:
        ctx.violation('T-TOKEN', 'variants', 'no input byte produces the token variant(s) %s' % sorted(missing), where)
    tokenizer_rules(ctx, prog)
    # skip_byte only on one-byte items: every row that used skip_byte consumed exactly one byte and is a one-byte head (checked above via `one`)
    return 'Token::decode (%d cells) composed with Token::encode by abstract interpretation; tokenizer drain/termination rules.' % n
