"""C12 - floats survive bit-exactly; half precision plumbing (DESIGN 5.12)."""
from ..absint import Int, Atom, BeBytes, Abort
from .. import load, tables, mir, l1
from . import acc
from .c04 import ref_float, F16, F32, F64, wrap_mixed

DEC = l1.DEC


def run(ctx):
    prog = load.program('core-full')
    ctx.rules_run.append('F-FLOAT.enc: Encoder::f16/f32/f64 write the constant head followed by to_be_bytes of the untouched parameter')
    exp = {'f32': [0xfa, ('x', 4)], 'f64': [0xfb, ('x', 8)], 'f16': [0xf9, ('f16::to_bits(f16::from_f32(x))', 2)]}
    half = prog.feature('half')
    if not half:
        del exp['f16']      # documented: the half-precision methods exist only with feature `half`
    for mth, (head, (nm, n)) in exp.items():
        res = tables.enc_rows(prog, mth)
        if res is None:
            ctx.fail_closed('F-FLOAT.enc', 'Encoder::%s not found' % mth)
            continue
        inst, rows, m = res
        where = mir.loc(inst['sp'])
        okr = [r for r in rows if r.result == 'Ok']
        if len(okr) != 1:
            ctx.violation('F-FLOAT.enc', 'Encoder::%s' % mth, 'expected one successful path independent of the value, found %d (the value influences control flow)' % len(okr), where)
            continue
        s = okr[0].stream
        good = (len(s) == 2 and isinstance(s[0], Int) and s[0].is_const() and s[0].c == head and isinstance(s[1], BeBytes)
                and s[1].n == n and s[1].kind == 'be' and isinstance(s[1].val, Atom) and s[1].val.name == nm)
        if good:
            ctx.ok('F-FLOAT.enc', 'Encoder::%s' % mth)
            ctx.sample({'method': mth, 'stream': tables.fmt_stream(s)})
        else:
            ctx.violation('F-FLOAT.enc', 'Encoder::%s' % mth, 'emits %s; expected [%#x, big-endian bytes of %s]: the float is transformed on its way to the sink' % (tables.fmt_stream(s), head, nm), where)
    ctx.rules_run.append('F-FLOAT.dec: accept matrix f16 c f32 c f64, consumption 3/5/9, value = from_bits of the untouched argument (widening only)')
    specs = [('f16', ref_float({2: F16})), ('f32', ref_float({2: F16, 4: F32})),
             ('f64', ref_float({2: 'f64::from(' + F16 + ')', 4: 'f64::from(' + F32 + ')', 8: F64}))]
    if not half:
        specs = [('f32', ref_float({4: F32})), ('f64', ref_float({4: 'f64::from(' + F32 + ')', 8: F64}))]   # 0xf9 is a type error without `half`
    for name, ref in specs:
        try:
            acc.check_accessor(ctx, 'F-FLOAT.dec', name, prog, DEC + name, wrap_mixed(ctx, name, ref), floor_rows=20)
        except Abort as e:
            ctx.fail_closed('F-FLOAT.dec', 'Decoder::%s cannot be summarised: %s' % (name, e))
    # Encode / Decode impls delegate to the methods above
    ctx.rules_run.append('F-FLOAT.impl: Encode/Decode for f32/f64 reach exactly Encoder::f32/f64 / Decoder::f32/f64')
    for t in ('f32', 'f64'):
        for path, want in (("<%s as minicbor::encode::Encode<C>>::encode" % t, l1.ENC + t), ("<%s as minicbor::decode::Decode<'_, C>>::decode" % t, DEC + t)):
            inst = prog.one(path)
            if inst is None:
                ctx.fail_closed('F-FLOAT.impl', '%s not found' % path)
                continue
            callees = [mir.callee_path(tt) for _, tt in mir.iter_calls(inst['body'])]
            codec = [c for c in callees if c and (c.startswith(l1.ENC) or c.startswith(DEC)) and c.split('::')[-1] not in ('ok', 'writer', 'writer_mut', 'position')]   # (non-emitting helpers do not count)
            if codec == [want]:
                ctx.ok('F-FLOAT.impl', path)
            else:
                ctx.violation('F-FLOAT.impl', path, 'reaches %r, expected exactly [%s]' % (codec, want), mir.loc(inst['sp']))
    # narrowing float casts anywhere in decode paths
    ctx.rules_run.append('F-FLOAT.cast: no narrowing FloatToFloat cast and no float arithmetic in minicbor')
    float_census(ctx, prog, 'minicbor')
    if not load.ALIAS:
        from . import controls
        controls.run(ctx, ('F-FLOAT',))
    return 'Float plumbing: encoder streams, decoder accept/value tables and cast census decided from MIR; IEEE correctness of the half crate is trusted.'


def float_census(ctx, prog, krate):
    n = 0
    for inst in prog.insts.values():
        if inst['krate'] != krate:
            continue
        for bi, si, s in mir.iter_stmts(inst['body']):
            if s['k'] != 'assign':
                continue
            r = s['r']
            if r['rv'] == 'cast' and r['kind'] in ('FloatToFloat', 'FloatToInt', 'IntToFloat'):
                n += 1
                frm, to = r['from']['s'], r['ty']['s']
                order = {'f16': 1, 'f32': 2, 'f64': 3}
                if r['kind'] == 'FloatToFloat' and order.get(to, 0) >= order.get(frm, 9):
                    ctx.ok('F-FLOAT.cast', inst['path'] + '|widen')
                else:
                    ctx.violation('F-FLOAT.cast', inst['path'] + '|' + r['kind'], 'cast %s -> %s changes float values' % (frm, to), mir.loc(s.get('sp')))
            if r['rv'] == 'bin' and r['op'] in ('Add', 'Sub', 'Mul', 'Div', 'Rem'):
                # float arithmetic: operands typed float
                lt = inst['body']['locals'][s['p']['l']] if not s['p'].get('p') else {}
                if lt.get('k', '').startswith('float'):
                    ctx.violation('F-FLOAT.arith', inst['path'], 'float arithmetic (%s) in the codec' % r['op'], mir.loc(s.get('sp')))
    ctx.count('F-FLOAT.casts_seen', n)
