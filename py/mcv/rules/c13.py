"""C13 - bounded sinks: succeeds iff it fits, never overruns, sink-independent (DESIGN 5.13)."""
from ..absint import Machine, State, Int, Adt, Atom, Slice, Ref, Abort, lin_add
from .. import load, facts, mir, l1, prims, tables
from ..prims import RESULT, norm_adt
from . import c02

W = 'minicbor::encode::write::'
SLICE_WRITE = '<&mut [u8] as minicbor::encode::write::Write>::write_all'
CURSORS = ['<minicbor::encode::write::Cursor<&mut [u8]> as minicbor::encode::write::Write>::write_all',
           '<minicbor::encode::write::Cursor<[u8; N]> as minicbor::encode::write::Write>::write_all',
           '<minicbor::encode::write::Cursor<std::boxed::Box<[u8]>> as minicbor::encode::write::Write>::write_all']


def len_exprs(body):
    """local -> ('len', description) for locals defined as the length of something"""
    out = {}
    for bi, si, s in mir.iter_stmts(body):
        if s['k'] == 'assign' and not s['p'].get('p'):
            r = s['r']
            if r.get('rv') == 'un' and r.get('op') == 'PtrMetadata':
                pl = mir.op_place(r['a'])
                out[s['p']['l']] = ('len', pl['l'] if pl else None, tuple(pj['k'] for pj in (pl.get('p') or [])) if pl else ())
    for bi, t in mir.iter_calls(body):
        p = mir.callee_path(t) or ''
        if p.endswith('::len') and not t['dest'].get('p'):
            pl = mir.op_place(t['args'][0]) if t['args'] else None
            out[t['dest']['l']] = ('len', pl['l'] if pl else None, ())
    return out


def root_of(body, local, depth=0):
    """follow copies/reborrows back to an argument local"""
    if local is None or depth > 12:
        return local
    if 1 <= local <= body['argc']:
        return local
    for bi, si, s in mir.iter_stmts(body):
        if s['k'] == 'assign' and not s['p'].get('p') and s['p']['l'] == local:
            r = s['r']
            if r.get('rv') in ('use', 'cast'):
                pl = mir.op_place(r['a'])
                if pl:
                    return root_of(body, pl['l'], depth + 1)
            if r.get('rv') in ('ref', 'rawptr'):
                return root_of(body, r['p']['l'], depth + 1)
    return local


def slice_write(ctx, prog):
    """T-SLICEWRITE: outcome table of `impl Write for &mut [u8]` over (capacity = len(*self), need = len(buf)), by abstract
    interpretation (split_at*/copy_from_slice/mem::take are primitives with their std semantics):
      need <= capacity  ->  Ok, exactly one copy of `buf` into the first `need` bytes, *self = the rest (capacity - need)
      need >  capacity  ->  Err, nothing copied, *self unchanged (so a later, smaller write still succeeds)
    and no path can panic.  The rule looks at what the function does, not at how it is written."""
    inst = prog.one(SLICE_WRITE)
    if inst is None:
        ctx.fail_closed('T-SLICEWRITE', SLICE_WRITE + ' not found')
        return
    where = mir.loc(inst['sp'])
    m = Machine(prog, prims=prims.P)
    st = State()
    body = inst['body']
    names = dict((l, n_) for l, n_ in body['names'])
    args = [m.make_value(st, body['locals'][i], names.get(i, 'a%d' % i)) for i in range(1, body['argc'] + 1)]
    try:
        outs = m.run(inst, args, st)
    except Abort as e:
        ctx.fail_closed('T-SLICEWRITE', 'cannot be summarised: %s' % e)
        return
    cap, need = Int.sym('self*.len'), Int.sym('buf.len')
    if 'self*.len' not in st.ranges or 'buf.len' not in st.ranges:
        ctx.fail_closed('T-SLICEWRITE', 'argument lengths are not symbols of the analysis (%r)' % sorted(st.ranges))
        return
    for site, rec in m.assert_sites.items():
        if rec['open'] or rec['fail']:
            ctx.violation('T-SLICEWRITE', 'panic|' + rec['kind'], 'a write can panic (%s is not implied by the tests made before it): a too long write must be an error' % rec['kind'], mir.loc(rec.get('sp')) or where)
    seen = {'fit': 0, 'nofit': 0}
    for o in outs:
        if o.kind != 'return':
            ctx.violation('T-SLICEWRITE', 'diverge', 'write_all can diverge: %s' % o.why, where)
            continue
        fits = m.compare(o.st, 'Le', need, cap)
        v = o.value
        isok = isinstance(v, Adt) and norm_adt(v.adt) == RESULT and v.variant == 0
        selfv = o.st.mem.get(('arg', 'self'))
        copies = o.st.extra.get('copies', ())
        if not (isinstance(fits, Int) and fits.is_const()):
            ctx.violation('T-SLICEWRITE', 'undecided|' + ('ok' if isok else 'err'), 'a path returns %s without having established whether len(buf) <= len(self)' % ('Ok' if isok else 'Err'), where)
            continue
        if fits.c:
            seen['fit'] += 1
            if not isok:
                ctx.violation('T-SLICEWRITE', 'exact-fit', 'a write that fits (len(buf) <= len(self)) is rejected', where)
                continue
            want_copy = (("'head(self**)'", repr(need), "'buf*'", repr(need)),)
            if copies != want_copy:
                ctx.violation('T-SLICEWRITE', 'copy', 'a fitting write copies %r; expected exactly the bytes offered into the first len(buf) bytes' % (copies,), where)
            elif not (isinstance(selfv, Slice) and selfv.base is None and selfv.data == 'tail(self**)' and selfv.len == lin_add(cap, need, -1)):
                ctx.violation('T-SLICEWRITE', 'rest', 'after a fitting write the slice is %r; expected the part behind the bytes written (len(self) - len(buf))' % (selfv,), where)
            else:
                ctx.ok('T-SLICEWRITE', 'fits -> Ok, one copy of buf, rest kept')
        else:
            seen['nofit'] += 1
            if isok:
                ctx.violation('T-SLICEWRITE', 'overrun', 'a write longer than the slice reports success', where)
            elif copies:
                ctx.violation('T-SLICEWRITE', 'all-or-nothing', 'bytes are copied (%r) although the write does not fit (partial write)' % (copies,), where)
            elif not (isinstance(selfv, Slice) and selfv.data == 'self**' and selfv.len == cap):
                ctx.violation('T-SLICEWRITE', 'consumed-on-error', 'a rejected write changes the slice to %r: the remaining capacity is lost, a later write that fits would be rejected' % (selfv,), where)
            else:
                ctx.ok('T-SLICEWRITE', 'does not fit -> Err, nothing copied, slice unchanged')
    if not (seen['fit'] and seen['nofit']):
        ctx.violation('T-SLICEWRITE', 'paths', 'expected a fitting and a non-fitting path (found %r)' % seen, where)


def cursor_tables(ctx, prog):
    n = 0
    has_alloc = prog.feature('alloc') or prog.feature('std')
    for path in CURSORS:
        if 'Box<' in path and not has_alloc:
            continue      # Cursor<Box<[u8]>> exists only with feature `alloc`
        inst = prog.one(path)
        if inst is None:
            ctx.fail_closed('T-CURSOR', path + ' not found')
            continue
        label = inst['impl_self']
        where = mir.loc(inst['sp'])
        m = Machine(prog, prims=prims.P)
        st = State()
        body = inst['body']
        names = dict((l, n_) for l, n_ in body['names'])
        args = [m.make_value(st, body['locals'][i], names.get(i, 'a%d' % i)) for i in range(1, body['argc'] + 1)]
        for sy in ('self*.1', 'buf.len'):
            if sy in st.ranges:
                st.ranges[sy] = ((0, 1 << 40),)   # lengths/positions are bounded by isize::MAX; the sum cannot wrap
        try:
            outs = m.run(inst, args, st)
        except Abort as e:
            ctx.fail_closed('T-CURSOR', '%s cannot be summarised: %s' % (label, e))
            continue
        n += 1
        pos0 = Int.sym('self*.1')
        blen = Int.sym('buf.len')
        seen_ok = seen_err = False
        for o in outs:
            if o.kind != 'return':
                ctx.violation('T-CURSOR', label + '|diverge', 'write_all can diverge: %s' % o.why, where)
                continue
            v = o.value
            selfv = o.st.mem.get(('arg', 'self'))
            posv = selfv.fields[1] if isinstance(selfv, Adt) and len(selfv.fields) > 1 else None
            isok = isinstance(v, Adt) and norm_adt(v.adt) == RESULT and v.variant == 0
            if isok:
                seen_ok = True
                want = Int([('self*.1', 1), ('buf.len', 1)], 0)
                if posv != want:
                    ctx.violation('T-CURSOR', label + '|advance', 'after a successful write the position is %r, expected position + len(buf)' % (posv,), where)
                else:
                    ctx.ok('T-CURSOR', label + '|ok')
            else:
                seen_err = True
                if posv != pos0:
                    ctx.violation('T-CURSOR', label + '|advance-on-error', 'the position changes to %r although the write was rejected' % (posv,), where)
                else:
                    ctx.ok('T-CURSOR', label + '|err')
        if not (seen_ok and seen_err):
            ctx.violation('T-CURSOR', label + '|paths', 'expected both a success and a rejection path (found ok=%s err=%s)' % (seen_ok, seen_err), where)
        # the position field has no other writer
    writers = set()
    for inst in prog.insts.values():
        if inst['krate'] != 'minicbor':
            continue
        for bi, si, s in mir.iter_stmts(inst['body']):
            if s['k'] == 'assign':
                pj = s['p'].get('p') or []
                if pj and pj[-1]['k'] == 'field' and pj[-1].get('adt') == 'minicbor::encode::write::Cursor' and pj[-1].get('i') == 1:
                    writers.add(inst['path'])
    for w in sorted(writers):
        if w in CURSORS:
            ctx.ok('T-CURSOR.writers', w, nontrivial=False)
        else:
            ctx.violation('T-CURSOR.writers', w, 'Cursor position is written outside the Write impls')
    ctx.floor('T-CURSOR', 'cursor impls', n, 3 if has_alloc else 2)


BUF = (('DATA', 'buf*', 'buf.len'),)


def sink_forwarding(ctx, prog):
    """T-SINK.all: every impl of encode::Write hands the *whole* buffer to an all-or-nothing operation of the
    underlying sink exactly once before it reports success (a partial-write API whose count is dropped, a second
    write, or a success path that writes nothing would make the bytes depend on the sink)."""
    from ..absint import Fork, UNIT
    from ..prims import ok, err

    def io_all(m, cfg, f, args, t):
        st = cfg.st
        st.events.append(('SINK', 'all', l1.slice_bytes(m, st, args[1])))
        return Fork([(None, ok(UNIT)), (None, err(Atom('ioerr')))])

    def io_partial(kind):
        def prim(m, cfg, f, args, t):
            st = cfg.st
            st.events.append(('SINK', kind, l1.slice_bytes(m, st, args[1]) if len(args) > 1 else ()))
            n = m.new_sym(st, 'accepted%d' % len(st.events), 'usize')
            return Fork([(None, ok(Int.sym(n))), (None, err(Atom('ioerr')))])
        return prim

    def vec_extend(m, cfg, f, args, t):
        st = cfg.st
        st.events.append(('SINK', 'all', l1.slice_bytes(m, st, args[1])))
        return UNIT

    ov = {l1.WRITE_ALL: l1.write_all_prim, 'std::io::Write::write_all': io_all, 'std::vec::Vec::<T, A>::extend_from_slice': vec_extend}
    for meth in ('write', 'write_vectored', 'write_all_vectored', 'write_fmt'):
        ov['std::io::Write::' + meth] = io_partial('std::io::Write::' + meth)
    paths = sorted(set(i['path'] for i in prog.insts.values()
                       if i['path'].endswith(' as minicbor::encode::write::Write>::write_all') and i['krate'] in ('minicbor',)))
    n = 0
    for path in paths:
        if path == SLICE_WRITE:
            continue          # the primitive sink itself: T-SLICEWRITE
        inst = prog.one(path)
        where = mir.loc(inst['sp'])
        label = inst.get('impl_self') or path
        m = Machine(prog, prims=prims.P, overrides=ov)
        st = State()
        body = inst['body']
        names = dict((l, n_) for l, n_ in body['names'])
        args = [m.make_value(st, body['locals'][i], names.get(i, 'a%d' % i)) for i in range(1, body['argc'] + 1)]
        for sy in ('self*.1', 'buf.len'):
            if sy in st.ranges:
                st.ranges[sy] = ((0, 1 << 40),)
        try:
            outs = m.run(inst, args, st)
        except Abort as e:
            ctx.fail_closed('T-SINK.all', '%s cannot be summarised: %s' % (label, e))
            continue
        n += 1
        okpaths = 0
        for o in outs:
            if o.kind != 'return':
                continue      # divergence is F-PANIC.enc's business
            v = o.value
            isok = isinstance(v, Adt) and norm_adt(v.adt) == RESULT and v.variant == 0
            offered = [e for e in o.st.events if e[0] in ('PUT', 'SINK')]
            partial = [e for e in offered if e[0] == 'SINK' and e[1] != 'all']
            if partial:
                ctx.violation('T-SINK.all', label + '|partial', 'the sink is written through %s, which may accept only part of the bytes offered '
                              '(the encoding would be cut short on a sink that makes short writes while success is reported)' % partial[0][1], where)
                continue
            if not isok:
                ctx.ok('T-SINK.all', label + '|err', nontrivial=False)
                continue
            okpaths += 1
            datas = [e[1] if e[0] == 'PUT' else e[2] for e in offered]
            if datas == [BUF]:
                ctx.ok('T-SINK.all', label + '|ok')
            else:
                ctx.violation('T-SINK.all', label + '|whole', 'success is reported after offering %r to the sink; expected the whole buffer exactly once' % (datas,), where)
        if not okpaths and not any(k.startswith('T-SINK.all|' + label) for k, _, _ in ctx.violations):
            ctx.violation('T-SINK.all', label + '|paths', 'no success path', where)
    has_alloc = prog.feature('alloc') or prog.feature('std')
    ctx.floor('T-SINK.all', 'forwarding Write impls', n, 2 + (2 if has_alloc else 0) + (1 if prog.feature('std') else 0))


def cursor_fit(ctx, prog):
    """T-CURSOR.fit: outcome table of each Cursor impl over (capacity, position <= capacity, len(buf)), the inner slice write inlined
    (it is T-SLICEWRITE's subject): len(buf) <= capacity - position  =>  Ok, position += len(buf), exactly one copy of buf into the
    bytes at the position; otherwise Err, position unchanged, nothing copied.  So a full cursor still accepts an empty write, an
    exactly fitting encoding succeeds, and a rejected write leaves no trace."""
    has_alloc = prog.feature('alloc') or prog.feature('std')
    n = 0
    for path in CURSORS:
        if 'Box<' in path and not has_alloc:
            continue
        inst = prog.one(path)
        if inst is None:
            ctx.fail_closed('T-CURSOR.fit', path + ' not found')
            continue
        label = inst.get('impl_self') or path
        where = mir.loc(inst['sp'])
        m = Machine(prog, prims=prims.P)
        st = State()
        body = inst['body']
        names = dict((l, n_) for l, n_ in body['names'])
        args = [m.make_value(st, body['locals'][i], names.get(i, 'a%d' % i)) for i in range(1, body['argc'] + 1)]
        sv = st.mem.get(('arg', 'self'))
        if not (isinstance(sv, Adt) and len(sv.fields) == 2):
            ctx.fail_closed('T-CURSOR.fit', '%s: unexpected cursor value %r' % (label, sv))
            continue
        # the storage as a slice of symbolic capacity (array: its const length; box / reference: a fresh length)
        f0 = sv.fields[0]
        if isinstance(f0, Slice) and isinstance(f0.len, Int):
            cap = f0.len
        elif 'N]' in label:
            cap = None        # [u8; N]: the interpreter names the array length const:N itself
        else:
            cap = Int.sym(m.new_sym(st, 'cap', 'usize', ((0, 1 << 40),)))
            st.mem[('arg', 'self')] = Adt(sv.adt, sv.variant, [Slice(None, 'self*.0*', cap), sv.fields[1]])
        for sy in list(st.ranges):
            if sy in ('self*.1', 'buf.len') or sy.endswith('.len'):
                st.ranges[sy] = ((0, 1 << 40),)
        capname = repr(cap) if cap is not None else 'const:N'
        if cap is None:
            st.ranges['const:N'] = ((0, 1 << 40),)
            st.symty['const:N'] = 'usize'
            cap = Int.sym('const:N')
        st.extra['known'] = {'Le(self*.1,%s)' % capname: 1}      # invariant of the position (T-CURSOR: it has no other writer)
        try:
            outs = m.run(inst, args, st)
        except Abort as e:
            ctx.fail_closed('T-CURSOR.fit', '%s cannot be summarised: %s' % (label, e))
            continue
        n += 1
        pos, need = Int.sym('self*.1'), Int.sym('buf.len')
        room = lin_add(cap, pos, -1)
        for site, rec in m.assert_sites.items():
            if rec['open'] or rec['fail']:
                ctx.violation('T-CURSOR.fit', label + '|panic|' + rec['kind'], 'a write can panic (%s)' % rec['kind'], mir.loc(rec.get('sp')) or where)
        seen = {'fit': 0, 'nofit': 0}
        for o in outs:
            if o.kind != 'return':
                ctx.violation('T-CURSOR.fit', label + '|diverge', 'write_all can diverge: %s' % o.why, where)
                continue
            opq = sorted(f for f in o.st.flags if f.startswith('opaque:'))
            if opq:
                ctx.violation('T-CURSOR.fit', label + '|opaque', 'the write goes through %s, which the analysis cannot follow (its panic freedom and effect are not established)' % opq[0][7:], where)
                continue
            fits = m.compare(o.st, 'Le', need, room)
            v = o.value
            isok = isinstance(v, Adt) and norm_adt(v.adt) == RESULT and v.variant == 0
            selfv = o.st.mem.get(('arg', 'self'))
            posv = selfv.fields[1] if isinstance(selfv, Adt) and len(selfv.fields) > 1 else None
            copies = o.st.extra.get('copies', ())
            if not (isinstance(fits, Int) and fits.is_const()):
                ctx.violation('T-CURSOR.fit', label + '|undecided|' + ('ok' if isok else 'err'), 'a path returns %s without having established whether len(buf) <= capacity - position (facts: %s)' % (
                    'Ok' if isok else 'Err', sorted((o.st.extra.get('known') or {}).items())), where)
                continue
            if fits.c:
                seen['fit'] += 1
                if not isok:
                    ctx.violation('T-CURSOR.fit', label + '|exact-fit', 'a write that fits the remaining capacity is rejected', where)
                elif posv != lin_add(pos, need, 1):
                    ctx.violation('T-CURSOR.fit', label + '|advance', 'after a fitting write the position is %r, expected position + len(buf)' % (posv,), where)
                elif len(copies) != 1 or copies[0][1] != repr(need) or copies[0][2] != "'buf*'" or 'self*.1..' not in copies[0][0]:
                    ctx.violation('T-CURSOR.fit', label + '|copy', 'a fitting write copies %r; expected exactly buf into the bytes at the position' % (copies,), where)
                else:
                    ctx.ok('T-CURSOR.fit', label + '|fits')
            else:
                seen['nofit'] += 1
                if isok:
                    ctx.violation('T-CURSOR.fit', label + '|overrun', 'a write longer than the remaining capacity reports success', where)
                elif copies:
                    ctx.violation('T-CURSOR.fit', label + '|partial', 'bytes are copied although the write does not fit', where)
                elif posv != pos:
                    ctx.violation('T-CURSOR.fit', label + '|advance-on-error', 'a rejected write moves the position to %r' % (posv,), where)
                else:
                    ctx.ok('T-CURSOR.fit', label + '|rejects')
        if not (seen['fit'] and seen['nofit']):
            ctx.violation('T-CURSOR.fit', label + '|paths', 'expected a fitting and a non-fitting path (found %r)' % seen, where)
    ctx.floor('T-CURSOR.fit', 'cursor impls', n, 3 if has_alloc else 2)


def is_encode_root(i):
    p = i['path']
    if i['krate'] != 'minicbor':
        return False
    if 'fmt::Debug' in p or 'fmt::Display' in p or 'error::Error' in p and 'as std::error' in p:
        return False
    return (p.startswith('minicbor::encode::') or 'as minicbor::encode::Encode<' in p or 'as minicbor::bytes::EncodeBytes<' in p
            or 'as minicbor::encode::write::Write>' in p or p in ('minicbor::encode', 'minicbor::encode_with', 'minicbor::to_vec', 'minicbor::to_vec_with', 'minicbor::bytes::encode'))


def put_callers(prog, krate):
    """functions of `krate` that call the sink's write_all on a generic writer"""
    callers = set()
    for inst in prog.insts.values():
        if inst['krate'] != krate:
            continue
        for bi, t in mir.iter_calls(inst['body']):
            f = t.get('f') or {}
            if (f.get('path') or '').endswith('encode::write::Write::write_all') and not f.get('resolved'):
                callers.add(inst['path'])
    return callers


def error_discipline(ctx, prog):
    """after a failed write nothing more is written and the failure is returned: otherwise a bounded sink that rejected one piece
    but has room for a later, shorter one is left with bytes that are not a prefix of the encoding"""
    from .. import l2
    from ..absint import Fork, CallThen
    from ..prims import err, ok, UNIT
    base = l2.encoder_overrides()
    ov = {}

    def wrap(h, leaf=False):
        def g(m, cfg, f, args, t):
            r = h(m, cfg, f, args, t)
            if r is NotImplemented or isinstance(r, (Fork, CallThen)):
                return r
            n = len(cfg.st.events)

            def undo(s_):
                # the failing primitive wrote nothing that counts (a prefix of its own bytes at most)
                del s_.events[n - 1:]
                s_.events.append(('SINKERR', (f.get('rpath') or f['path']).split('::')[-1]))
            return Fork([(None, r), (undo, err(Atom('sink-error')))])
        return g
    for k, h in base.items():
        ov[k] = wrap(h) if (k.startswith(l2.ENC) or k.endswith(('Encode::encode', 'EncodeBytes::encode_bytes'))) else h
    n = 0
    seen = set()
    for im in prog.impls:
        if im['trait'] != 'minicbor::encode::Encode' or im['krate'] != 'minicbor':
            continue
        ty = im['self_ty']
        path = '<%s as minicbor::encode::Encode<C>>::encode' % ty
        if path in seen:
            continue
        seen.add(path)
        try:
            r = l2.run_root(prog, path, ov)
        except Abort as e:
            ctx.fail_closed('S-ENC.err', 'Encode for %s cannot be interpreted with a failing sink: %s' % (ty, e))
            continue
        if r is None:
            continue
        inst, outs, m = r
        n += 1
        where = mir.loc(inst['sp'])
        good = True
        for o in outs:
            evs = o.st.events
            idx = [i for i, e in enumerate(evs) if e[0] == 'SINKERR']
            if not idx:
                continue
            later = [e for e in evs[idx[0] + 1:] if e[0] == 'ITEM']
            if later:
                good = False
                ctx.violation('S-ENC.err', '%s|writes-after-error' % ty, 'after a failed write (%s) the impl still writes %s: a bounded sink would be left with bytes that are not a prefix of the encoding' % (evs[idx[0]][1], tables.fmt_stream([e[1:] for e in later]) if hasattr(tables, 'fmt_stream') else later), where)
                break
            if o.kind == 'return' and l1.result_kind(o.value) == 'Ok':
                good = False
                ctx.violation('S-ENC.err', '%s|swallowed' % ty, 'a failed write (%s) is not reported: the impl returns Ok' % (evs[idx[0]][1],), where)
                break
            if o.kind == 'return' and l1.result_kind(o.value) == 'Err' and 'sink-error' not in repr(o.value):
                good = False
                ctx.violation('S-ENC.err', '%s|relabelled' % ty, 'a failed write (%s) is reported as another error (%r): the caller can no longer tell that the sink was full' % (evs[idx[0]][1], o.value.fields[0] if getattr(o.value, 'fields', None) else o.value), where)
                break
        if good:
            ctx.ok('S-ENC.err', ty)
    ctx.floor('S-ENC.err', 'Encode impls', n, 80)
    # the Encoder's own methods at byte level (several puts per head): same discipline
    nm = 0
    half = prog.feature('half')
    for method in tables.ENC_METHODS:
        if method == 'f16' and not half:
            continue
        try:
            res = tables.enc_rows(prog, method)
        except Abort as e:
            ctx.fail_closed('S-ENC.err', 'Encoder::%s cannot be summarised: %s' % (method, e))
            continue
        if res is None:
            continue
        inst, rows, m = res
        nm += 1
        good = True
        for r in rows:
            evs = r.events
            idx = [i for i, e in enumerate(evs) if e[0] == 'SINKERR']
            if not idx:
                continue
            if any(e[0] == 'PUT' for e in evs[idx[0] + 1:]):
                good = False
                ctx.violation('S-ENC.err', 'Encoder::%s|writes-after-error' % method, 'Encoder::%s keeps writing after the sink refused a write' % method, mir.loc(inst['sp']))
                break
            if r.result == 'Ok':
                good = False
                ctx.violation('S-ENC.err', 'Encoder::%s|swallowed' % method, 'Encoder::%s returns Ok although the sink refused a write' % method, mir.loc(inst['sp']))
                break
        if good:
            ctx.ok('S-ENC.err', 'Encoder::' + method)
    ctx.floor('S-ENC.err', 'Encoder methods', nm, 25)


def run(ctx):
    prog = load.program('core-full')
    ctx.rules_run.append('F-PUT: Write::write_all on the sink is called only by Encoder::put (+ the forwarding impl); put maps the sink error with Error::write only')
    callers = put_callers(prog, 'minicbor')
    if not load.ALIAS:
        from . import controls
        controls.run(ctx, ('F-PUT',))
    fwd = '<&mut W as minicbor::encode::write::Write>::write_all'
    funnels = sorted(c for c in callers if c.startswith(l1.ENC) and '::{' not in c)
    funnel = funnels[0] if len(funnels) == 1 else None      # the single inherent method of Encoder that writes to the sink (today `put`)
    for c in sorted(callers):
        if c == fwd or c == funnel:
            ctx.ok('F-PUT', c)
        else:
            ctx.violation('F-PUT', c, 'writes to the sink without going through the single write funnel of Encoder (%s)' % (', '.join(funnels) or 'none found'))
    put = prog.one(funnel) if funnel else None
    if put is None:
        ctx.fail_closed('F-PUT', 'Encoder has no single method calling Write::write_all any more (%r)' % (funnels,))
    else:
        fns = [(f.get('rpath') or f.get('path')) for f, sp in mir.fn_consts_in_body(put['body'])]
        fns += [mir.callee_path(t_) for _, t_ in mir.iter_calls(put['body']) if mir.callee_path(t_)]     # `Err(e) => Err(Error::write(e))` is as good as `map_err(Error::write)`
        if 'minicbor::encode::error::Error::<E>::write' in fns:
            ctx.ok('F-PUT.err', 'put maps sink errors with Error::write')
        else:
            ctx.violation('F-PUT.err', 'put', 'sink errors are not converted with Error::write (fn items referenced: %r)' % fns, mir.loc(put['sp']))
    # Encoder.writer field is used only by put and the accessors
    users = set()
    for inst in prog.insts.values():
        if inst['krate'] != 'minicbor':
            continue
        for bi, si, s in mir.iter_stmts(inst['body']):
            if s['k'] != 'assign':
                continue
            pls = [s['p']]
            r = s['r']
            if isinstance(r.get('p'), dict):
                pls.append(r['p'])
            for kx in ('a', 'b'):
                if isinstance(r.get(kx), dict) and mir.op_place(r[kx]):
                    pls.append(mir.op_place(r[kx]))
            for pl in pls:
                for pj in pl.get('p') or []:
                    if pj['k'] == 'field' and pj.get('adt') == 'minicbor::encode::encoder::Encoder' and pj.get('n') == 'writer':
                        users.add(inst['path'])
    okusers = {l1.ENC + x for x in ('new', 'writer', 'writer_mut', 'into_writer')} | ({funnel} if funnel else set()) | {'<minicbor::encode::encoder::Encoder<W> as std::fmt::Debug>::fmt', '<minicbor::encode::encoder::Encoder<W> as std::clone::Clone>::clone'}
    for u in sorted(users):
        if u in okusers:
            ctx.ok('F-PUT.field', u, nontrivial=False)
        else:
            ctx.violation('F-PUT.field', u, 'accesses Encoder.writer directly')
    ctx.rules_run.append('T-SLICEWRITE: outcome table of impl Write for &mut [u8] over (len(self), len(buf)) by abstract interpretation: fits -> Ok + one copy of buf + rest kept; does not fit -> Err, nothing copied, slice unchanged; no panic')
    slice_write(ctx, prog)
    ctx.rules_run.append('T-CURSOR: the three Cursor impls advance the position by exactly len(buf) and only on success; the position has no other writer')
    cursor_tables(ctx, prog)
    ctx.rules_run.append('T-CURSOR.fit: outcome table of each Cursor impl over (capacity, position, len(buf)) with the inner slice write inlined: fits <=> Ok + position advanced + one copy at the position; otherwise Err with no trace; no panic')
    cursor_fit(ctx, prog)
    ctx.rules_run.append('T-SINK.all: every other Write impl (forwarding &mut W, Vec<u8>, the std::io adapter, cursors) hands the whole buffer to an all-or-nothing sink operation exactly once before reporting success; partial-write APIs are violations')
    sink_forwarding(ctx, prog)
    ctx.rules_run.append('S-ENC.err: every built-in Encode impl, interpreted with a sink (and nested Encode impls) that may fail at each call: nothing is written after the first failure and the failure is returned')
    error_discipline(ctx, prog)
    ctx.rules_run.append('F-PANIC(encode): panic-site census over the encoding entry set; no unsafe in the write path')
    roots = [k for k, i in prog.insts.items() if is_encode_root(i)]
    reach0 = set(k for k in facts.reachable(prog, roots) if prog.get(k)['krate'] == 'minicbor')
    by_path = {}
    for k in sorted(reach0, key=lambda k: (prog.get(k)['depth'], len(k), k)):
        by_path.setdefault(prog.get(k)['path'], k)
    reach = set(by_path.values())
    # the bounded sinks (the slice impl, the three cursors and private helpers only they use) have their own panic obligation:
    # T-SLICEWRITE / T-CURSOR.fit interpret them whole under the position invariant and report any assert left open - so a
    # helper outlined from a cursor impl does not need a table row of its own
    callers = {}
    for inst in prog.insts.values():
        if inst['krate'] != 'minicbor':
            continue
        for bi, t in mir.iter_calls(inst['body']):
            f = t.get('f') or {}
            cp = f.get('rpath') or f.get('path')
            if cp and cp != inst['path']:
                callers.setdefault(cp, set()).add(inst['path'])
    only_sinks = set(CURSORS) | {SLICE_WRITE}
    grew = True
    while grew:
        grew = False
        for cp, cs in callers.items():
            if cp not in only_sinks and cp.startswith('minicbor::') and cs and cs <= only_sinks:
                only_sinks.add(cp)
                grew = True
    reach = set(k for k in reach if prog.get(k)['path'] not in only_sinks)
    ctx.count('encode entry points', len(roots))
    c02.f_panic(ctx, prog, reach, 'encode', overrides={l1.WRITE_ALL: l1.write_all_prim}, rule='F-PANIC.enc')
    owners = set(u['owner'] for u in prog.unsafe_blocks if u['user'])
    for k in reach:
        p = prog.get(k)['path']
        if p in owners and 'ByteSlice' not in p:
            ctx.violation('F-UNSAFE.enc', p, 'unsafe block in the encoding path')
    # sink-parametricity: Encoder<W> bodies do not inspect W (no TypeId / Any / specialisation)
    for k in reach:
        inst = prog.get(k)
        for bi, t in mir.iter_calls(inst['body']):
            p = mir.callee_path(t) or ''
            if 'any::TypeId' in p or 'any::Any' in p or 'any::type_name' in p:
                ctx.violation('F-PARAM', inst['path'], 'inspects the sink type (%s): bytes could depend on the sink' % p, mir.loc(t.get('sp')))
    ctx.ok('F-PARAM', 'no type inspection in %d encode-reachable functions' % len(reach))
    return 'Sink discipline decided structurally: single write funnel, all-or-nothing slice write, cursor tables, panic census over %d encode-reachable functions.' % len(reach)
