"""C13 - bounded sinks: succeeds iff it fits, never overruns, sink-independent (DESIGN 5.13)."""
from ..absint import Machine, State, Int, Adt, Atom, Slice, Ref, Abort
from .. import load, facts, mir, l1, prims, tables
from ..prims import RESULT, norm_adt
from . import c02

W = 'minicbor::encode::write::'
SLICE_WRITE = '<&mut [u8] as minicbor::encode::write::Write>::write_all'
CURSORS = ['<minicbor::encode::write::Cursor<&mut [u8]> as minicbor::encode::write::Write>::write_all',
           '<minicbor::encode::write::Cursor<[u8; N]> as minicbor::encode::write::Write>::write_all',
           '<minicbor::encode::write::Cursor<std::boxed::Box<[u8]>> as minicbor::encode::write::Write>::write_all']


def len_exprs(body):
    """local -> ('len', description) for locals defined as the length of something"""
    out = {}
    for bi, si, s in mir.iter_stmts(body):
        if s['k'] == 'assign' and not s['p'].get('p'):
            r = s['r']
            if r.get('rv') == 'un' and r.get('op') == 'PtrMetadata':
                pl = mir.op_place(r['a'])
                out[s['p']['l']] = ('len', pl['l'] if pl else None, tuple(pj['k'] for pj in (pl.get('p') or [])) if pl else ())
    for bi, t in mir.iter_calls(body):
        p = mir.callee_path(t) or ''
        if p.endswith('::len') and not t['dest'].get('p'):
            pl = mir.op_place(t['args'][0]) if t['args'] else None
            out[t['dest']['l']] = ('len', pl['l'] if pl else None, ())
    return out


def root_of(body, local, depth=0):
    """follow copies/reborrows back to an argument local"""
    if local is None or depth > 12:
        return local
    if 1 <= local <= body['argc']:
        return local
    for bi, si, s in mir.iter_stmts(body):
        if s['k'] == 'assign' and not s['p'].get('p') and s['p']['l'] == local:
            r = s['r']
            if r.get('rv') in ('use', 'cast'):
                pl = mir.op_place(r['a'])
                if pl:
                    return root_of(body, pl['l'], depth + 1)
            if r.get('rv') in ('ref', 'rawptr'):
                return root_of(body, r['p']['l'], depth + 1)
    return local


def slice_write(ctx, prog):
    inst = prog.one(SLICE_WRITE)
    if inst is None:
        ctx.fail_closed('T-SLICEWRITE', SLICE_WRITE + ' not found')
        return
    body = inst['body']
    where = mir.loc(inst['sp'])
    cfg = mir.CFG(body)
    lens = len_exprs(body)
    # the capacity test: a switch on a comparison between len(*self) (arg 1) and len(buf) (arg 2)
    guard = None
    for bi, b in enumerate(body['blocks']):
        t = b['t']
        if t['k'] != 'switch':
            continue
        for s in b['s']:
            if s['k'] == 'assign' and s['r'].get('rv') == 'bin' and s['r']['op'] in ('Lt', 'Le', 'Gt', 'Ge'):
                la, lb = mir.op_local(s['r']['a']), mir.op_local(s['r']['b'])
                if la in lens and lb in lens:
                    ra, rb = root_of(body, lens[la][1]), root_of(body, lens[lb][1])
                    guard = (bi, t, s['r']['op'], ra, rb)
    if guard is None:
        ctx.violation('T-SLICEWRITE', 'guard', 'no comparison of the remaining capacity with the length of the bytes offered: a write could be partial or out of bounds', where)
        return
    gb, gt, op, ra, rb = guard
    # normalise to "cap < need"-style: which edge implies need <= cap, where cap = len(self)=arg1, need = len(buf)=arg2
    if {ra, rb} != {1, 2}:
        ctx.violation('T-SLICEWRITE', 'guard', 'the capacity test does not compare len(self) with len(buf)', where)
        return
    true_t = [v[1] for v in gt['vs'] if v[0] == 1]
    false_t = [v[1] for v in gt['vs'] if v[0] == 0]
    tt = true_t[0] if true_t else gt['o']
    ft = false_t[0] if false_t else gt['o']
    # relation holding when the comparison is true
    if ra == 1:   # len(self) OP len(buf)
        fits_on_true = op in ('Ge',)          # self >= buf
        fits_on_false = op in ('Lt',)         # !(self < buf)
        strict_gap = op in ('Gt', 'Le')       # self > buf (true) / !(self <= buf): demands one spare byte
    else:         # len(buf) OP len(self)
        fits_on_true = op in ('Le',)
        fits_on_false = op in ('Gt',)
        strict_gap = op in ('Lt', 'Ge')
    if strict_gap:
        ctx.violation('T-SLICEWRITE', 'exact-fit', 'the capacity test (%s) rejects a write that exactly fills the slice' % op, where)
        return
    fit_edge = tt if fits_on_true else ft
    nofit_edge = ft if fits_on_true else tt
    splits = [bi for bi, t in mir.iter_calls(body) if (mir.callee_path(t) or '').endswith('split_at_mut')]
    copies = [bi for bi, t in mir.iter_calls(body) if (mir.callee_path(t) or '').endswith('copy_from_slice')]
    if len(splits) != 1 or len(copies) != 1:
        ctx.violation('T-SLICEWRITE', 'shape', 'expected one split_at_mut and one copy_from_slice, found %d / %d' % (len(splits), len(copies)), where)
        return
    if all(cfg.dominates(fit_edge, b_) for b_ in splits + copies) and fit_edge != gb:
        ctx.ok('T-SLICEWRITE', 'split/copy dominated by the fitting edge')
    else:
        ctx.violation('T-SLICEWRITE', 'dominance', 'split_at_mut / copy_from_slice are not dominated by the edge on which len(buf) <= len(self): a too long write would panic or be partial', where)
    # the non-fitting edge reaches a return without touching the slice
    reach = cfg.reachable_from(nofit_edge)
    if any(b_ in reach for b_ in splits + copies):
        ctx.violation('T-SLICEWRITE', 'all-or-nothing', 'bytes are copied on the path where the write does not fit (partial write)', where)
    else:
        ctx.ok('T-SLICEWRITE', 'no copy on the non-fitting path')
    # split point is exactly len(buf): the mid operand is a length of arg 2
    st = body['blocks'][splits[0]]['t']
    mid = mir.op_local(st['args'][1])
    if mid in lens and root_of(body, lens[mid][1]) == 2:
        ctx.ok('T-SLICEWRITE', 'split at len(buf)')
    else:
        ctx.violation('T-SLICEWRITE', 'split-point', 'the slice is not split at exactly len(buf)', where)
    # copy source is buf
    ct = body['blocks'][copies[0]]['t']
    src = mir.op_local(ct['args'][1])
    if root_of(body, src) == 2:
        ctx.ok('T-SLICEWRITE', 'copy source is buf')
    else:
        ctx.violation('T-SLICEWRITE', 'copy-source', 'copy_from_slice does not copy the bytes offered', where)


def cursor_tables(ctx, prog):
    n = 0
    has_alloc = prog.feature('alloc') or prog.feature('std')
    for path in CURSORS:
        if 'Box<' in path and not has_alloc:
            continue      # Cursor<Box<[u8]>> exists only with feature `alloc`
        inst = prog.one(path)
        if inst is None:
            ctx.fail_closed('T-CURSOR', path + ' not found')
            continue
        label = inst['impl_self']
        where = mir.loc(inst['sp'])
        m = Machine(prog, prims=prims.P)
        st = State()
        body = inst['body']
        names = dict((l, n_) for l, n_ in body['names'])
        args = [m.make_value(st, body['locals'][i], names.get(i, 'a%d' % i)) for i in range(1, body['argc'] + 1)]
        for sy in ('self*.1', 'buf.len'):
            if sy in st.ranges:
                st.ranges[sy] = ((0, 1 << 40),)   # lengths/positions are bounded by isize::MAX; the sum cannot wrap
        try:
            outs = m.run(inst, args, st)
        except Abort as e:
            ctx.fail_closed('T-CURSOR', '%s cannot be summarised: %s' % (label, e))
            continue
        n += 1
        pos0 = Int.sym('self*.1')
        blen = Int.sym('buf.len')
        seen_ok = seen_err = False
        for o in outs:
            if o.kind != 'return':
                ctx.violation('T-CURSOR', label + '|diverge', 'write_all can diverge: %s' % o.why, where)
                continue
            v = o.value
            selfv = o.st.mem.get(('arg', 'self'))
            posv = selfv.fields[1] if isinstance(selfv, Adt) and len(selfv.fields) > 1 else None
            isok = isinstance(v, Adt) and norm_adt(v.adt) == RESULT and v.variant == 0
            if isok:
                seen_ok = True
                want = Int([('self*.1', 1), ('buf.len', 1)], 0)
                if posv != want:
                    ctx.violation('T-CURSOR', label + '|advance', 'after a successful write the position is %r, expected position + len(buf)' % (posv,), where)
                else:
                    ctx.ok('T-CURSOR', label + '|ok')
            else:
                seen_err = True
                if posv != pos0:
                    ctx.violation('T-CURSOR', label + '|advance-on-error', 'the position changes to %r although the write was rejected' % (posv,), where)
                else:
                    ctx.ok('T-CURSOR', label + '|err')
        if not (seen_ok and seen_err):
            ctx.violation('T-CURSOR', label + '|paths', 'expected both a success and a rejection path (found ok=%s err=%s)' % (seen_ok, seen_err), where)
        # the position field has no other writer
    writers = set()
    for inst in prog.insts.values():
        if inst['krate'] != 'minicbor':
            continue
        for bi, si, s in mir.iter_stmts(inst['body']):
            if s['k'] == 'assign':
                pj = s['p'].get('p') or []
                if pj and pj[-1]['k'] == 'field' and pj[-1].get('adt') == 'minicbor::encode::write::Cursor' and pj[-1].get('i') == 1:
                    writers.add(inst['path'])
    for w in sorted(writers):
        if w in CURSORS:
            ctx.ok('T-CURSOR.writers', w, nontrivial=False)
        else:
            ctx.violation('T-CURSOR.writers', w, 'Cursor position is written outside the Write impls')
    ctx.floor('T-CURSOR', 'cursor impls', n, 3 if has_alloc else 2)


def is_encode_root(i):
    p = i['path']
    if i['krate'] != 'minicbor':
        return False
    if 'fmt::Debug' in p or 'fmt::Display' in p or 'error::Error' in p and 'as std::error' in p:
        return False
    return (p.startswith('minicbor::encode::') or 'as minicbor::encode::Encode<' in p or 'as minicbor::bytes::EncodeBytes<' in p
            or 'as minicbor::encode::write::Write>' in p or p in ('minicbor::encode', 'minicbor::encode_with', 'minicbor::to_vec', 'minicbor::to_vec_with', 'minicbor::bytes::encode'))


def put_callers(prog, krate):
    """functions of `krate` that call the sink's write_all on a generic writer"""
    callers = set()
    for inst in prog.insts.values():
        if inst['krate'] != krate:
            continue
        for bi, t in mir.iter_calls(inst['body']):
            f = t.get('f') or {}
            if (f.get('path') or '').endswith('encode::write::Write::write_all') and not f.get('resolved'):
                callers.add(inst['path'])
    return callers


def run(ctx):
    prog = load.program('core-full')
    ctx.rules_run.append('F-PUT: Write::write_all on the sink is called only by Encoder::put (+ the forwarding impl); put maps the sink error with Error::write only')
    callers = put_callers(prog, 'minicbor')
    if not load.ALIAS:
        from . import controls
        controls.run(ctx, ('F-PUT',))
    for c in sorted(callers):
        if c in (l1.ENC + 'put', '<&mut W as minicbor::encode::write::Write>::write_all'):
            ctx.ok('F-PUT', c)
        else:
            ctx.violation('F-PUT', c, 'writes to the sink without going through Encoder::put')
    put = prog.one(l1.ENC + 'put')
    if put is None or l1.ENC + 'put' not in callers:
        ctx.fail_closed('F-PUT', 'Encoder::put is not the caller of Write::write_all any more')
    else:
        fns = [(f.get('rpath') or f.get('path')) for f, sp in mir.fn_consts_in_body(put['body'])]
        if 'minicbor::encode::error::Error::<E>::write' in fns:
            ctx.ok('F-PUT.err', 'put maps sink errors with Error::write')
        else:
            ctx.violation('F-PUT.err', 'put', 'sink errors are not converted with Error::write (fn items referenced: %r)' % fns, mir.loc(put['sp']))
    # Encoder.writer field is used only by put and the accessors
    users = set()
    for inst in prog.insts.values():
        if inst['krate'] != 'minicbor':
            continue
        for bi, si, s in mir.iter_stmts(inst['body']):
            if s['k'] != 'assign':
                continue
            pls = [s['p']]
            r = s['r']
            if isinstance(r.get('p'), dict):
                pls.append(r['p'])
            for kx in ('a', 'b'):
                if isinstance(r.get(kx), dict) and mir.op_place(r[kx]):
                    pls.append(mir.op_place(r[kx]))
            for pl in pls:
                for pj in pl.get('p') or []:
                    if pj['k'] == 'field' and pj.get('adt') == 'minicbor::encode::encoder::Encoder' and pj.get('n') == 'writer':
                        users.add(inst['path'])
    okusers = {l1.ENC + x for x in ('put', 'new', 'writer', 'writer_mut', 'into_writer')} | {'<minicbor::encode::encoder::Encoder<W> as std::fmt::Debug>::fmt', '<minicbor::encode::encoder::Encoder<W> as std::clone::Clone>::clone'}
    for u in sorted(users):
        if u in okusers:
            ctx.ok('F-PUT.field', u, nontrivial=False)
        else:
            ctx.violation('F-PUT.field', u, 'accesses Encoder.writer directly')
    ctx.rules_run.append('T-SLICEWRITE: impl Write for &mut [u8]: rejection exactly when len(self) < len(buf) dominates split/copy; split at len(buf); nothing copied on the rejecting path')
    slice_write(ctx, prog)
    ctx.rules_run.append('T-CURSOR: the three Cursor impls advance the position by exactly len(buf) and only on success; the position has no other writer')
    cursor_tables(ctx, prog)
    ctx.rules_run.append('F-PANIC(encode): panic-site census over the encoding entry set; no unsafe in the write path')
    roots = [k for k, i in prog.insts.items() if is_encode_root(i)]
    reach0 = set(k for k in facts.reachable(prog, roots) if prog.get(k)['krate'] == 'minicbor')
    by_path = {}
    for k in sorted(reach0, key=lambda k: (prog.get(k)['depth'], len(k), k)):
        by_path.setdefault(prog.get(k)['path'], k)
    reach = set(by_path.values())
    ctx.count('encode entry points', len(roots))
    c02.f_panic(ctx, prog, reach, 'encode', overrides={l1.WRITE_ALL: l1.write_all_prim}, rule='F-PANIC.enc')
    owners = set(u['owner'] for u in prog.unsafe_blocks if u['user'])
    for k in reach:
        p = prog.get(k)['path']
        if p in owners and 'ByteSlice' not in p:
            ctx.violation('F-UNSAFE.enc', p, 'unsafe block in the encoding path')
    # sink-parametricity: Encoder<W> bodies do not inspect W (no TypeId / Any / specialisation)
    for k in reach:
        inst = prog.get(k)
        for bi, t in mir.iter_calls(inst['body']):
            p = mir.callee_path(t) or ''
            if 'any::TypeId' in p or 'any::Any' in p or 'any::type_name' in p:
                ctx.violation('F-PARAM', inst['path'], 'inspects the sink type (%s): bytes could depend on the sink' % p, mir.loc(t.get('sp')))
    ctx.ok('F-PARAM', 'no type inspection in %d encode-reachable functions' % len(reach))
    return 'Sink discipline decided structurally: single write funnel, all-or-nothing slice write, cursor tables, panic census over %d encode-reachable functions.' % len(reach)
