"""C14 - blocking framed I/O (DESIGN 5.14): complete outcome tables of Reader::read_with / Writer::write_with."""
from ..absint import Int, Adt, Atom, Abort, iv_min, iv_max, lin_add
from .. import load, mir
from . import io_rules as io
from ..prims import RESULT, OPTION, norm_adt

READER = 'minicbor_io::reader::Reader::<R>::read_with'
WRITER = 'minicbor_io::writer::Writer::<W>::write_with'


def classify(prog, o):
    v = o.value
    if isinstance(v, Adt) and norm_adt(v.adt) == RESULT:
        if v.variant == 0:
            x = v.fields[0]
            if isinstance(x, Adt) and norm_adt(x.adt) == OPTION:
                return ('Ok', 'None') if x.variant == 0 else ('Ok', 'Some', x.fields[0])
            return ('Ok', 'val', x)
        cls, payload = io.io_error_class(prog, v)
        return ('Err', cls, payload)
    return ('?', repr(v))


def nrange(o, sym):
    r = o.st.ranges.get(sym)
    return (iv_min(r), iv_max(r)) if r else None


def reader(ctx, prog):
    inst = prog.one(READER)
    if inst is None:
        ctx.fail_closed('T-READER', READER + ' not found')
        return
    where = mir.loc(inst['sp'])
    try:
        m, outs = io.run_io(prog, inst)
    except Abort as e:
        ctx.fail_closed('T-READER', 'Reader::read_with cannot be summarised: %s' % e)
        return
    ctx.count('T-READER.paths', len(outs))
    seen = set()
    for o in outs:
        if o.kind != 'return':
            ctx.violation('T-READER', 'diverge', 'a path does not return: %s' % (o.why,), where)
            continue
        evs = o.st.events
        cls = classify(prog, o)
        kn = io.known(o)
        reads = [e for e in evs if e[0] == 'READ']
        # (a) every read targets the not yet filled tail of the 4-byte prefix: start == bytes obtained so far, length == 4 - that
        tot = Int.const(0)
        good = True
        for e in evs:
            if e[0] in ('READ', 'READ_ERR', 'READ_INTERRUPTED'):
                if ('[%r..]' % (tot,)) not in str(e[1]):
                    ctx.violation('T-READER', 'prefix-offset', 'a prefix read targets %s although %r prefix byte(s) have been obtained' % (e[1], tot), where)
                    good = False
                if e[0] == 'READ':
                    if e[3] != lin_add(Int.const(4), tot, -1):
                        ctx.violation('T-READER', 'prefix-window', 'a prefix read offers %r bytes, expected 4 - %r' % (e[3], tot), where)
                        good = False
                    tot = lin_add(tot, e[2], 1)
        zero = [e for e in reads if nrange(o, e[2].terms[0][0]) == (0, 0)]
        sig = (cls[0], cls[1])
        # (b) end-of-stream classification
        if zero:
            first = zero[0] is reads[0]
            if evs[-1] is not zero[0] and not (evs[-1][0] == 'READ' and evs[-1] is zero[0]):
                # nothing may follow a zero-length read
                after = evs[evs.index(zero[0]) + 1:]
                if after:
                    ctx.violation('T-READER', 'eof-continue', 'the reader keeps going after the source reported end of stream: %s' % [a[0] for a in after], where)
                    good = False
            if first and sig != ('Ok', 'None'):
                ctx.violation('T-READER', 'clean-end', 'end of stream before any prefix byte yields %r, expected Ok(None)' % (cls[:2],), where)
                good = False
            if not first and not (sig == ('Err', 'Io') and 'ErrorKind#' in str(cls[2])):
                ctx.violation('T-READER', 'truncated-prefix', 'end of stream inside the length prefix yields %r, expected Err(Io(UnexpectedEof))' % (cls[:2],), where)
                good = False
        elif sig == ('Ok', 'None'):
            ctx.violation('T-READER', 'clean-end', 'Ok(None) is returned although the source did not report end of stream at a frame boundary', where)
            good = False
        # (c) an I/O error other than Interrupted is returned as is; Interrupted is retried at the same offset (checked by (a))
        rerr = [e for e in evs if e[0] == 'READ_ERR']
        if rerr and not (sig == ('Err', 'Io') and evs[-1][0] == 'READ_ERR'):
            ctx.violation('T-READER', 'io-error', 'a source error is followed by %s / result %r' % ([e[0] for e in evs[evs.index(rerr[0]) + 1:]], cls[:2]), where)
            good = False
        # (d) allocation only after the max_len test; InvalidLen iff the test fails
        resize = [e for e in evs if e[0] == 'RESIZE']
        gt = [(k, v) for k, v in kn.items() if k.startswith('Gt(') and 'max_len' in k]
        if resize:
            if not gt or gt[-1][1] != 0:
                ctx.violation('T-READER', 'alloc-before-check', 'the frame buffer is resized to %r on a path that has not established len <= max_len' % (resize[0][2],), where)
                good = False
            elif repr(resize[0][2]) not in gt[-1][0]:
                ctx.violation('T-READER', 'alloc-other-len', 'the buffer is resized to %r but the checked length is %s' % (resize[0][2], gt[-1][0]), where)
                good = False
            if 'be(' not in repr(resize[0][2]):
                ctx.violation('T-READER', 'prefix-value', 'the frame length %r is not the big-endian value of the 4 prefix bytes' % (resize[0][2],), where)
                good = False
        if sig == ('Err', 'InvalidLen'):
            if not gt or gt[-1][1] != 1 or resize or any(e[0].startswith('READ_EXACT') for e in evs):
                ctx.violation('T-READER', 'invalid-len', 'InvalidLen is returned on a path where len > max_len was not established, or after touching the buffer', where)
                good = False
        # (e) payload: exactly `len` bytes via read_exact on the whole resized buffer, before decoding
        rex = [e for e in evs if e[0] == 'READ_EXACT']
        dec = [e for e in evs if e[0] == 'DECODE']
        if dec:
            if not rex or not resize or rex[0][2] != resize[0][2] or dec[0][2] != resize[0][2] or evs.index(dec[0]) < evs.index(rex[0]):
                ctx.violation('T-READER', 'payload', 'decoding does not happen after exactly the announced number of payload bytes were read (events %s)' % [e[0] for e in evs], where)
                good = False
            if 'buffer[..]' not in str(rex[0][1]) if rex else True:
                ctx.violation('T-READER', 'payload-window', 'read_exact does not fill the whole frame buffer', where)
                good = False
        if sig[0] == 'Ok' and sig[1] == 'Some':
            if not dec or 'decoded(' not in repr(cls[2]):
                ctx.violation('T-READER', 'value', 'a value is returned that is not the decoded frame', where)
                good = False
        if sig == ('Err', 'Decode') and not (dec and rex):
            ctx.violation('T-READER', 'desync', 'a decode error is reported before the whole frame was consumed (later frames would be misaligned)', where)
            good = False
        if any(e[0] == 'READ_EXACT_ERR' for e in evs) and sig != ('Err', 'Io'):
            ctx.violation('T-READER', 'truncated-payload', 'a failed payload read yields %r, expected Err(Io)' % (cls[:2],), where)
            good = False
        seen.add(sig)
        if good:
            ctx.ok('T-READER', '%s|%s' % (sig, ','.join(e[0] for e in evs)))
    for need in (('Ok', 'None'), ('Ok', 'Some'), ('Err', 'Io'), ('Err', 'Decode'), ('Err', 'InvalidLen')):
        if need not in seen:
            ctx.violation('T-READER', 'missing-outcome|%s' % (need,), 'no path produces %r (the reader lost a documented behaviour)' % (need,), where)
    fl = set(f for o in outs for f in o.st.flags if f.startswith(('opaque', 'trunc')))
    if fl:
        ctx.violation('T-READER.precision', 'flags', 'summary not exact: %s' % sorted(fl), where)
    for site, rec in m.assert_sites.items():
        if rec['open'] or rec['fail']:
            ctx.violation('T-READER.panic', '%s|%s' % (rec['kind'], rec.get('op')), 'potential panic in read_with (%s)' % rec['kind'], mir.loc(rec.get('sp')))
    ctx.sample({'reader_paths': len(outs), 'outcomes': sorted(str(s) for s in seen)})


def writer(ctx, prog, path=WRITER, rule='T-WRITER'):
    inst = prog.one(path)
    if inst is None:
        ctx.fail_closed(rule, path + ' not found')
        return
    where = mir.loc(inst['sp'])
    try:
        m, outs = io.run_io(prog, inst)
    except Abort as e:
        ctx.fail_closed(rule, 'write_with cannot be summarised: %s' % e)
        return
    seen = set()
    for o in outs:
        if o.kind != 'return':
            ctx.violation(rule, 'diverge', 'a path does not return: %s' % (o.why,), where)
            continue
        evs = o.st.events
        cls = classify(prog, o)
        sig = (cls[0], cls[1])
        seen.add(sig)
        kn = io.known(o)
        kinds = [e[0] for e in evs]
        good = True
        sink = [e for e in evs if e[0].startswith('WRITE')]
        gt = [(k, v) for k, v in kn.items() if k.startswith('Gt(') and 'max_len' in k]
        if kinds[:1] != ['RESIZE'] or evs[0][2] != Int.const(4):
            ctx.violation(rule, 'prefix-room', 'the frame buffer is not reset to the 4 prefix bytes before encoding (%s)' % kinds[:2], where)
            good = False
        if 'ENCODE_ERR' in kinds:
            if sink or sig != ('Err', 'Encode'):
                ctx.violation(rule, 'encode-failure', 'a failed encoding yields %r and sink events %s' % (cls[:2], [e[0] for e in sink]), where)
                good = False
        elif sig == ('Err', 'InvalidLen'):
            too_big = (nrange(o, 'plen0') or (0, 0))[0] > 0xffffffff   # does not fit the 4-byte prefix
            if sink or not ((gt and gt[-1][1] == 1) or too_big):
                ctx.violation(rule, 'invalid-len', 'InvalidLen without an established len > max_len, or after writing to the sink', where)
                good = False
        else:
            if not gt or gt[-1][1] != 0 or 'plen' not in gt[-1][0]:
                ctx.violation(rule, 'max-len', 'bytes reach the sink on a path that has not established payload length <= max_len (facts: %s)' % (sorted(kn.items()),), where)
                good = False
            patch = [e for e in evs if e[0] == 'PATCH']
            plen = Int.sym('plen0')
            if len(patch) != 1 or '[..4]' not in str(patch[0][1]) or repr(patch[0][2]) != 'be4(plen0)':
                ctx.violation(rule, 'prefix', 'the length prefix written is %s, expected the 4 big-endian bytes of the payload length' % ([(str(p[1]), repr(p[2])) for p in patch],), where)
                good = False
            if not sink or evs.index(sink[0]) < evs.index(patch[0]) if patch else True:
                ctx.violation(rule, 'order', 'the sink is written before the prefix is patched', where)
                good = False
            wa = [e for e in evs if e[0] == 'WRITE_ALL']
            if wa:
                if wa[0][2] != lin_add(plen, Int.const(4), 1) or 'buffer[..]' not in str(wa[0][1]):
                    ctx.violation(rule, 'frame', 'the sink is offered %s (%r bytes), expected the whole frame buffer (payload + 4)' % (wa[0][1], wa[0][2]), where)
                    good = False
                if not (sig[0] == 'Ok' and cls[2] == plen):
                    ctx.violation(rule, 'return', 'write_with returns %r, expected Ok(payload length)' % (cls,), where)
                    good = False
            elif sig != ('Err', 'Io'):
                ctx.violation(rule, 'sink-error', 'a sink error yields %r' % (cls[:2],), where)
                good = False
        if good:
            ctx.ok(rule, '%s|%s' % (sig, ','.join(kinds)))
    for need in (('Ok', 'val'), ('Err', 'Io'), ('Err', 'Encode'), ('Err', 'InvalidLen')):
        if need not in seen:
            ctx.violation(rule, 'missing-outcome|%s' % (need,), 'no path produces %r' % (need,), where)
    fl = set(f for o in outs for f in o.st.flags if f.startswith(('opaque', 'trunc')))
    if fl:
        ctx.violation(rule + '.precision', 'flags', 'summary not exact: %s (a length is narrowed without a check)' % sorted(fl), where)
    for site, rec in m.assert_sites.items():
        if rec['open'] or rec['fail']:
            ctx.violation(rule + '.panic', '%s|%s' % (rec['kind'], rec.get('op')), 'potential panic in write_with (%s %s)' % (rec['kind'], rec.get('op') or ''), mir.loc(rec.get('sp')))


def run(ctx):
    prog = load.program('io-async')
    ctx.rules_run.append('T-READER: complete outcome table of Reader::read_with over all fragmentations of the 4-byte prefix (any n per read, errors, Interrupted): offsets, EOF classification, max_len before allocation, read_exact(len) before decode')
    reader(ctx, prog)
    ctx.rules_run.append('T-WRITER: outcome table of Writer::write_with: nothing reaches the sink on failure paths; prefix = big-endian payload length; whole frame offered once; return value = payload length')
    writer(ctx, prog)
    # sibling agreement on the default limit
    ctx.rules_run.append('F-DEFAULTS: the four readers/writers agree on the default max_len')
    vals = {}
    for p in ('minicbor_io::reader::Reader::<R>::with_buffer', 'minicbor_io::writer::Writer::<W>::with_buffer',
              'minicbor_io::async_reader::AsyncReader::<R>::with_buffer', 'minicbor_io::async_writer::AsyncWriter::<W>::with_buffer'):
        inst = prog.one(p)
        if inst is None:
            ctx.fail_closed('F-DEFAULTS', p + ' not found')
            continue
        consts = set()
        for bi, si, s in mir.iter_stmts(inst['body']):
            if s['k'] == 'assign' and s['r'].get('rv') == 'agg':
                for op in s['r']['ops']:
                    c = op.get('const')
                    if c and c.get('ty') == 'usize' and 'v' in c:
                        consts.add(c['v'])
        vals[p] = consts
    if len(set(map(frozenset, vals.values()))) == 1 and vals:
        ctx.ok('F-DEFAULTS', 'max_len default %s' % sorted(list(vals.values())[0]))
    else:
        ctx.violation('F-DEFAULTS', 'max_len', 'default limits differ: %s' % {k.split('::')[-2]: sorted(v) for k, v in vals.items()})
    return 'Blocking reader/writer: every path through read_with / write_with was tabulated by abstract interpretation with all source/sink outcomes.'
