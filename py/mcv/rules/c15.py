"""C15 - AsyncReader cancellation safety (DESIGN 5.15): one-step invariants on the pre-transform coroutine body."""
from ..absint import Int, Adt, Atom, Tup, Ref, Arr, Abort, ty_from_str, lin_add, iv_min, iv_max
from .. import load, mir
from . import io_rules as io
from . import coro
from .c14 import classify, nrange

CO = 'minicbor_io::async_reader::AsyncReader::<R>::read_with::{closure#0}'
SELF_TY = 'minicbor_io::async_reader::AsyncReader<R>'
STATE = 'minicbor_io::async_reader::State'


def saved_locals_rule(ctx, rule, inst, allowed_futs):
    """nothing but references and single-shot I/O futures may live across an await"""
    n = 0
    for s in inst.get('saved', []):
        n += 1
        ts = s.get('s', '')
        if s.get('k') == 'ref' or ts.startswith('&'):
            ctx.ok(rule, 'saved|' + ts, nontrivial=False)
        elif any(ts.startswith(a) for a in allowed_futs):
            ctx.ok(rule, 'saved|' + ts)
        else:
            ctx.violation(rule, 'saved|' + ts, 'a value of type %s lives across an await: progress kept there is lost when the future is dropped' % ts, mir.loc(s.get('sp')))
    return n


def state_val(prog, o):
    sv = io.self_obj(o)
    if not isinstance(sv, Adt):
        return None
    return io.field(prog, sv, 'state')


def run(ctx):
    prog = load.program('io-async')
    inst = io.coroutine_inst(prog, CO)
    if inst is None:
        ctx.fail_closed('T-AREADER', 'pre-transform body of AsyncReader::read_with not exported')
        return 'failed'
    where = mir.loc(inst['sp'])
    ctx.rules_run.append('F-AWAIT: every arrival at a loop head of read_with (or of a helper future it awaits, inlined) is an instance of the state a fresh future '
                         'started from the persistent state has there: call stack, every live local, self and the buffer length unify under a substitution of the '
                         'generic symbols that respects their ranges.  Progress kept in a local that the persistent state does not determine fails to unify and is reported')
    ctx.rules_run.append('T-AREADER: from every persistent state (ReadLen(buf,o<=4) / ReadVal(o<=len)) the body is interpreted with all poll outcomes up to the next suspension, covered loop '
                         'arrival or return; at each of them the offset stored in self.state accounts for exactly the bytes taken from the source')

    def mk_setup(start):
        def setup(m, st, args):
            obj = m.make_value(st, ty_from_str(SELF_TY), 'self*')
            ad = prog.adts[SELF_TY.split('<')[0]]
            names = ad['variants'][0]['fields']
            fs = list(obj.fields)
            if start == 'ReadLen':
                o = m.new_sym(st, 'o', 'u8', ((0, 4),))
                stv = Adt(STATE, 0, [Atom('prefix-so-far', {'s': '[u8; 4]', 'k': 'array', 'len': 4, 'elem': {'s': 'u8', 'k': 'int:u8'}}), Int.sym(o)])
            else:
                o = m.new_sym(st, 'o', 'usize', ((0, 1 << 40),))
                stv = Adt(STATE, 1, [Int.sym(o)])
            fs[names.index('state')] = stv
            st.mem[('arg', 'self')] = Adt(obj.adt, 0, fs)
            st.mem[('arg', 'ctx')] = Atom('ctx*')
            return [Tup([Ref(('arg', 'self'), (), True), Ref(('arg', 'ctx'), (), True)]), Atom('resume')]
        return setup
    try:
        runs, table, notes = coro.explore(prog, inst, [(s_, mk_setup(s_)) for s_ in ('ReadLen', 'ReadVal')])
    except coro.LoopState as e:
        ctx.violation('F-AWAIT', 'loop-state', str(e), where)
        return 'failed'
    except Abort as e:
        ctx.fail_closed('T-AREADER', 'read_with cannot be summarised: %s' % e)
        return 'failed'
    ctx.notes.extend(notes)
    for (hk, sid), g in sorted(table.items(), key=repr):
        ctx.ok('F-AWAIT', 'generic|%s|%s' % (hk[0].split('::')[-2], sid))
    ctx.floor('F-AWAIT', 'generic loop arrivals', len(table), 2)
    total = 0
    ncut = 0
    for start in ('ReadLen', 'ReadVal'):
        m, outs = runs[start]
        ncut += sum(1 for o in outs if o.kind == 'cut')
        total += len(outs)
        o0 = Int.sym('o')
        for o in outs:
            evs = o.st.events
            kinds = [e[0] for e in evs]
            key = '%s|%s|%s' % (start, o.kind, ','.join(kinds))
            good = True
            stv = state_val(prog, o)
            polls = [e for e in evs if e[0] == 'POLL']
            if any(p[1] != 'read' for p in polls):
                ctx.violation('T-AREADER', 'poll-kind', 'a future other than a single-shot read is polled: %s' % [p[1] for p in polls], where)
                good = False
            reads = [e for e in evs if e[0] == 'READ']
            consumed = Int.const(0)
            for r in reads:
                consumed = lin_add(consumed, r[2], 1)
            # buffers handed to the source start at the stored offset
            for e in evs:
                if e[0] in ('READ', 'READ_ERR'):
                    wb, ws = io.window(e[1])
                    if ws != 'o':
                        ctx.violation('T-AREADER', 'window', 'the source is handed %s, expected the part of the frame starting at the stored offset' % (e[1],), where)
                        good = False
                    if start == 'ReadVal' and 'buffer' not in wb:
                        ctx.violation('T-AREADER', 'window', 'payload bytes are read into %s, not into self.buffer' % (e[1],), where)
                        good = False
            zero = [r for r in reads if nrange(o, r[2].terms[0][0]) == (0, 0)]
            cls = classify(prog, o) if o.kind == 'return' else None
            sig = (cls[0], cls[1]) if cls else None
            same_variant = isinstance(stv, Adt) and stv.variant == (0 if start == 'ReadLen' else 1)
            off = stv.fields[-1] if isinstance(stv, Adt) and stv.fields else None
            if o.kind in ('yield', 'cut') or (o.kind == 'return' and sig and sig[0] == 'Err'):
                # persistent state must account for every byte taken in this step
                if start == 'ReadLen' and isinstance(stv, Adt) and stv.variant == 1:
                    # transition to payload reading: no byte consumed, offset 0, buffer sized after the max_len test
                    gt = [(k, v) for k, v in io.known(o).items() if k.startswith('Gt(') and 'max_len' in k]
                    rs = [e for e in evs if e[0] == 'RESIZE']
                    if consumed != Int.const(0) or off != Int.const(0) or not rs or not gt or gt[-1][1] != 0:
                        ctx.violation('T-AREADER', 'transition', 'the switch to payload reading is not (no bytes consumed, offset 0, resize after len <= max_len): events %s facts %s' % (kinds, sorted(io.known(o).items())), where)
                        good = False
                elif not same_variant:
                    if not (o.kind == 'return'):
                        ctx.violation('T-AREADER', 'state', 'unexpected state %r after a step from %s' % (stv, start), where)
                        good = False
                elif zero and o.kind == 'return':
                    pass
                elif off != lin_add(o0, consumed, 1):
                    ctx.violation('T-AREADER', 'progress|%s' % o.kind, 'at a %s the stored offset is %r but %r byte(s) were taken from the source since offset o: progress is lost or duplicated if the future is dropped / resumed' % (o.kind, off, consumed), where)
                    good = False
            if o.kind == 'return':
                if zero:
                    at0 = nrange(o, 'o') == (0, 0)
                    if start == 'ReadLen' and at0:
                        if sig != ('Ok', 'None'):
                            ctx.violation('T-AREADER', 'clean-end', 'end of stream at a frame boundary yields %r' % (sig,), where)
                            good = False
                    elif not (sig == ('Err', 'Io') and 'ErrorKind#' in str(cls[2])):
                        ctx.violation('T-AREADER', 'truncated', 'end of stream inside a frame yields %r, expected Err(Io(UnexpectedEof))' % (sig,), where)
                        good = False
                elif sig == ('Ok', 'None'):
                    ctx.violation('T-AREADER', 'clean-end', 'Ok(None) without the source reporting end of stream at offset 0', where)
                    good = False
                if sig and sig[0] == 'Ok' and sig[1] == 'Some':
                    dec = [e for e in evs if e[0] == 'DECODE']
                    reset = isinstance(stv, Adt) and stv.variant == 0 and stv.fields[-1] == Int.const(0)
                    ge = [(k, v) for k, v in io.known(o).items() if k.startswith(('Ge(o', 'Lt(o'))]
                    if not dec or not reset or start != 'ReadVal' or consumed != Int.const(0):
                        ctx.violation('T-AREADER', 'completion', 'a value is returned without (complete payload, state reset to the initial state, decode of self.buffer): state %r events %s' % (stv, kinds), where)
                        good = False
                if sig == ('Err', 'Decode'):
                    reset = isinstance(stv, Adt) and stv.variant == 0 and stv.fields[-1] == Int.const(0)
                    if not reset:
                        ctx.violation('T-AREADER', 'desync', 'a decode error leaves the reader inside the frame (state %r): following frames are misread' % (stv,), where)
                        good = False
                if sig == ('Err', 'Io') and 'READ_ERR' in kinds and evs[-1][0] != 'READ_ERR':
                    ctx.violation('T-AREADER', 'io-error', 'work continues after a source error', where)
                    good = False
            if good:
                ctx.ok('T-AREADER', key)
        for site, rec in m.assert_sites.items():
            if rec['open'] or rec['fail']:
                ctx.violation('T-AREADER.panic', '%s|%s|%s' % (start, rec['kind'], rec.get('op')), 'potential panic in read_with from state %s (%s)' % (start, rec['kind']), mir.loc(rec.get('sp')))
        fl = set(f for o in outs for f in o.st.flags if f.startswith(('opaque', 'trunc')))
        if fl:
            ctx.violation('T-AREADER.precision', start, 'summary not exact: %s' % sorted(fl), where)
    ctx.floor('T-AREADER', 'paths', total, 12)
    ctx.floor('F-AWAIT', 'covered loop arrivals', ncut, 3)
    return 'AsyncReader::read_with: %d one-step paths from both persistent states checked against the progress invariant; no schedule is enumerated (the invariant makes every schedule safe).' % total
