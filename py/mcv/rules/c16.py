"""C16 - AsyncWriter: whole frames in order under short writes and cancel+sync (DESIGN 5.16)."""
from ..absint import Int, Adt, Atom, Tup, Ref, Abort, ty_from_str, lin_add
from .. import load, mir
from . import io_rules as io
from .c14 import classify, nrange
from . import coro

SYNC = 'minicbor_io::async_writer::AsyncWriter::<W>::sync::{closure#0}'
WRITE = 'minicbor_io::async_writer::AsyncWriter::<W>::write_with::{closure#0}'
SELF_TY = 'minicbor_io::async_writer::AsyncWriter<W>'
STATE = 'minicbor_io::async_writer::State'


def mk_self(prog, m, st, state):
    obj = m.make_value(st, ty_from_str(SELF_TY), 'self*')
    ad = prog.adts[SELF_TY.split('<')[0]]
    names = ad['variants'][0]['fields']
    fs = list(obj.fields)
    fs[names.index('state')] = state
    st.mem[('arg', 'self')] = Adt(obj.adt, 0, fs)
    st.mem[('arg', 'ctx')] = Atom('ctx*')


def state_val(prog, o):
    sv = io.self_obj(o)
    return io.field(prog, sv, 'state') if isinstance(sv, Adt) else None


def sync_rule(ctx, prog):
    inst = io.coroutine_inst(prog, SYNC)
    if inst is None:
        ctx.fail_closed('T-SYNC', 'pre-transform body of AsyncWriter::sync not exported')
        return 0
    where = mir.loc(inst['sp'])
    def mk_setup(start):
        def setup(m, st, args):
            if start == 'None':
                stv = Adt(STATE, 0, [])
            else:
                o = m.new_sym(st, 'o', 'usize', ((0, 1 << 40),))
                stv = Adt(STATE, 1, [Int.sym(o)])
            mk_self(prog, m, st, stv)
            return [Tup([Ref(('arg', 'self'), (), True)]), Atom('resume')]
        return setup
    try:
        runs, table, notes = coro.explore(prog, inst, [(s_, mk_setup(s_)) for s_ in ('None', 'WriteFrom')])
    except coro.LoopState as e:
        ctx.violation('F-AWAIT', 'sync|loop-state', str(e), where)
        return 0
    except Abort as e:
        ctx.fail_closed('T-SYNC', 'sync cannot be summarised: %s' % e)
        return 0
    ctx.notes.extend(notes)
    for (hk, sid), g in sorted(table.items(), key=repr):
        ctx.ok('F-AWAIT', 'sync|generic|%s|%s' % (hk[0].split('::')[-2], sid))
    ctx.floor('F-AWAIT', 'generic loop arrivals of sync', len(table), 1)
    total = 0
    for start in ('None', 'WriteFrom'):
        m, outs = runs[start]
        total += len(outs)
        o0 = Int.sym('o')
        for o in outs:
            evs = o.st.events
            kinds = [e[0] for e in evs]
            key = '%s|%s|%s' % (start, o.kind, ','.join(kinds))
            stv = state_val(prog, o)
            good = True
            cls = classify(prog, o) if o.kind == 'return' else None
            sig = (cls[0], cls[1]) if cls else None
            polls = [e for e in evs if e[0] == 'POLL']
            if any(p[1] != 'write' for p in polls):
                ctx.violation('T-SYNC', 'poll-kind', 'a future other than a single-shot write is polled: %s (a write_all-style future keeps its progress inside the future)' % [p[1] for p in polls], where)
                good = False
            if start == 'None':
                if kinds or o.kind != 'return' or sig != ('Ok', 'val'):
                    ctx.violation('T-SYNC', 'idle', 'sync on an idle writer does %s / %r; it must write nothing' % (kinds, sig), where)
                    good = False
            else:
                writes = [e for e in evs if e[0] == 'WRITE']
                wrote = Int.const(0)
                for w in writes:
                    wrote = lin_add(wrote, w[2], 1)
                for e in evs:
                    if e[0] in ('WRITE', 'WRITE_ERR'):
                        wb, ws = io.window(e[1])
                        if ws != 'o' or 'buffer' not in wb:
                            ctx.violation('T-SYNC', 'window', 'the sink is offered %s, expected self.buffer from the stored offset' % (e[1],), where)
                            good = False
                zero = [w for w in writes if nrange(o, w[2].terms[0][0]) == (0, 0)]
                off = stv.fields[0] if isinstance(stv, Adt) and stv.variant == 1 else None
                if not polls:
                    # the frame is complete: state back to None, nothing written
                    if not (o.kind == 'return' and sig == ('Ok', 'val') and isinstance(stv, Adt) and stv.variant == 0):
                        ctx.violation('T-SYNC', 'completion', 'without polling the sink the step ends as %s %r state %r; expected Ok with state None' % (o.kind, sig, stv), where)
                        good = False
                    ge = [(k, v) for k, v in io.known(o).items() if k.startswith(('Ge(o', 'Lt(o'))]
                    if not ge:
                        ctx.violation('T-SYNC', 'completion-guard', 'the frame is declared complete without comparing the offset with the buffer length', where)
                        good = False
                elif zero:
                    if not (sig == ('Err', 'Io') and 'ErrorKind#' in str(cls[2])):
                        ctx.violation('T-SYNC', 'write-zero', 'a sink that accepts 0 bytes yields %s %r, expected Err(Io(WriteZero))' % (o.kind, sig), where)
                        good = False
                else:
                    if off is None or off != lin_add(o0, wrote, 1):
                        ctx.violation('T-SYNC', 'progress|%s' % o.kind, 'at a %s the stored offset is %r but %r byte(s) were accepted by the sink since offset o (bytes would be re-sent or skipped after cancel + sync)' % (o.kind, off if off is not None else stv, wrote), where)
                        good = False
                    if o.kind == 'return' and sig and sig[0] == 'Ok':
                        ctx.violation('T-SYNC', 'early-ok', 'sync reports completion after polling without the frame being complete', where)
                        good = False
            if good:
                ctx.ok('T-SYNC', key)
        # sync only reads the frame buffer: write_with reports `buffer.len() - 4` after it, and a later sync resumes from the stored
        # offset into the same bytes.  Buffer mutators (resize / truncate / clear / shrink ..) and calls the analysis cannot follow
        # are therefore violations here.
        for o in outs:
            bad = sorted(set(f for f in o.st.flags if f.startswith(('opaque:', 'trunc'))))
            mut = [e for e in o.st.events if e[0] in ('RESIZE', 'PATCH', 'ENCODE', 'ENCODE_ERR')]
            if mut:
                ctx.violation('T-SYNC', 'buffer-mutated|%s' % start, 'sync modifies the frame buffer (%s): the length reported by write_with and the bytes a resumed sync sends would change' % [e[0] for e in mut], where)
            elif bad:
                ctx.violation('T-SYNC', 'opaque|%s|%s' % (start, bad[0].split('::')[-1]), 'sync goes through %s, whose effect on the writer state the analysis cannot follow' % bad[0].split(':', 1)[1], where)
        for site, rec in m.assert_sites.items():
            if rec['open'] or rec['fail']:
                ctx.violation('T-SYNC.panic', '%s|%s|%s' % (start, rec['kind'], rec.get('op')), 'potential panic in sync (%s)' % rec['kind'], mir.loc(rec.get('sp')))
    return total


def write_rule(ctx, prog):
    inst = io.coroutine_inst(prog, WRITE)
    if inst is None:
        ctx.fail_closed('T-AWRITE', 'pre-transform body of AsyncWriter::write_with not exported')
        return 0
    where = mir.loc(inst['sp'])
    def setup(m, st, args):
        mk_self(prog, m, st, Adt(STATE, 0, []))
        return [Tup([Ref(('arg', 'self'), (), True), Atom('val'), Ref(('arg', 'ctx'), (), True)]), Atom('resume')]
    try:
        runs, table, notes = coro.explore(prog, inst, [('None', setup)], summarised=(SYNC,))
        m, outs = runs['None']
    except coro.LoopState as e:
        ctx.violation('F-AWAIT', 'write_with|loop-state', str(e), where)
        return 0
    except Abort as e:
        ctx.fail_closed('T-AWRITE', 'write_with cannot be summarised: %s' % e)
        return 0
    ctx.notes.extend(notes)
    seen = set()
    for o in outs:
        evs = o.st.events
        kinds = [e[0] for e in evs]
        stv = state_val(prog, o)
        armed = isinstance(stv, Adt) and stv.variant == 1
        cls = classify(prog, o) if o.kind == 'return' else None
        sig = (cls[0], cls[1]) if cls else None
        kn = io.known(o)
        gt = [(k, v) for k, v in kn.items() if k.startswith('Gt(') and 'max_len' in k]
        key = '%s|%s' % (o.kind, ','.join(kinds))
        good = True
        seen.add(sig or o.kind)
        polled = 'POLL' in kinds
        if kinds[:1] != ['RESIZE'] or evs[0][2] != Int.const(4):
            ctx.violation('T-AWRITE', 'prefix-room', 'the frame buffer is not reset to the 4 prefix bytes before encoding', where)
            good = False
        if 'ENCODE_ERR' in kinds or (gt and gt[-1][1] == 1) or (sig == ('Err', 'InvalidLen')):
            # failure before the frame is complete: neither arm the state nor touch the sink
            if armed or polled:
                ctx.violation('T-AWRITE', 'failed-write-armed', 'a write that failed (%s) leaves state %r / polls the sink: a later sync would push a broken frame' % ('encode error' if 'ENCODE_ERR' in kinds else 'length > max_len', stv), where)
                good = False
            if sig not in (('Err', 'Encode'), ('Err', 'InvalidLen')):
                ctx.violation('T-AWRITE', 'failure-result', 'a failed write yields %s %r' % (o.kind, sig), where)
                good = False
        else:
            patch = [e for e in evs if e[0] == 'PATCH']
            if not gt or gt[-1][1] != 0:
                ctx.violation('T-AWRITE', 'max-len', 'the state is armed on a path that has not established payload length <= max_len', where)
                good = False
            if len(patch) != 1 or repr(patch[0][2]) != 'be4(plen0)' or '[..4]' not in str(patch[0][1]):
                ctx.violation('T-AWRITE', 'prefix', 'length prefix written: %s; expected the big-endian payload length in buffer[..4]' % ([(str(p[1]), repr(p[2])) for p in patch],), where)
                good = False
            if polled and patch and evs.index(patch[0]) > kinds.index('POLL'):
                ctx.violation('T-AWRITE', 'order', 'the sink is polled before the frame is complete', where)
                good = False
            if o.kind == 'yield' or (sig and sig[0] == 'Err'):
                # suspended / failed inside sync(): the persistent state must let sync() finish this frame
                if not armed and 'INNER_DONE' not in kinds:
                    ctx.violation('T-AWRITE', 'cancel-unsafe', 'the write is suspended with state %r: after dropping the future, sync() would not complete the frame' % (stv,), where)
                    good = False
                if armed and stv.fields[0] != Int.const(0) and 'INNER_DONE' not in kinds:
                    ctx.violation('T-AWRITE', 'armed-offset', 'the state is armed with offset %r instead of 0' % (stv.fields[0],), where)
                    good = False
            if o.kind == 'return' and sig and sig[0] == 'Ok':
                if cls[2] != Int.sym('plen0') or 'INNER_DONE' not in kinds:
                    ctx.violation('T-AWRITE', 'return', 'write_with returns %r; expected Ok(payload length) after sync completed' % (cls,), where)
                    good = False
        if good:
            ctx.ok('T-AWRITE', key)
    for need in (('Ok', 'val'), ('Err', 'Encode'), ('Err', 'InvalidLen'), 'yield'):
        if need not in seen:
            ctx.violation('T-AWRITE', 'missing-outcome|%s' % (need,), 'no path produces %r' % (need,), where)
    fl = set(f for o in outs for f in o.st.flags if f.startswith(('opaque', 'trunc')))
    if fl:
        ctx.violation('T-AWRITE.precision', 'flags', 'summary not exact: %s' % sorted(fl), where)
    for site, rec in m.assert_sites.items():
        if rec['open'] or rec['fail']:
            ctx.violation('T-AWRITE.panic', '%s|%s' % (rec['kind'], rec.get('op')), 'potential panic in write_with (%s %s)' % (rec['kind'], rec.get('op') or ''), mir.loc(rec.get('sp')))
    return len(outs)


def run(ctx):
    prog = load.program('io-async')
    ctx.rules_run.append('T-SYNC: one loop step of sync() from None / WriteFrom(o<=len) with all sink outcomes: idle sync does nothing; offset += n in the same step; 0 -> WriteZero; completion resets the state; only single-shot Write futures')
    a = sync_rule(ctx, prog)
    ctx.rules_run.append('T-AWRITE: write_with: failures before the frame is complete neither arm the state nor touch the sink; the state is armed (offset 0) before the first suspension; return value = payload length')
    b = write_rule(ctx, prog)
    ctx.floor('T-SYNC', 'paths', a, 6)
    ctx.floor('T-AWRITE', 'paths', b, 5)
    return 'AsyncWriter: %d sync step paths and %d write_with paths checked against the frame-progress invariants.' % (a, b)
