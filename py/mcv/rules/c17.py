"""C17 - serde bridge: representation tables, acceptance matrix, access step functions and protocol composition (DESIGN 5.17).

Everything is decided from the MIR of minicbor-serde by abstract interpretation at item level (L2):
the Encoder/Decoder methods are primitives (their byte behaviour is C03/C04/C05), the generic
`T: Serialize`, `V: Visitor`, `S: DeserializeSeed` parameters are opaque leaves.
"""
from ..absint import State, Int, Atom, Adt, Tup, Ref, Slice, Str, FnItem, Fork, CallThen, Abort, UNIT, ty_from_str
from .. import load, l1, l2, mir, tables
from ..prims import ok, err, some, NONE, RESULT, OPTION, norm_adt

SER = "<&'_ mut minicbor_serde::ser::Serializer<W> as serde::Serializer>::"
DE = "<&'_ mut minicbor_serde::de::Deserializer<'_> as serde::Deserializer<'_>>::"
SEQSER = "<minicbor_serde::ser::SeqSerializer<'_, W> as serde::ser::%s>::%s"
SEQ = "<minicbor_serde::de::Seq<'_, '_> as serde::de::%s<'_>>::%s"
ENUM = "<minicbor_serde::de::Enum<'_, '_> as serde::de::%s<'_>>::%s"
SEQ_ADT = 'minicbor_serde::de::Seq'
ENUM_ADT = 'minicbor_serde::de::Enum'
SEQ_LEN_FIELD = 1


def access_roles(prog):
    """the bridge's access types by role, not by name: the type implementing SeqAccess (and MapAccess) with an Option<u64> length
    next to the deserializer, and the type implementing EnumAccess"""
    global SEQ, ENUM, SEQ_ADT, ENUM_ADT, SEQ_LEN_FIELD
    import re
    for inst in prog.insts.values():
        p = inst['path']
        m_ = re.match(r"^<(minicbor_serde::[^ ]+?(?:<.*?>)?) as serde::de::(SeqAccess|EnumAccess)<'_>>::(next_element_seed|variant_seed)$", p)
        if not m_:
            continue
        ty, tr = m_.group(1), m_.group(2)
        adt = ty.split('<')[0]
        if adt not in prog.adts:
            continue
        if tr == 'SeqAccess':
            tys = prog.adts[adt]['variants'][0].get('tys') or []
            lens = [i for i, t_ in enumerate(tys) if t_.replace('core::', 'std::') == 'std::option::Option<u64>']
            if len(lens) == 1 and len(tys) == 2:
                SEQ = "<%s as serde::de::%%s<'_>>::%%s" % ty
                SEQ_ADT = adt
                SEQ_LEN_FIELD = lens[0]
        else:
            ENUM = "<%s as serde::de::%%s<'_>>::%%s" % ty
            ENUM_ADT = adt
DESER = "minicbor_serde::de::Deserializer::<'_>::"

VISITS = ['bool', 'i8', 'i16', 'i32', 'i64', 'i128', 'u8', 'u16', 'u32', 'u64', 'u128', 'f32', 'f64', 'char', 'str', 'borrowed_str', 'string',
          'bytes', 'borrowed_bytes', 'byte_buf', 'none', 'some', 'unit', 'newtype_struct', 'seq', 'map', 'enum']


# ---------------------------------------------------------------------------
# overrides


def ser_overrides(fail=True):
    """encoder primitives; with fail=True every primitive may also fail (sink error) so that error propagation is visible"""
    base = l2.encoder_overrides()
    o = {}

    def wrap(h):
        def g(m, cfg, f, args, t):
            r = h(m, cfg, f, args, t)
            if r is NotImplemented or isinstance(r, (Fork, CallThen)):
                return r
            n = len(cfg.st.events)

            def undo(s_):
                # the failing primitive wrote nothing
                del s_.events[n - 1:]
                s_.events.append(('SINKERR', (f.get('rpath') or f['path']).split('::')[-1]))
            return Fork([(None, r), (undo, err(Atom('sink-error')))])
        return g
    for k, h in base.items():
        o[k] = wrap(h) if (fail and k.startswith(l2.ENC)) else h

    def ser_leaf(m, cfg, f, args, t):
        if f.get('resolved'):
            return NotImplemented
        l2.emit(cfg.st, ('ENC', 'T', l2.vname(m, cfg.st, args[0])))
        if fail:
            def mark(s_):
                s_.events.append(('SINKERR', 'leaf'))
            return Fork([(None, ok(UNIT)), (mark, err(Atom('leaf-error')))])
        return ok(UNIT)
    o['serde::Serialize::serialize'] = ser_leaf

    def ser_str(m, cfg, f, args, t):
        # serde's data-model contract: `str` serialises through Serializer::serialize_str (trusted, serde's own impl)
        inst = m.prog.one(SER + 'serialize_str')
        if inst is None:
            raise Abort('serialize_str missing')
        return CallThen(FnItem({'rkey': inst['key'], 'rpath': inst['path'], 'path': inst['path'], 'rkind': 'item'}), [args[1], args[0]], None)
    o['serde::ser::impls::<impl serde::Serialize for str>::serialize'] = ser_str
    return o


def norm(m, st, v):
    """comparable description of a value handed to a visitor"""
    if isinstance(v, Atom):
        return v.name
    if isinstance(v, Int):
        return repr(v)
    if isinstance(v, Slice):
        return 'slice(%s,%r)' % (v.data, v.len)
    if isinstance(v, Ref):
        return 'self'
    if isinstance(v, Adt):
        nm = v.adt.split('::')[-1]
        if v.adt == SEQ_ADT:
            ln = v.fields[SEQ_LEN_FIELD]
            if isinstance(ln, Adt) and norm_adt(ln.adt) == OPTION:
                return 'Seq(%s)' % ('None' if ln.variant == 0 else 'Some(%r)' % (ln.fields[0],))
            return 'Seq(%r)' % (ln,)
        if v.adt == ENUM_ADT:
            return 'Enum'
        return repr(v)
    return repr(v)


def de_overrides(seed_script=None):
    o = l2.decoder_overrides()
    o[DESER + 'current'] = l2.d_current     # justified by T-DE.raw (their L1 tables)
    o[DESER + 'read'] = l2.d_read

    def visit(m, cfg, f, args, t):
        if f.get('resolved'):
            return NotImplemented
        name = f['path'].split('::')[-1]
        cfg.st.events.append(('VISIT', name, tuple(norm(m, cfg.st, a) for a in args[1:]), l2.cur(cfg.st)))
        cfg.st.extra['visited'] = cfg.st.extra.get('visited', ()) + (tuple(args[1:]),)
        return ok(Atom('visited:' + name))
    for k in VISITS:
        o['serde::de::Visitor::visit_' + k] = visit

    def seed(m, cfg, f, args, t):
        if f.get('resolved'):
            return NotImplemented
        st = cfg.st
        q = st.extra.get('seedq') or ()
        if q:
            what = q[0]
            st.extra['seedq'] = q[1:]
            if what != 'leaf':
                inst = m.prog.one(DE + what)
                if inst is None:
                    raise Abort('%s missing' % what)
                extra = []
                if what in ('deserialize_tuple',):
                    extra = [Int.const(2)]
                return CallThen(FnItem({'rkey': inst['key'], 'rpath': inst['path'], 'path': inst['path'], 'rkind': 'item'}), [args[1]] + extra + [Atom('seed-visitor')], None)
        e = l2.peek_item(st)
        if e is None:
            return l2.eoi_derr(m) if hasattr(l2, 'eoi_derr') else err(Adt('minicbor_serde::error::DecodeError', 0, [l2._derr(m.prog, 'EndOfInput')]))
        if e[0] == 'ITEM' and e[1] == 'ENC':
            st.events.append(('DESER', e[3], l2.cur(st)))
            l2.advance(st)
            return ok(Atom('val:' + e[3]))
        st.events.append(('MISMATCH', 'seed', e))
        return err(Adt('minicbor_serde::error::DecodeError', 0, [l2._derr(m.prog, 'TypeMismatch', [Atom('type')])]))
    o['serde::de::DeserializeSeed::deserialize'] = seed
    return o


def inst_ref(inst):
    return FnItem({'rkey': inst['key'], 'rpath': inst['path'], 'path': inst['path'], 'rkind': 'item'})


def result_kind(o):
    if o.kind != 'return':
        return 'diverge'
    return l1.result_kind(o.value)


def derr_class(prog, v):
    """error class of a Result<_, DecodeError> value"""
    if isinstance(v, Adt) and v.fields:
        e = v.fields[0]
        if isinstance(e, Adt) and e.adt.endswith('DecodeError') and e.fields:
            return l1.error_class(prog, e.fields[0])
        return l1.error_class(prog, e)
    return '?'


# ---------------------------------------------------------------------------
# T-SER: representation table

def _i(kind):
    return [('INT', kind, 'v')]


VARIANT = ('STR', 'variant*', 'variant.len')
SER_REF = {
    'serialize_bool': [([('BOOL', 'v')], None)],
    'serialize_f32': [([('F32', 'v')], None)],
    'serialize_f64': [([('F64', 'v')], None)],
    'serialize_char': [([('CHAR', 'v')], None)],
    'serialize_str': [([('STR', 'v*', 'v.len')], None)],
    'serialize_bytes': [([('BYTES', 'v*', 'v.len')], None)],
    'serialize_none': [([('NULL',)], None)],
    'serialize_some': [([('ENC', 'T', 'value*')], None)],
    'serialize_unit': [([('ARRAY', '0')], None)],
    'serialize_unit_struct': [([('ARRAY', '0')], None)],
    'serialize_unit_variant': [([VARIANT], None)],
    'serialize_newtype_struct': [([('ENC', 'T', 'value*')], None)],
    'serialize_newtype_variant': [([('MAP', '1'), VARIANT, ('ENC', 'T', 'value*')], None)],
    'serialize_seq': [([('ARRAY', 'len.0')], 0), ([('BEGIN', 'array')], 1)],
    'serialize_tuple': [([('ARRAY', 'len')], 0)],
    'serialize_tuple_struct': [([('ARRAY', 'len')], 0)],
    'serialize_tuple_variant': [([('MAP', '1'), VARIANT, ('ARRAY', 'len')], 0)],
    'serialize_map': [([('MAP', 'len.0')], 0), ([('BEGIN', 'map')], 1)],
    'serialize_struct': [([('MAP', 'len')], 0)],
    'serialize_struct_variant': [([('MAP', '1'), VARIANT, ('MAP', 'len')], 0)],
}
for _k in l2.INT_METHODS:
    SER_REF['serialize_' + _k] = [(_i(_k), None)]

LEAF = lambda n: [('ENC', 'T', n)]
SEQSER_REF = {
    ('SerializeSeq', 'serialize_element'): {'*': LEAF('x*')},
    ('SerializeSeq', 'end'): {0: [], 1: [('BREAK',)]},
    ('SerializeTuple', 'serialize_element'): {'*': LEAF('x*')},
    ('SerializeTuple', 'end'): {'*': []},
    ('SerializeTupleStruct', 'serialize_field'): {'*': LEAF('x*')},
    ('SerializeTupleStruct', 'end'): {'*': []},
    ('SerializeTupleVariant', 'serialize_field'): {'*': LEAF('x*')},
    ('SerializeTupleVariant', 'end'): {'*': []},
    ('SerializeMap', 'serialize_key'): {'*': LEAF('k*')},
    ('SerializeMap', 'serialize_value'): {'*': LEAF('v*')},
    ('SerializeMap', 'end'): {0: [], 1: [('BREAK',)]},
    ('SerializeStruct', 'serialize_field'): {'*': [('STR', 'key*', 'key.len')] + LEAF('val*')},
    ('SerializeStruct', 'end'): {'*': []},
    ('SerializeStructVariant', 'serialize_field'): {'*': [('STR', 'key*', 'key.len')] + LEAF('val*')},
    ('SerializeStructVariant', 'end'): {'*': []},
}


def item_key(it):
    return tuple(x if isinstance(x, str) else (x.name if isinstance(x, Atom) else repr(x)) for x in it)


def fmt(items):
    return ' '.join('%s(%s)' % (i[0], ','.join(str(x) for x in i[1:])) for i in items) or '(nothing)'


FLAG_STATES = {}     # 0 / 1 -> the state part of a definite / indefinite compound serializer, however it is represented


def ser_state(v):
    """the part of a compound serializer value that is not the reference to the Serializer (a bool today; an enum, two bools, ..)"""
    if isinstance(v, Adt) and v.adt.endswith('SeqSerializer'):
        return tuple(f for f in v.fields if not isinstance(f, Ref))
    return None


def flag_states(prog, ov):
    """learn how `definite` / `indefinite` is represented: the state of the serializer serialize_seq returns for Some(n) / None"""
    FLAG_STATES.clear()
    inst = prog.one(SER + 'serialize_seq')
    if inst is None:
        return
    try:
        _i, outs, m = l2.run_root(prog, inst, ser_overrides(fail=False))
    except Abort:
        return
    for o in outs:
        if o.kind != 'return' or l1.result_kind(o.value) != 'Ok' or not o.value.fields:
            continue
        items = [i[0] for i in l2.items_of(o.st.events)]
        stt = ser_state(o.value.fields[0])
        if stt is None:
            continue
        if items == ['ARRAY']:
            FLAG_STATES[0] = stt
        elif items == ['BEGIN']:
            FLAG_STATES[1] = stt


def indefinite_of(m, st, v):
    """the `indefinite` flag of a returned / passed SeqSerializer"""
    stt = ser_state(v)
    if stt is None:
        return None
    for k, want in FLAG_STATES.items():
        if repr(want) == repr(stt):
            return k
    if len(stt) == 1 and isinstance(stt[0], Int) and stt[0].is_const():
        return stt[0].c
    return repr(stt)


def check_ser_rows(ctx, rule, label, outs, want_rows, where, m, flag_of=None):
    """want_rows: list of (items, returned-indefinite-flag or None); every Ok row must equal one of them, each must occur;
    a row with a sink error must be Err and must not emit after the failure"""
    seen = set()
    for o in outs:
        if o.kind != 'return':
            ctx.violation(rule + '.total', label, 'path does not return: %s' % o.why, where)
            continue
        evs = o.st.events
        sink = [e for e in evs if e[0] == 'SINKERR']
        rk = l1.result_kind(o.value)
        bad = [f for f in o.st.flags if f.startswith(('opaque', 'imprecise', 'trunc')) and not f.startswith('imprecise:branch')]
        if bad:
            ctx.violation(rule + '.precision', label, 'summary not exact (%s)' % ','.join(sorted(bad)), where)
            continue
        if sink:
            idx = evs.index(sink[0])
            after = [e for e in evs[idx + 1:] if e[0] == 'ITEM']
            if rk != 'Err':
                ctx.violation(rule + '.errors', label + '|swallowed', 'a failure of the sink in %s is not reported: the method returns %s' % (sink[0][1], rk), where)
            elif after:
                ctx.violation(rule + '.errors', label + '|continues', 'after the sink failed in %s the method keeps writing %s' % (sink[0][1], fmt(l2.items_of(after))), where)
            else:
                ctx.ok(rule + '.errors', '%s|%s@%d' % (label, sink[0][1], idx))
            continue
        if rk != 'Ok':
            ctx.violation(rule, label + '|spurious-error', 'returns an error although every encoder call succeeded', where)
            continue
        got = [item_key(i) for i in l2.items_of(evs)]
        flag = None
        if o.value.fields and flag_of is None:
            flag = indefinite_of(m, o.st, o.value.fields[0])
        hit = None
        for wi, (items, wflag) in enumerate(want_rows):
            if [tuple(i) for i in items] == got and (wflag is None or wflag == flag):
                hit = wi
        if hit is None:
            ctx.violation(rule, label, 'writes %s%s; the documented representation is %s' % (
                fmt(got), '' if flag is None else ' (indefinite=%s)' % flag,
                ' or '.join(fmt(i) + ('' if fl is None else ' (indefinite=%s)' % fl) for i, fl in want_rows)), where)
        else:
            seen.add(hit)
            ctx.ok(rule, '%s|row%d' % (label, hit))
    for wi, (items, wflag) in enumerate(want_rows):
        if wi not in seen:
            ctx.violation(rule, label + '|missing%d' % wi, 'no path writes %s' % fmt(items), where)


def t_ser(ctx, prog):
    ctx.rules_run.append('T-SER: every Serializer method, interpreted with opaque values, writes exactly the documented item sequence (incl. definite/indefinite flag of the returned compound serializer); sink failures surface as Err and stop the output')
    ov = ser_overrides(fail=True)
    flag_states(prog, ov)
    if sorted(FLAG_STATES) != [0, 1]:
        ctx.fail_closed('T-SER', 'serialize_seq does not return a definite serializer for Some(n) and an indefinite one for None: %r' % (FLAG_STATES,))
    n = 0
    for name, want in sorted(SER_REF.items()):
        inst = prog.one(SER + name)
        if inst is None:
            ctx.fail_closed('T-SER', 'anchor missing: Serializer::%s' % name)
            continue
        try:
            inst, outs, m = l2.run_root(prog, inst, ov)
        except Abort as e:
            ctx.fail_closed('T-SER', '%s cannot be summarised: %s' % (name, e))
            continue
        n += 1
        check_ser_rows(ctx, 'T-SER', name, outs, want, mir.loc(inst['sp']), m)
    # the remaining trait methods of Serializer that exist in this configuration must be known
    have = set(i['path'][len(SER):] for i in prog.insts.values() if i['path'].startswith(SER) and '::{' not in i['path'])
    for extra in sorted(have - set(SER_REF) - {'is_human_readable', 'collect_str'}):
        ctx.violation('T-SER', extra + '|unknown-method', 'Serializer::%s is implemented by the bridge but has no row in the representation table' % extra, None)
    ctx.floor('T-SER', 'methods', n, 28)
    # collect_str: serde's default is serialize_str(&value.to_string()), i.e. one definite text item, which is what every string
    # deserializer of the bridge reads.  An override may only refuse (the documented no-alloc stub) or write exactly that.
    cs = prog.one(SER + 'collect_str')
    if cs is not None:
        where = mir.loc(cs['sp'])
        try:
            _, outs, m = l2.run_root(prog, cs, ov)
        except Abort as e:
            outs = None
            ctx.violation('T-SER', 'collect_str|opaque', 'Serializer::collect_str is overridden and cannot be summarised (%s): its output must be one definite-length text item' % e, where)
        for o in outs or []:
            if o.kind != 'return':
                ctx.violation('T-SER.total', 'collect_str', 'path does not return: %s' % o.why, where)
                continue
            items = [item_key(i) for i in l2.items_of(o.st.events)]
            rk = l1.result_kind(o.value)
            bad = [f for f in o.st.flags if f.startswith(('opaque', 'imprecise', 'trunc')) and not f.startswith('imprecise:branch')]
            if rk == 'Err' and not items:
                ctx.ok('T-SER', 'collect_str|refuses')
            elif rk == 'Ok' and len(items) == 1 and items[0][0] == 'STR' and not bad:
                ctx.ok('T-SER', 'collect_str|str')
            elif any(e[0] == 'SINKERR' for e in o.st.events) and rk == 'Err':
                ctx.ok('T-SER.errors', 'collect_str|sink', nontrivial=False)
            else:
                ctx.violation('T-SER', 'collect_str', 'collect_str writes %s%s; strings are one definite-length text item (what deserialize_str/string/identifier read), or the call is refused without output'
                              % (fmt(items), (' [not exact: %s]' % ','.join(sorted(bad))) if bad else ''), where)
    ctx.rules_run.append('T-SER.compound: SeqSerializer methods: element/key/value/field write exactly their argument (struct fields: name as text, then value); end() writes a break iff the serializer was opened indefinite')
    k = 0
    for (tr, meth), want in sorted(SEQSER_REF.items()):
        inst = prog.one(SEQSER % (tr, meth))
        if inst is None:
            ctx.fail_closed('T-SER.compound', 'anchor missing: %s::%s' % (tr, meth))
            continue
        for flagval in (0, 1):
            exp = want.get('*', want.get(flagval))
            st = State()
            mm = l2.L2Machine(prog, ov)
            body = inst['body']
            names = dict((l, nm) for l, nm in body['names'])
            args = [mm.make_value(st, body['locals'][i], names.get(i, 'a%d' % i)) for i in range(1, body['argc'] + 1)]
            # fix the flag of `self`
            a0 = args[0]
            tgt = mm.read_path(st, a0.key, a0.path) if isinstance(a0, Ref) else a0
            if not (isinstance(tgt, Adt) and tgt.adt.endswith('SeqSerializer')):
                ctx.fail_closed('T-SER.compound', '%s::%s: unexpected self %r' % (tr, meth, tgt))
                continue
            stt = list(FLAG_STATES.get(flagval, (Int.const(flagval),)))
            tgt = Adt(tgt.adt, tgt.variant, [f if isinstance(f, Ref) else stt.pop(0) for f in tgt.fields] if len([f for f in tgt.fields if not isinstance(f, Ref)]) == len(stt) else [tgt.fields[0], Int.const(flagval)])
            if isinstance(a0, Ref):
                mm.write_path(st, a0.key, a0.path, tgt)
            else:
                args[0] = tgt
            try:
                outs = mm.run(inst, args, st)
            except Abort as e:
                ctx.fail_closed('T-SER.compound', '%s::%s cannot be summarised: %s' % (tr, meth, e))
                continue
            k += 1
            check_ser_rows(ctx, 'T-SER.compound', '%s::%s|indefinite=%d' % (tr, meth, flagval), outs, [(exp, None)], mir.loc(inst['sp']), mm, flag_of=False)
    ctx.floor('T-SER.compound', 'method x flag', k, 30)
    # serde's compound traits have provided methods (skip_field, ..) whose defaults serde's derive relies on: the length it
    # announces does not count skipped fields.  An override in the bridge must therefore write nothing.
    import re as _re
    pat = _re.compile(r"^<minicbor_serde::.+? as serde::ser::(Serialize(?:Seq|Tuple|TupleStruct|TupleVariant|Map|Struct|StructVariant))>::(\w+)$")
    for inst in sorted(prog.insts.values(), key=lambda i: i['path']):
        m_ = pat.match(inst['path'])
        if not m_ or (m_.group(1), m_.group(2)) in SEQSER_REF:
            continue
        tr, meth = m_.group(1), m_.group(2)
        try:
            r_ = l2.run_root(prog, inst, ov)
        except Abort as e:
            ctx.fail_closed('T-SER.compound', 'override %s::%s cannot be summarised: %s' % (tr, meth, e))
            continue
        outs = r_[1] if r_ else []
        wrote = [o for o in outs if l2.items_of(o.st.events)]
        if meth in ('skip_field',) and not wrote:
            ctx.ok('T-SER.compound', '%s::%s|override writes nothing' % (tr, meth))
        elif meth in ('skip_field',):
            ctx.violation('T-SER.compound', '%s::%s|override' % (tr, meth), 'the bridge overrides %s::%s and writes %s: serde leaves skipped fields out of the announced length, so the map header no longer matches its entries' % (tr, meth, [item_key(i) for i in l2.items_of(wrote[0].st.events)]), mir.loc(inst['sp']))
        else:
            ctx.violation('T-SER.compound', '%s::%s|override' % (tr, meth), 'the bridge overrides the provided method %s::%s, which has no row in the reference table (review its output and add the row)' % (tr, meth), mir.loc(inst['sp']))


# ---------------------------------------------------------------------------
# T-DE.raw: the two raw byte helpers of the Deserializer (L1)

def t_de_raw(ctx, prog):
    ctx.rules_run.append('T-DE.raw: Deserializer::current / read (byte-level twins of the Decoder\'s private helpers): Ok = the byte at the position, read advances by exactly one, current does not move, out of input = end-of-input class')
    for name, moves in (('current', False), ('read', True)):
        r = tables.dec_rows(prog, DESER + name)
        if r is None:
            ctx.fail_closed('T-DE.raw', 'anchor missing: Deserializer::%s' % name)
            continue
        inst, rows, m = r
        where = mir.loc(inst['sp'])
        oks = [x for x in rows if x.result == 'Ok']
        errs = [x for x in rows if x.result != 'Ok']
        good = True
        if len(oks) != 1 or len(errs) != 1:
            ctx.violation('T-DE.raw', name + '|shape', 'expected one Ok and one Err path, found %d/%d' % (len(oks), len(errs)), where)
            continue
        o = oks[0]
        sp = [e for e in o.events if e[0] == 'SETPOS']
        if not (isinstance(o.value, Atom) and o.value.name == 'input[pos0]'):
            ctx.violation('T-DE.raw', name + '|value', 'returns %r instead of the byte at the current position' % (o.value,), where)
            good = False
        if moves and [repr(e[1]) for e in sp] != ['pos0 + 1']:
            ctx.violation('T-DE.raw', name + '|advance', 'sets the position to %s instead of position+1' % [repr(e[1]) for e in sp], where)
            good = False
        if not moves and (sp or o.consumed()):
            ctx.violation('T-DE.raw', name + '|advance', 'moves the position', where)
            good = False
        e = errs[0]
        if e.value != 'EndOfInput' or [x for x in e.events if x[0] == 'SETPOS']:
            ctx.violation('T-DE.raw', name + '|eoi', 'out-of-input path yields %s %s' % (e.result, e.value), where)
            good = False
        if good:
            ctx.ok('T-DE.raw', name)


# ---------------------------------------------------------------------------
# T-DE: acceptance matrix

def universe(half):
    U = []
    U.append(('bool', ('ITEM', 'BOOL', Atom('b'))))
    for k in l2.INT_METHODS + ['int']:
        U.append(('int:' + k, ('ITEM', 'INT', k, Int.sym('n'))))
    U.append(('f16', ('ITEM', 'F16', Atom('h'))))
    U.append(('f32', ('ITEM', 'F32', Atom('x'))))
    U.append(('f64', ('ITEM', 'F64', Atom('y'))))
    U.append(('char', ('ITEM', 'CHAR', Int.sym('c'))))
    U.append(('str', ('ITEM', 'STR', 's', Int.sym('slen'))))
    U.append(('bytes', ('ITEM', 'BYTES', 'bs', Int.sym('blen'))))
    U.append(('null', ('ITEM', 'NULL')))
    U.append(('undefined', ('ITEM', 'UNDEF')))
    U.append(('simple', ('ITEM', 'SIMPLE', Int.sym('sv'))))
    U.append(('array0', ('ITEM', 'ARRAY', Int.const(0))))
    U.append(('array2', ('ITEM', 'ARRAY', Int.const(2))))
    U.append(('arrayN', ('ITEM', 'ARRAY', Int.sym('cnt'))))
    U.append(('map1', ('ITEM', 'MAP', Int.const(1))))
    U.append(('map2', ('ITEM', 'MAP', Int.const(2))))
    U.append(('mapN', ('ITEM', 'MAP', Int.sym('cnt'))))
    U.append(('array_', ('ITEM', 'BEGIN', 'array')))
    U.append(('map_', ('ITEM', 'BEGIN', 'map')))
    U.append(('bytes_', ('ITEM', 'BEGIN', 'bytes')))
    U.append(('str_', ('ITEM', 'BEGIN', 'str')))
    U.append(('tag', ('ITEM', 'TAG', Int.sym('tg'))))
    U.append(('break', ('ITEM', 'BREAK')))
    U.append(('leaf', ('ITEM', 'ENC', 'T', 'x')))
    U.append(('eoi', None))
    return U


INT_RANGE = {'u8': (0, 255), 'u16': (0, 65535), 'u32': (0, (1 << 32) - 1), 'u64': (0, (1 << 64) - 1),
             'i8': (-128, 127), 'i16': (-32768, 32767), 'i32': (-(1 << 31), (1 << 31) - 1), 'i64': (-(1 << 63), (1 << 63) - 1),
             'int': (-(1 << 64), (1 << 64) - 1)}


def accept(method, uk, half, alloc):
    """reference: what deserialize_<method> must do on universe item uk.
    returns list of allowed outcomes: ('visit', name, args-or-None, consumed) | ('err',)"""
    E = [('err',)]
    if uk == 'eoi':
        if method == 'newtype_struct':
            return [('visit', 'visit_newtype_struct', ('self',), 0)]
        return E
    if method in l2.INT_METHODS:
        if uk.startswith('int:'):
            k = uk[4:]
            lo, hi = INT_RANGE[k]
            alo, ahi = INT_RANGE[method]
            v = [('visit', 'visit_' + method, ('n',), 1)]
            if alo <= lo and hi <= ahi:
                return v
            return v + E
        if uk == 'char':
            v = [('visit', 'visit_' + method, ('c',), 1)]
            alo, ahi = INT_RANGE[method]
            return v if (alo <= 0 and ahi >= 0x10ffff) else v + E
        return E
    if method == 'bool':
        return [('visit', 'visit_bool', ('b',), 1)] if uk == 'bool' else E
    if method == 'f32':
        if uk == 'f32':
            return [('visit', 'visit_f32', ('x',), 1)]
        if uk == 'f16' and half:
            return [('visit', 'visit_f32', ('h',), 1)]
        return E
    if method == 'f64':
        if uk in ('f32', 'f64') or (uk == 'f16' and half):
            return [('visit', 'visit_f64', ({'f16': 'h', 'f32': 'x', 'f64': 'y'}[uk],), 1)]
        return E
    if method == 'char':
        if uk == 'char':
            return [('visit', 'visit_char', ('c',), 1)]
        if uk.startswith('int:'):
            return [('visit', 'visit_char', ('n',), 1)] + E
        return E
    if method in ('str', 'identifier', 'string'):
        vn = 'visit_str' if method == 'string' else 'visit_borrowed_str'
        return [('visit', vn, ('slice(input:s,slen)',), 1)] if uk == 'str' else E
    if method in ('bytes', 'byte_buf'):
        vn = 'visit_bytes' if method == 'byte_buf' else 'visit_borrowed_bytes'
        return [('visit', vn, ('slice(input:bs,blen)',), 1)] if uk == 'bytes' else E
    if method == 'option':
        if uk == 'null':
            return [('visit', 'visit_none', (), 1)]
        return [('visit', 'visit_some', ('self',), 0)]
    if method in ('unit', 'unit_struct'):
        if uk == 'array0':
            return [('visit', 'visit_unit', (), 1)]
        if uk == 'arrayN':
            return [('visit', 'visit_unit', (), 1)] + E
        return E
    if method == 'newtype_struct':
        return [('visit', 'visit_newtype_struct', ('self',), 0)]
    if method == 'seq':
        return {'array0': [('visit', 'visit_seq', ('Seq(Some(0))',), 1)], 'array2': [('visit', 'visit_seq', ('Seq(Some(2))',), 1)],
                'arrayN': [('visit', 'visit_seq', ('Seq(Some(cnt))',), 1)], 'array_': [('visit', 'visit_seq', ('Seq(None)',), 1)]}.get(uk, E)
    if method in ('tuple', 'tuple_struct'):     # len = 2 in the harness call
        if uk == 'array2':
            return [('visit', 'visit_seq', ('Seq(Some(2))',), 1)]
        if uk == 'arrayN':
            return [('visit', 'visit_seq', ('Seq(Some(cnt))',), 1)] + E
        return E
    if method in ('map', 'struct'):
        return {'map1': [('visit', 'visit_map', ('Seq(Some(1))',), 1)], 'map2': [('visit', 'visit_map', ('Seq(Some(2))',), 1)],
                'mapN': [('visit', 'visit_map', ('Seq(Some(cnt))',), 1)], 'map_': [('visit', 'visit_map', ('Seq(None)',), 1)]}.get(uk, E)
    if method == 'enum':
        if uk == 'map1':
            return [('visit', 'visit_enum', ('Enum',), 1)]
        if uk == 'map2':
            return E
        if uk == 'mapN':
            return [('visit', 'visit_enum', ('Enum',), 1)] + E
        if uk == 'leaf':
            return None         # an opaque item may or may not be a map
        return [('visit', 'visit_enum', ('Enum',), 0)]     # bare identifier form: nothing consumed yet
    if method == 'ignored_any':
        if uk in ('array2', 'arrayN', 'map1', 'map2', 'mapN', 'array_', 'map_', 'bytes_', 'str_', 'tag'):
            return E            # incomplete item in a one-item stream
        if uk == 'break':
            return None         # skip() on a lone break is outside the property (not a data item)
        return [('visit', 'visit_unit', (), 1)]
    if method == 'any':
        if uk == 'bool':
            return [('visit', 'visit_bool', ('b',), 1)]
        if uk.startswith('int:'):
            k = uk[4:]
            if k == 'int':
                return E
            return [('visit', 'visit_' + k, ('n',), 1)]
        if uk == 'char':
            return [('visit', 'visit_u32', ('c',), 1)]
        if uk == 'f16':
            return [('visit', 'visit_f32', ('h',), 1)] if half else E
        if uk == 'f32':
            return [('visit', 'visit_f32', ('x',), 1)]
        if uk == 'f64':
            return [('visit', 'visit_f64', ('y',), 1)]
        if uk == 'str':
            return [('visit', 'visit_borrowed_str', ('slice(input:s,slen)',), 1)]
        if uk == 'bytes':
            return [('visit', 'visit_borrowed_bytes', ('slice(input:bs,blen)',), 1)]
        if uk == 'null':
            return [('visit', 'visit_none', (), 1)]
        if uk in ('array0', 'array2', 'arrayN', 'array_'):
            return accept('seq', uk, half, alloc)
        if uk in ('map1', 'map2', 'mapN', 'map_'):
            return accept('map', uk, half, alloc)
        if uk in ('bytes_', 'str_'):
            return None if alloc else E     # chunk concatenation loop: decided at iterator level (C04), not here
        if uk == 'leaf':
            return None
        return E
    raise KeyError(method)


DE_METHODS = ['bool'] + l2.INT_METHODS + ['f32', 'f64', 'char', 'str', 'string', 'identifier', 'bytes', 'byte_buf', 'option', 'unit', 'unit_struct',
                                          'newtype_struct', 'seq', 'tuple', 'tuple_struct', 'map', 'struct', 'enum', 'ignored_any', 'any']


def de_args(m, st, inst, method):
    body = inst['body']
    names = dict((l, nm) for l, nm in body['names'])
    args = []
    for i in range(1, body['argc'] + 1):
        nm = names.get(i, 'a%d' % i)
        if nm == 'len':
            args.append(Int.const(2))
        else:
            args.append(m.make_value(st, body['locals'][i], nm))
    return args


def run_de(prog, path, stream, ov, fixed_len=True, st=None, args=None):
    inst = prog.one(path)
    if inst is None:
        return None
    st = st or State()
    st.extra['stream'] = tuple(stream)
    st.extra.setdefault('cur', 0)
    for e in stream:
        for x in e:
            if isinstance(x, Int):
                for s_, _k in x.terms:
                    if s_ not in st.ranges:
                        st.ranges[s_] = {'n': ((-(1 << 64), (1 << 64) - 1),), 'c': ((0, 0x10ffff),), 'sv': ((0, 255),)}.get(s_, ((0, (1 << 64) - 1),))
                        st.symty[s_] = 'i128' if s_ == 'n' else 'u64'
    m = l2.L2Machine(prog, ov)
    if args is None:
        args = de_args(m, st, inst, path)
    outs = m.run(inst, args, st)
    return inst, outs, m


def t_de(ctx, prog, half, alloc, label=''):
    ctx.rules_run.append('T-DE%s: acceptance matrix of every Deserializer method over one item of every kind: the visitor receives the data-model value of a matching item through the documented visit method and the item is consumed; any other item is an error, never a different value' % label)
    ov = de_overrides()
    n = 0
    for method in DE_METHODS:
        path = DE + 'deserialize_' + method
        if prog.one(path) is None:
            ctx.fail_closed('T-DE' + label, 'anchor missing: deserialize_%s' % method)
            continue
        where = mir.loc(prog.one(path)['sp'])
        for uk, item in universe(half):
            want = accept(method, uk, half, alloc)
            if want is None:
                continue
            stream = [item] if item is not None else []
            if method in l2.INT_METHODS or method in ('char',):
                # range of n follows the item's kind
                pass
            try:
                st = State()
                if item is not None and item[1] == 'INT':
                    lo, hi = INT_RANGE[item[2]]
                    st.ranges['n'] = ((lo, hi),)
                    st.symty['n'] = 'i128'
                if uk in ('arrayN', 'mapN'):
                    st.ranges['cnt'] = ((0, (1 << 64) - 1),)
                    st.symty['cnt'] = 'u64'
                r = run_de(prog, path, stream, ov, st=st)
            except Abort as e:
                ctx.fail_closed('T-DE' + label, 'deserialize_%s over %s cannot be summarised: %s' % (method, uk, e))
                continue
            inst, outs, m = r
            n += 1
            key = '%s|%s' % (method, uk)
            seen = set()
            good = True
            for o in outs:
                if o.kind != 'return':
                    ctx.violation('T-DE%s.total' % label, key, 'path does not return: %s' % o.why, where)
                    good = False
                    continue
                bad = [f for f in o.st.flags if f.startswith(('opaque', 'trunc')) or (f.startswith('imprecise') and not f.startswith(('imprecise:branch', 'imprecise:int-narrow')))]
                if bad:
                    ctx.violation('T-DE%s.precision' % label, key, 'summary not exact (%s)' % ','.join(sorted(bad)), where)
                    good = False
                    continue
                rk = l1.result_kind(o.value)
                vis = [e for e in o.st.events if e[0] == 'VISIT']
                if rk == 'Err':
                    got = ('err',)
                    if vis:
                        ctx.violation('T-DE' + label, key + '|visit-then-error', 'calls %s and then fails' % vis[0][1], where)
                        good = False
                        continue
                elif len(vis) != 1:
                    ctx.violation('T-DE' + label, key + '|visits', 'returns Ok after %d visitor calls' % len(vis), where)
                    good = False
                    continue
                else:
                    got = ('visit', vis[0][1], tuple(vis[0][2]), l2.cur(o.st))
                    if vis[0][3] != l2.cur(o.st):
                        ctx.violation('T-DE' + label, key + '|late-consumption', 'consumes input after handing the value to the visitor', where)
                        good = False
                        continue
                if got in want:
                    seen.add(got)
                else:
                    good = False
                    ctx.violation('T-DE' + label, key, 'deserialize_%s on %s: %s; expected %s' % (
                        method, uk, 'error' if got == ('err',) else '%s(%s) consuming %d item(s)' % (got[1], ','.join(got[2]), got[3]),
                        ' or '.join('error' if w == ('err',) else '%s(%s) consuming %d' % (w[1], ','.join(w[2]), w[3]) for w in want)), where)
            for w in want:
                if w not in seen and good:
                    good = False
                    ctx.violation('T-DE' + label, key + '|missing', 'deserialize_%s on %s never %s' % (method, uk, 'fails' if w == ('err',) else 'reaches %s' % w[1]), where)
            if good:
                ctx.ok('T-DE' + label, key)
    ctx.floor('T-DE' + label, 'method x item', n, 700)


# ---------------------------------------------------------------------------
# T-ACCESS: one-step transfer functions of Seq (SeqAccess / MapAccess) and Enum

def seq_value(m, st, lenv):
    de = m.make_value(st, ty_from_str("&mut minicbor_serde::de::Deserializer<'_>"), 'de')
    return de, Adt(SEQ_ADT, 0, [de, lenv] if SEQ_LEN_FIELD == 1 else [lenv, de])


def t_access(ctx, prog):
    ctx.rules_run.append('T-ACCESS: step function of Seq as SeqAccess/MapAccess from an arbitrary remaining length: definite counts down once per element / per entry (on the value) and stops at 0 without consuming; indefinite stops exactly on the break byte and consumes it; each step delegates exactly once')
    ov = de_overrides()
    cases = []
    for lname, lenv, rng in (('None', NONE, None), ('Some(0)', some(Int.const(0)), None), ('Some(n>=1)', some(Int.sym('rem')), ((1, (1 << 64) - 1),))):
        for sname, stream in (('leaf', [('ITEM', 'ENC', 'T', 'x')]), ('break', [('ITEM', 'BREAK')]), ('eoi', [])):
            cases.append((lname, lenv, rng, sname, stream))

    def ref(meth, lname, sname):
        """(result, consumed, len') ; result in none/some/val/err/panic"""
        if meth in ('next_element_seed', 'next_key_seed'):
            if lname == 'None':
                return {'leaf': ('some', 1, 'None'), 'break': ('none', 1, 'None'), 'eoi': ('err', 0, None)}[sname]
            if lname == 'Some(0)':
                return ('none', 0, 'Some(0)')
            dec = 'Some(rem + -1)' if meth == 'next_element_seed' else 'Some(rem)'
            return {'leaf': ('some', 1, dec), 'break': ('err', 0, None), 'eoi': ('err', 0, None)}[sname]
        if meth == 'next_value_seed':
            if lname == 'None':
                return {'leaf': ('val', 1, 'None'), 'break': ('err', 0, None), 'eoi': ('err', 0, None)}[sname]
            if lname == 'Some(0)':
                return ('protocol', 0, None)
            return {'leaf': ('val', 1, 'Some(rem + -1)'), 'break': ('err', 0, None), 'eoi': ('err', 0, None)}[sname]
    n = 0
    for tr, meth in (('SeqAccess', 'next_element_seed'), ('MapAccess', 'next_key_seed'), ('MapAccess', 'next_value_seed')):
        inst = prog.one(SEQ % (tr, meth))
        if inst is None:
            ctx.fail_closed('T-ACCESS', 'anchor missing: %s::%s' % (tr, meth))
            continue
        where = mir.loc(inst['sp'])
        for lname, lenv, rng, sname, stream in cases:
            want = ref(meth, lname, sname)
            key = '%s|len=%s|next=%s' % (meth, lname, sname)
            st = State()
            if rng:
                st.ranges['rem'] = rng
                st.symty['rem'] = 'u64'
            st.extra['stream'] = tuple(stream)
            st.extra['cur'] = 0
            m = l2.L2Machine(prog, ov)
            de, seq = seq_value(m, st, lenv)
            st.mem[('obj', 'seq')] = seq
            try:
                outs = m.run(inst, [Ref(('obj', 'seq'), (), True), Atom('seed')], st)
            except Abort as e:
                ctx.fail_closed('T-ACCESS', '%s cannot be summarised: %s' % (key, e))
                continue
            n += 1
            if want[0] == 'protocol':
                # next_value without a preceding key: outside the MapAccess protocol; the only requirement is that it is not silently Ok with a wrapped counter
                wrapped = [o for o in outs if o.kind == 'return' and l1.result_kind(o.value) == 'Ok' and not o.st.asserts]
                if wrapped:
                    ctx.violation('T-ACCESS', key, 'next_value_seed with no remaining entry is accepted without a checked decrement of the remaining length', where)
                else:
                    ctx.ok('T-ACCESS', key, nontrivial=False)
                continue
            good = True
            for o in outs:
                if o.kind != 'return':
                    ctx.violation('T-ACCESS.total', key, 'path does not return: %s' % o.why, where)
                    good = False
                    continue
                if o.st.asserts:
                    ctx.violation('T-ACCESS.total', key, 'arithmetic check can fail (%s)' % (o.st.asserts[0],), where)
                    good = False
                    continue
                rk = l1.result_kind(o.value)
                v = o.value.fields[0] if o.value.fields else None
                if rk == 'Err':
                    res = 'err'
                elif meth == 'next_value_seed':
                    res = 'val' if isinstance(v, Atom) and v.name == 'val:x' else 'other:%r' % (v,)
                elif isinstance(v, Adt) and norm_adt(v.adt) == OPTION:
                    res = 'none' if v.variant == 0 else ('some' if isinstance(v.fields[0], Atom) and v.fields[0].name == 'val:x' else 'other:%r' % (v,))
                else:
                    res = 'other:%r' % (v,)
                ndeser = len([e for e in o.st.events if e[0] == 'DESER'])
                consumed = l2.cur(o.st)
                sq = m.read_path(o.st, ('obj', 'seq'), ())
                ln = norm(m, o.st, sq)[4:-1]
                got = (res, consumed, ln if res != 'err' else None)
                w = want
                if res == 'err':
                    got = ('err', 0, None)
                    if consumed and sname != 'break':
                        got = ('err', consumed, None)
                if got != w:
                    good = False
                    ctx.violation('T-ACCESS', key, '%s with remaining length %s and next item %s: result %s, %d item(s) consumed, remaining -> %s; the step function requires %s, %d, %s' % (
                        meth, lname, sname, got[0], got[1], got[2], w[0], w[1], w[2]), where)
                elif res in ('some', 'val') and ndeser != 1:
                    good = False
                    ctx.violation('T-ACCESS', key + '|delegation', 'delegates %d times to the seed' % ndeser, where)
            if good:
                ctx.ok('T-ACCESS', key)
    ctx.floor('T-ACCESS', 'step cases', n, 27)
    # provided methods of the access traits that the bridge overrides (size_hint, next_entry_seed, ..): serde's own visitors call
    # them instead of the required ones (maps are read pairwise through next_entry_seed), so they must be the same step function
    import re as _re
    acc_ty = SEQ.split(' as serde::de::')[0][1:]
    pat = _re.compile(r"^<%s as serde::de::(SeqAccess|MapAccess)<'_>>::(\w+)$" % _re.escape(acc_ty))
    LEAF2 = [('ITEM', 'ENC', 'T', 'k'), ('ITEM', 'ENC', 'T', 'v')]
    for inst in sorted(prog.insts.values(), key=lambda i: i['path']):
        m_ = pat.match(inst['path'])
        if not m_ or m_.group(2) in ('next_element_seed', 'next_key_seed', 'next_value_seed'):
            continue
        tr, meth = m_.group(1), m_.group(2)
        where = mir.loc(inst['sp'])
        if meth not in ('size_hint', 'next_entry_seed'):
            ctx.violation('T-ACCESS.override', '%s::%s' % (tr, meth), 'the bridge overrides the provided method %s::%s, which has no reference step function (review it and add the row)' % (tr, meth), where)
            continue
        good = True
        for lname, lenv, rng in (('None', NONE, None), ('Some(0)', some(Int.const(0)), None), ('Some(n>=1)', some(Int.sym('rem')), ((1, (1 << 64) - 1),))):
            streams = [('leaf', [('ITEM', 'ENC', 'T', 'x')])] if meth == 'size_hint' else [('entry', LEAF2), ('break', [('ITEM', 'BREAK')]), ('eoi', []), ('key-only', LEAF2[:1])]
            for sname, stream in streams:
                key = '%s|len=%s|next=%s' % (meth, lname, sname)
                st = State()
                if rng:
                    st.ranges['rem'] = rng
                    st.symty['rem'] = 'u64'
                st.extra['stream'] = tuple(stream)
                st.extra['cur'] = 0
                mm = l2.L2Machine(prog, ov)
                de, seq = seq_value(mm, st, lenv)
                st.mem[('obj', 'seq')] = seq
                args = [Ref(('obj', 'seq'), (), meth != 'size_hint')] + ([Atom('kseed'), Atom('vseed')] if meth == 'next_entry_seed' else [])
                try:
                    outs = mm.run(inst, args, st)
                except Abort as e:
                    ctx.fail_closed('T-ACCESS.override', '%s cannot be summarised: %s' % (key, e))
                    good = False
                    continue
                for o in outs:
                    consumed = l2.cur(o.st)
                    sq = mm.read_path(o.st, ('obj', 'seq'), ())
                    ln = norm(mm, o.st, sq)[4:-1]
                    if meth == 'size_hint':
                        if consumed or ln != lname.replace('n>=1', 'rem') or any(e[0] == 'DESER' for e in o.st.events):
                            good = False
                            ctx.violation('T-ACCESS.override', key, 'size_hint() changes the access state (consumed %d, remaining -> %s)' % (consumed, ln), where)
                        continue
                    if o.kind != 'return' or o.st.asserts:
                        good = False
                        ctx.violation('T-ACCESS.override', key + '|total', 'a path of next_entry_seed does not return cleanly', where)
                        continue
                    rk = l1.result_kind(o.value)
                    v = o.value.fields[0] if o.value.fields else None
                    res = 'err' if rk == 'Err' else ('none' if isinstance(v, Adt) and norm_adt(v.adt) == OPTION and v.variant == 0 else 'some')
                    if lname == 'None':
                        want = {'entry': ('some', 2, 'None'), 'break': ('none', 1, 'None')}.get(sname, ('err', None, None))
                    elif lname == 'Some(0)':
                        want = ('none', 0, 'Some(0)')
                    else:
                        want = {'entry': ('some', 2, 'Some(rem + -1)')}.get(sname, ('err', None, None))
                    got = (res, consumed if res != 'err' else None, ln if res != 'err' else None)
                    if got != want:
                        good = False
                        ctx.violation('T-ACCESS.override', key, 'next_entry_seed with remaining length %s on %s: result %s, %s item(s) consumed, remaining -> %s; reading a key and then a value requires %s, %s, %s' % (
                            lname, sname, got[0], got[1], got[2], want[0], want[1], want[2]), where)
        if good:
            ctx.ok('T-ACCESS.override', '%s::%s' % (tr, meth))
    ctx.rules_run.append('T-ACCESS.enum: variant_seed reads the identifier and hands the same deserializer on; unit_variant consumes nothing; newtype/tuple/struct variant content goes through the seed / deserialize_tuple / deserialize_map')
    k = 0
    # variant_seed
    spec = [('EnumAccess', 'variant_seed', [Atom('seed')], [('ITEM', 'ENC', 'T', 'x')], ('DESER',), 1),
            ('VariantAccess', 'unit_variant', [], [('ITEM', 'ENC', 'T', 'x')], (), 0),
            ('VariantAccess', 'newtype_variant_seed', [Atom('seed')], [('ITEM', 'ENC', 'T', 'x')], ('DESER',), 1),
            ('VariantAccess', 'tuple_variant', [Int.const(2), Atom('visitor')], [('ITEM', 'ARRAY', Int.const(2))], ('VISIT:visit_seq:Seq(Some(2))',), 1),
            ('VariantAccess', 'tuple_variant', [Int.const(2), Atom('visitor')], [('ITEM', 'ARRAY', Int.const(3))], 'err', 1),
            ('VariantAccess', 'tuple_variant', [Int.const(2), Atom('visitor')], [('ITEM', 'BEGIN', 'array')], 'err', 1),
            ('VariantAccess', 'struct_variant', [Atom('fields'), Atom('visitor')], [('ITEM', 'MAP', Int.const(2))], ('VISIT:visit_map:Seq(Some(2))',), 1),
            ('VariantAccess', 'struct_variant', [Atom('fields'), Atom('visitor')], [('ITEM', 'BEGIN', 'map')], ('VISIT:visit_map:Seq(None)',), 1),
            ('VariantAccess', 'struct_variant', [Atom('fields'), Atom('visitor')], [('ITEM', 'ARRAY', Int.const(2))], 'err', 0)]
    # unit_variant must leave whatever follows alone: the next item belongs to the enclosing container (a null there is the
    # `None` of the next element, not the content of this variant)
    for uk, item in universe(prog.feature('half')):
        if uk != 'leaf':
            spec.append(('VariantAccess', 'unit_variant', [], [item] if item is not None else [], (), 0))
    for tr, meth, extra, stream, wantev, wantcur in spec:
        inst = prog.one(ENUM % (tr, meth))
        if inst is None:
            ctx.fail_closed('T-ACCESS.enum', 'anchor missing: %s::%s' % (tr, meth))
            continue
        where = mir.loc(inst['sp'])
        st = State()
        st.extra['stream'] = tuple(stream)
        st.extra['cur'] = 0
        m = l2.L2Machine(prog, ov)
        de = m.make_value(st, ty_from_str("&mut minicbor_serde::de::Deserializer<'_>"), 'de')
        en = Adt(ENUM_ADT, 0, [de])
        key = '%s|%s' % (meth, fmt([s[1:] for s in stream]))
        try:
            outs = m.run(inst, [en] + extra, st)
        except Abort as e:
            ctx.fail_closed('T-ACCESS.enum', '%s cannot be summarised: %s' % (key, e))
            continue
        k += 1
        good = True
        for o in outs:
            if o.kind != 'return':
                ctx.violation('T-ACCESS.enum', key + '|total', 'path does not return: %s' % o.why, where)
                good = False
                continue
            rk = l1.result_kind(o.value)
            evs = tuple(('DESER' if e[0] == 'DESER' else 'VISIT:%s:%s' % (e[1], ','.join(e[2]))) for e in o.st.events if e[0] in ('DESER', 'VISIT'))
            if wantev == 'err':
                if rk != 'Err' or evs:
                    good = False
                    ctx.violation('T-ACCESS.enum', key, 'must be rejected but returns %s after %s' % (rk, evs), where)
                continue
            if rk != 'Ok' or evs != wantev or l2.cur(o.st) != wantcur:
                good = False
                ctx.violation('T-ACCESS.enum', key, 'returns %s after %s consuming %d item(s); expected Ok after %s consuming %d' % (rk, evs, l2.cur(o.st), wantev, wantcur), where)
            if meth == 'variant_seed' and rk == 'Ok':
                v = o.value.fields[0]
                if not (isinstance(v, Tup) and isinstance(v.fields[0], Atom) and v.fields[0].name == 'val:x' and isinstance(v.fields[1], Adt) and v.fields[1].adt == ENUM_ADT):
                    good = False
                    ctx.violation('T-ACCESS.enum', key + '|value', 'variant_seed returns %r instead of (identifier, the same access)' % (v,), where)
        if good:
            ctx.ok('T-ACCESS.enum', key)
    ctx.floor('T-ACCESS.enum', 'cases', k, 30)


# ---------------------------------------------------------------------------
# P-ROUNDTRIP: protocol composition for each data-model shape

class Sim:
    """threads one abstract state through a scripted sequence of bridge calls (the calls serde's data model prescribes)"""

    def __init__(self, ctx, prog, shape, quiet=False):
        self.ctx, self.prog, self.shape = ctx, prog, shape
        self.ok = True
        self.quiet = quiet
        self.errors = []

    def fail(self, key, msg, where=None):
        self.ok = False
        self.errors.append((key, msg))
        if not self.quiet:
            self.ctx.violation('P-ROUNDTRIP', '%s|%s' % (self.shape, key), msg, where)

    # -- serialisation
    def ser_begin(self):
        self.sst = State()
        self.sm = l2.L2Machine(self.prog, ser_overrides(fail=False))
        self.ser = self.sm.make_value(self.sst, ty_from_str('&mut minicbor_serde::ser::Serializer<W>'), 'ser')
        self.leafn = 0

    def leaf(self):
        self.leafn += 1
        k = ('obj', 'leaf%d' % self.leafn)
        self.sst.mem[k] = Atom('leaf%d' % self.leafn)
        return Ref(k)

    def sstr(self, s):
        return Slice(None, 'lit:' + s, Int.const(len(s)))

    def scall(self, path, args):
        inst = self.prog.one(path)
        if inst is None:
            self.ctx.fail_closed('P-ROUNDTRIP', 'anchor missing: %s' % path)
            self.ok = False
            return None
        outs = self.sm.run(inst, args, self.sst)
        oks = [o for o in outs if o.kind == 'return' and l1.result_kind(o.value) == 'Ok']
        if len(oks) != 1 or len(outs) != 1:
            self.fail('ser:' + path.split('::')[-1], 'serialisation step has %d outcomes (%d Ok)' % (len(outs), len(oks)), mir.loc(inst['sp']))
            return None
        self.sst = oks[0].st
        v = oks[0].value.fields[0] if oks[0].value.fields else None
        return v

    def S(self, name, *args):
        return self.scall(SER + name, [self.ser] + list(args))

    def SS(self, tr, meth, comp, *args):
        if meth == 'end':
            return self.scall(SEQSER % (tr, meth), [comp])
        self.sst.mem[('obj', 'comp')] = comp
        return self.scall(SEQSER % (tr, meth), [Ref(('obj', 'comp'), (), True)] + list(args))

    def stream(self):
        return [e for e in self.sst.events if e[0] == 'ITEM']

    # -- deserialisation
    def de_begin(self, stream):
        self.dst = State()
        self.dst.ranges.update(self.sst.ranges)
        self.dst.symty.update(self.sst.symty)
        self.dst.extra['stream'] = tuple(stream)
        self.dst.extra['cur'] = 0
        self.dm = l2.L2Machine(self.prog, de_overrides())
        self.de = self.dm.make_value(self.dst, ty_from_str("&mut minicbor_serde::de::Deserializer<'_>"), 'de')

    def dcall(self, path, args, seedq=(), expect='Ok'):
        inst = self.prog.one(path)
        if inst is None:
            self.ctx.fail_closed('P-ROUNDTRIP', 'anchor missing: %s' % path)
            self.ok = False
            return None
        self.dst.extra['seedq'] = tuple(seedq)
        self.dst.extra['visited'] = ()
        n0 = len(self.dst.events)
        outs = self.dm.run(inst, args, self.dst)
        name = path.split('::')[-1]
        if len(outs) != 1 or outs[0].kind != 'return':
            self.fail('de:' + name, 'deserialisation step %s has %d outcomes on the bridge\'s own output (%s)' % (name, len(outs), [result_kind(o) for o in outs]), mir.loc(inst['sp']))
            return None
        o = outs[0]
        rk = l1.result_kind(o.value)
        if rk != expect:
            mm = [e for e in o.st.events[n0:] if e[0] == 'MISMATCH']
            self.fail('de:' + name, 'step %s returns %s at item %d of %s%s' % (name, rk, l2.cur(o.st), fmt([s[1:] for s in l2.stream(o.st)]), (' (%r)' % (mm[0][1:],)) if mm else ''), mir.loc(inst['sp']))
            return None
        self.dst = o.st
        self.new_events = o.st.events[n0:]
        return o.value.fields[0] if o.value.fields else None

    def D(self, name, *args, **kw):
        return self.dcall(DE + 'deserialize_' + name, [self.de] + list(args) + [Atom('visitor')], **kw)

    def visited(self):
        v = self.dst.extra.get('visited') or ()
        return v[-1][0] if v and v[-1] else None

    def access(self, tr, meth, seq, *args, **kw):
        self.dst.mem[('obj', 'seq')] = seq
        r = self.dcall(SEQ % (tr, meth), [Ref(('obj', 'seq'), (), True)] + list(args), **kw)
        return r, self.dm.read_path(self.dst, ('obj', 'seq'), ())

    def finish(self, want_leaves, want_visits=None):
        if not self.ok:
            return
        s = l2.stream(self.dst)
        if l2.cur(self.dst) != len(s):
            self.fail('consumption', 'the deserialiser stops after %d of %d items of the serialised form %s' % (l2.cur(self.dst), len(s), fmt([x[1:] for x in s])))
            return
        got = [e[1] for e in self.dst.events if e[0] == 'DESER']
        if got != want_leaves:
            self.fail('leaves', 'components are read back as %s, written as %s' % (got, want_leaves))
            return
        self.ctx.ok('P-ROUNDTRIP', self.shape)


def is_none(v):
    return isinstance(v, Adt) and norm_adt(v.adt) == OPTION and v.variant == 0


def is_some(v):
    return isinstance(v, Adt) and norm_adt(v.adt) == OPTION and v.variant == 1


def p_roundtrip(ctx, prog, sizes=(0, 1, 2)):
    ctx.rules_run.append('P-ROUNDTRIP: for each data-model shape the bridge methods are composed in the order serde prescribes (ser: begin/elements/end; de: deserialize_x -> visitor -> access calls): the deserialiser consumes exactly what the serialiser wrote and every component is read back in order')
    n = 0

    def new(shape):
        s = Sim(ctx, prog, shape)
        s.ser_begin()
        return s

    def ident(s):
        return ['deserialize_identifier']

    # ---- simple leaves through newtype / option
    s = new('option:none')
    s.S('serialize_none')
    s.de_begin(s.stream())
    s.D('option')
    if s.ok and [e[1] for e in s.new_events if e[0] == 'VISIT'] != ['visit_none']:
        s.fail('visit', 'None is not read back as None')
    s.finish([])
    n += 1

    s = new('option:some')
    s.S('serialize_some', s.leaf())
    s.de_begin(s.stream())
    s.D('option')
    if s.ok and [e[1] for e in s.new_events if e[0] == 'VISIT'] != ['visit_some']:
        s.fail('visit', 'Some(x) is not read back as Some')
    # the visitor of Some deserialises the content from the same deserializer
    if s.ok:
        s.dcall('serde::de::DeserializeSeed::deserialize', None) if False else None
        e = l2.peek_item(s.dst)
        if e and e[1] == 'ENC':
            s.dst.events.append(('DESER', e[3], l2.cur(s.dst)))
            l2.advance(s.dst)
    s.finish(['leaf1'])
    n += 1

    s = new('unit')
    s.S('serialize_unit')
    s.de_begin(s.stream())
    s.D('unit')
    s.finish([])
    n += 1

    s = new('unit_struct')
    s.S('serialize_unit_struct', Atom('name'))
    s.de_begin(s.stream())
    s.D('unit_struct', Atom('name'))
    s.finish([])
    n += 1

    # ---- enums
    s = new('enum:unit_variant')
    s.S('serialize_unit_variant', Atom('name'), Int.const(0), s.sstr('A'))
    s.de_begin(s.stream())
    s.D('enum', Atom('name'), Atom('variants'))
    en = s.visited()
    if s.ok:
        r = s.dcall(ENUM % ('EnumAccess', 'variant_seed'), [en, Atom('seed')], seedq=ident(s))
        vis = [e for e in s.new_events if e[0] == 'VISIT'] if s.ok else []
        if s.ok and not (vis and vis[0][1] == 'visit_borrowed_str' and vis[0][2] == ('slice(input:lit:A,1)',)):
            s.fail('identifier', 'the variant identifier read back is %s, written as text "A"' % (vis,))
        if s.ok:
            s.dcall(ENUM % ('VariantAccess', 'unit_variant'), [r.fields[1]])
    s.finish([])
    n += 1

    s = new('enum:newtype_variant')
    s.S('serialize_newtype_variant', Atom('name'), Int.const(0), s.sstr('B'), s.leaf())
    s.de_begin(s.stream())
    s.D('enum', Atom('name'), Atom('variants'))
    en = s.visited()
    if s.ok:
        r = s.dcall(ENUM % ('EnumAccess', 'variant_seed'), [en, Atom('seed')], seedq=ident(s))
        if s.ok:
            s.dcall(ENUM % ('VariantAccess', 'newtype_variant_seed'), [r.fields[1], Atom('seed')])
    s.finish(['leaf1'])
    n += 1

    for k in sizes:
        s = new('enum:tuple_variant(%d)' % k)
        comp = s.S('serialize_tuple_variant', Atom('name'), Int.const(0), s.sstr('C'), Int.const(k))
        leaves = []
        for i in range(k):
            if s.ok:
                s.SS('SerializeTupleVariant', 'serialize_field', comp, s.leaf())
                leaves.append('leaf%d' % s.leafn)
        if s.ok:
            s.SS('SerializeTupleVariant', 'end', comp)
        if s.ok:
            s.de_begin(s.stream())
            s.D('enum', Atom('name'), Atom('variants'))
            en = s.visited()
        if s.ok:
            r = s.dcall(ENUM % ('EnumAccess', 'variant_seed'), [en, Atom('seed')], seedq=ident(s))
        if s.ok:
            s.dcall(ENUM % ('VariantAccess', 'tuple_variant'), [r.fields[1], Int.const(k), Atom('visitor')])
            seq = s.visited()
            for i in range(k):
                if s.ok:
                    r2, seq = s.access('SeqAccess', 'next_element_seed', seq, Atom('seed'))
                    if s.ok and not is_some(r2):
                        s.fail('element%d' % i, 'element %d of %d is reported missing' % (i, k))
        s.finish(leaves)
        n += 1

    for indef_reader_probe in (False,):
        for k in sizes:
            s = new('enum:struct_variant(%d)' % k)
            comp = s.S('serialize_struct_variant', Atom('name'), Int.const(0), s.sstr('D'), Int.const(k))
            leaves = []
            for i in range(k):
                if s.ok:
                    s.SS('SerializeStructVariant', 'serialize_field', comp, s.sstr('f%d' % i), s.leaf())
                    leaves.append('leaf%d' % s.leafn)
            if s.ok:
                s.SS('SerializeStructVariant', 'end', comp)
            if s.ok:
                s.de_begin(s.stream())
                s.D('enum', Atom('name'), Atom('variants'))
                en = s.visited()
            if s.ok:
                r = s.dcall(ENUM % ('EnumAccess', 'variant_seed'), [en, Atom('seed')], seedq=ident(s))
            if s.ok:
                s.dcall(ENUM % ('VariantAccess', 'struct_variant'), [r.fields[1], Atom('fields'), Atom('visitor')])
                seq = s.visited()
                map_loop(s, seq, k, keys=['f%d' % i for i in range(k)])
            s.finish(leaves)
            n += 1

    # ---- sequences / tuples / maps / structs
    for indef in (False, True):
        for k in sizes:
            s = new('seq(%s%d)' % ('_' if indef else '', k))
            comp = s.S('serialize_seq', NONE if indef else some(Int.const(k)))
            leaves = []
            for i in range(k):
                if s.ok:
                    s.SS('SerializeSeq', 'serialize_element', comp, s.leaf())
                    leaves.append('leaf%d' % s.leafn)
            if s.ok:
                s.SS('SerializeSeq', 'end', comp)
            if s.ok:
                s.de_begin(s.stream())
                s.D('seq')
                seq = s.visited()
                for i in range(k + 1):
                    if s.ok:
                        r2, seq = s.access('SeqAccess', 'next_element_seed', seq, Atom('seed'))
                        if s.ok and (is_some(r2) != (i < k)):
                            s.fail('element%d' % i, 'call %d of next_element on a %d-element sequence returns %s' % (i, k, 'Some' if is_some(r2) else 'None'))
            s.finish(leaves)
            n += 1

            s = new('map(%s%d)' % ('_' if indef else '', k))
            comp = s.S('serialize_map', NONE if indef else some(Int.const(k)))
            leaves = []
            for i in range(k):
                if s.ok:
                    s.SS('SerializeMap', 'serialize_key', comp, s.leaf())
                    leaves.append('leaf%d' % s.leafn)
                if s.ok:
                    s.SS('SerializeMap', 'serialize_value', comp, s.leaf())
                    leaves.append('leaf%d' % s.leafn)
            if s.ok:
                s.SS('SerializeMap', 'end', comp)
            if s.ok:
                s.de_begin(s.stream())
                s.D('map')
                seq = s.visited()
                map_loop(s, seq, k)
            s.finish(leaves)
            n += 1

    for k in sizes:
        for form, sname, dname, tr in (('tuple', 'serialize_tuple', 'tuple', 'SerializeTuple'), ('tuple_struct', 'serialize_tuple_struct', 'tuple_struct', 'SerializeTupleStruct')):
            s = new('%s(%d)' % (form, k))
            pre = [Atom('name')] if form == 'tuple_struct' else []
            comp = s.S(sname, *(pre + [Int.const(k)]))
            leaves = []
            for i in range(k):
                if s.ok:
                    s.SS(tr, 'serialize_element' if form == 'tuple' else 'serialize_field', comp, s.leaf())
                    leaves.append('leaf%d' % s.leafn)
            if s.ok:
                s.SS(tr, 'end', comp)
            if s.ok:
                s.de_begin(s.stream())
                s.D(dname, *(pre + [Int.const(k)]))
                seq = s.visited()
                for i in range(k):
                    if s.ok:
                        r2, seq = s.access('SeqAccess', 'next_element_seed', seq, Atom('seed'))
                        if s.ok and not is_some(r2):
                            s.fail('element%d' % i, 'element %d of %d is reported missing' % (i, k))
            s.finish(leaves)
            n += 1
        # struct, read back by a reader that knows all fields, and by one that ignores the last field (unknown extra field on input)
        for ignore_last in (False, True):
            if ignore_last and k == 0:
                continue
            s = new('struct(%d)%s' % (k, '+unknown-field' if ignore_last else ''))
            comp = s.S('serialize_struct', Atom('name'), Int.const(k))
            leaves = []
            for i in range(k):
                if s.ok:
                    s.SS('SerializeStruct', 'serialize_field', comp, s.sstr('f%d' % i), s.leaf())
                    leaves.append('leaf%d' % s.leafn)
            if s.ok:
                s.SS('SerializeStruct', 'end', comp)
            if s.ok:
                s.de_begin(s.stream())
                s.D('struct', Atom('name'), Atom('fields'))
                seq = s.visited()
                map_loop(s, seq, k, keys=['f%d' % i for i in range(k)], ignore_last=ignore_last)
            s.finish(leaves[:-1] if ignore_last else leaves)
            n += 1

    s = new('newtype_struct')
    s.S('serialize_newtype_struct', Atom('name'), s.leaf())
    s.de_begin(s.stream())
    s.D('newtype_struct', Atom('name'))
    if s.ok:
        e = l2.peek_item(s.dst)
        if e and e[1] == 'ENC':
            s.dst.events.append(('DESER', e[3], l2.cur(s.dst)))
            l2.advance(s.dst)
    s.finish(['leaf1'])
    n += 1
    ctx.floor('P-ROUNDTRIP', 'shapes', n, 30)


def map_loop(s, seq, k, keys=None, ignore_last=False):
    """the visit_map loop of serde's visitors: next_key until None, next_value after each key"""
    for i in range(k + 1):
        if not s.ok:
            return
        r2, seq = s.access('MapAccess', 'next_key_seed', seq, Atom('seed'), seedq=(['deserialize_identifier'] if keys else ()))
        if not s.ok:
            return
        if is_some(r2) != (i < k):
            s.fail('key%d' % i, 'call %d of next_key on a %d-entry map returns %s' % (i, k, 'Some' if is_some(r2) else 'None'))
            return
        if i < k:
            if keys:
                vis = [e for e in s.new_events if e[0] == 'VISIT']
                want = 'slice(input:lit:%s,%d)' % (keys[i], len(keys[i]))
                if not (vis and vis[0][2] == (want,)):
                    s.fail('fieldname%d' % i, 'field name %d is read back as %s, written as text %r' % (i, vis, keys[i]))
                    return
            last = ignore_last and i == k - 1
            r3, seq = s.access('MapAccess', 'next_value_seed', seq, Atom('seed'), seedq=(['deserialize_ignored_any'] if last else ()))


def t_human_readable(ctx, prog):
    ctx.rules_run.append('T-PAIR.human_readable: Serializer and Deserializer report the same is_human_readable() (serde impls such as IpAddr choose their representation by it; serde\'s default for a missing override is true)')
    vals = {}
    for side, pre in (('Serializer', SER), ('Deserializer', DE)):
        inst = prog.one(pre + 'is_human_readable')
        if inst is None:
            vals[side] = (1, 'serde default')
            continue
        try:
            _i, outs, m = l2.run_root(prog, inst, {})
        except Abort as e:
            ctx.fail_closed('T-PAIR.human_readable', '%s::is_human_readable cannot be summarised: %s' % (side, e))
            return
        rs = set(repr(o.value) for o in outs if o.kind == 'return')
        if len(rs) != 1 or not all(isinstance(o.value, Int) and o.value.is_const() for o in outs):
            ctx.violation('T-PAIR.human_readable', side + '|nonconstant', '%s::is_human_readable is not a constant (%s)' % (side, sorted(rs)), mir.loc(inst['sp']))
            return
        vals[side] = (outs[0].value.c, mir.loc(inst['sp']))
    if vals['Serializer'][0] != vals['Deserializer'][0]:
        ctx.violation('T-PAIR.human_readable', 'mismatch', 'Serializer::is_human_readable() = %s (%s) but Deserializer::is_human_readable() = %s (%s)' % (
            bool(vals['Serializer'][0]), vals['Serializer'][1], bool(vals['Deserializer'][0]), vals['Deserializer'][1]), None)
    else:
        ctx.ok('T-PAIR.human_readable', 'both=%s' % bool(vals['Serializer'][0]))


# ---------------------------------------------------------------------------

def run(ctx):
    prog = load.program('serde-full')
    access_roles(prog)
    half = prog.feature('half', 'minicbor_serde')
    alloc = prog.feature('alloc', 'minicbor_serde') or prog.feature('std', 'minicbor_serde')
    t_ser(ctx, prog)
    t_human_readable(ctx, prog)
    t_de_raw(ctx, prog)
    t_de(ctx, prog, half=half, alloc=alloc)
    t_access(ctx, prog)
    p_roundtrip(ctx, prog, sizes=(0, 1, 2) if ctx.tier == 'quick' else (0, 1, 2, 3, 5))
    if ctx.tier == 'thorough' and not load.ALIAS:
        for cfgname, h2, a2 in (('serde-none', False, False), ('serde-half', True, False), ('serde-alloc', False, True)):
            p2 = load.program(cfgname)
            t_de(ctx, p2, half=h2, alloc=a2, label='[%s]' % cfgname)
    return ('Bridge methods interpreted with opaque Serialize/Visitor/Seed parameters; serde-derive\'s generated code (flatten, internally tagged, untagged) lies outside the repository and is not decided: '
            'the bridge-side obligations they rely on (deserialize_any dispatch, map/seq access, identifier as text) are the rows above.')
