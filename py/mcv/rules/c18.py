"""C18 - the serde bridge and the native traits agree on the shared data model (DESIGN 5.18).

Native side: the Encode/Decode impls of minicbor (L2 summaries).  Bridge side: the Serializer/Deserializer
methods that serde's own impls of the same Rust types call (serde's public data-model mapping, a fixed
table: that mapping is serde's contract, not code of this repository).
"""
import re
from ..absint import State, Int, Atom, Adt, Tup, Ref, Slice, Abort, ty_from_str
from .. import load, l1, l2, mir
from ..prims import some, NONE, OPTION, norm_adt
from . import summaries, c17
from .c17 import Sim, SER, DE, SEQSER, is_some, is_none

# native type -> (serde form, serializer method / compound kind, deserializer method)
SCALARS = [
    ('u8', 'serialize_u8', 'u8'), ('u16', 'serialize_u16', 'u16'), ('u32', 'serialize_u32', 'u32'), ('u64', 'serialize_u64', 'u64'),
    ('i8', 'serialize_i8', 'i8'), ('i16', 'serialize_i16', 'i16'), ('i32', 'serialize_i32', 'i32'), ('i64', 'serialize_i64', 'i64'),
    ('usize', 'serialize_u64', 'u64'), ('isize', 'serialize_i64', 'i64'),
    ('bool', 'serialize_bool', 'bool'), ('char', 'serialize_char', 'char'), ('f32', 'serialize_f32', 'f32'), ('f64', 'serialize_f64', 'f64'),
    ('str', 'serialize_str', None), ("&'_ str", None, 'str'), ('std::string::String', 'serialize_str', 'string'),
    ('()', 'serialize_unit', 'unit'),
]
SEQS = ['std::vec::Vec<T>', '[T]', 'std::collections::VecDeque<T>', 'std::collections::BTreeSet<T>', 'std::collections::LinkedList<T>', 'std::collections::BinaryHeap<T>']
MAPS = ['std::collections::BTreeMap<K, V>']
TUPLES = ['(A,)', '(A, B)', '(A, B, C)', '(A, B, C, D)']
ARRAY = '[T; N]'


def canon(s):
    """rename the argument of either side to ARG"""
    s = str(s)
    s = re.sub(r"len\(self\*\)|self\.len|v\.len|len\.0|\blen\b", 'LEN', s)
    s = re.sub(r"self\*|\bv\*|\bv\b", 'ARG', s)
    return s


def canon_items(items):
    out = []
    for it in items:
        out.append(tuple(canon(x.name if isinstance(x, Atom) else x if isinstance(x, str) else repr(x)) for x in it))
    return out


def native(prog, table, ty, what):
    i = table.get(ty)
    if i is None:
        return None
    return i['trait_ref'] + '::' + what


def ok_outs(r):
    return [o for o in r[1] if o.kind == 'return' and l1.result_kind(o.value) == 'Ok']


def i_enc(ctx, prog, enc):
    ctx.rules_run.append('I-ENC: for every shared type the native Encode impl and the Serializer method(s) serde\'s impl of that type calls write the same item sequence from the same, unmodified, argument')
    sov = c17.ser_overrides(fail=False)
    n = 0
    for ty, sm, _dm in SCALARS:
        if sm is None:
            continue
        np_ = native(prog, enc, ty, 'encode')
        if np_ is None:
            ctx.fail_closed('I-ENC', 'native Encode impl of %s not found' % ty)
            continue
        a = summaries.summary(prog, np_, 'enc')
        try:
            b = l2.run_root(prog, SER + sm, sov)
        except Abort as e:
            b = ('abort', str(e))
        if a is None or b is None or a[0] == 'abort' or b[0] == 'abort':
            ctx.fail_closed('I-ENC', '%s: cannot be summarised' % ty)
            continue
        na = sorted(canon_items(l2.items_of(o.st.events)) for o in ok_outs(a))
        nb = sorted(canon_items(l2.items_of(o.st.events)) for o in ok_outs(b))
        # usize/isize are cast to the 64-bit type on both sides (serde: `*self as u64`)
        if ty in ('usize', 'isize'):
            na = [[tuple(x for x in it) for it in row] for row in na]
        n += 1
        if na == nb and na:
            ctx.ok('I-ENC', ty)
        else:
            ctx.violation('I-ENC', ty, 'native %s writes %s, the bridge (%s) writes %s' % (ty, [c17.fmt(r) for r in na], sm, [c17.fmt(r) for r in nb]), mir.loc(b[0]['sp']))
    # Option
    a = summaries.summary(prog, native(prog, enc, 'std::option::Option<T>', 'encode'), 'enc')
    rows = {}
    for o in ok_outs(a):
        rows[summaries.choices(o.st).get('self*')] = [it[0] for it in l2.items_of(o.st.events)]
    for variant, sm in (('None', 'serialize_none'), ('Some', 'serialize_some')):
        b = l2.run_root(prog, SER + sm, sov)
        kb = [[it[0] for it in l2.items_of(o.st.events)] for o in ok_outs(b)]
        n += 1
        if kb == [rows.get(variant)]:
            ctx.ok('I-ENC', 'Option::' + variant)
        else:
            ctx.violation('I-ENC', 'Option::' + variant, 'native Option::%s writes %s, the bridge (%s) writes %s' % (variant, rows.get(variant), sm, kb), mir.loc(b[0]['sp']))
    # sequences, maps: header + one leaf per element (two per entry) + no trailer
    for kinds, open_m, tr, elem_ms, hdr in ((SEQS, 'serialize_seq', 'SerializeSeq', ['serialize_element'], 'ARRAY'), (MAPS, 'serialize_map', 'SerializeMap', ['serialize_key', 'serialize_value'], 'MAP')):
        s = Sim(ctx, prog, 'interop', quiet=True)
        s.ser_begin()
        s.sst.ranges['count'] = ((0, (1 << 64) - 1),)
        s.sst.symty['count'] = 'usize'
        comp = s.S(open_m, some(Int.sym('count')))
        hb = canon_items(l2.items_of(s.sst.events)) if s.ok else None
        n0 = len(s.sst.events)
        if s.ok:
            for em in elem_ms:
                s.SS(tr, em, comp, s.leaf())
        eb = [it[0] for it in l2.items_of(s.sst.events[n0:])] if s.ok else None
        n1 = len(s.sst.events)
        if s.ok:
            s.SS(tr, 'end', comp)
        tb = l2.items_of(s.sst.events[n1:]) if s.ok else None
        if not s.ok:
            ctx.fail_closed('I-ENC', '%s: bridge side cannot be composed: %s' % (open_m, s.errors))
            continue
        for ty in kinds:
            np_ = native(prog, enc, ty, 'encode')
            if np_ is None:
                ctx.fail_closed('I-ENC', 'native Encode impl of %s not found' % ty)
                continue
            a = summaries.summary(prog, np_, 'enc')
            if a is None or a[0] == 'abort':
                ctx.fail_closed('I-ENC', '%s: cannot be summarised' % ty)
                continue
            n += 1
            good = True
            for o in ok_outs(a):
                ev = [e for e in o.st.events if e[0] in ('ITEM', 'REP_BEGIN', 'REP_END')]
                shape = [e[0] if e[0] != 'ITEM' else e[1] for e in ev]
                want = [hdr, 'REP_BEGIN'] + ['ENC'] * len(elem_ms) + ['REP_END']
                cnt = canon(ev[0][2]) if ev and ev[0][0] == 'ITEM' and len(ev[0]) > 2 else '?'
                if shape != want or cnt != 'LEN':
                    good = False
                    ctx.violation('I-ENC', ty, 'native %s writes %s (count %s); serde\'s impl goes through %s(Some(len)) which writes %s(len), one item per %s and no terminator' % (
                        ty, shape, cnt, open_m, hdr, 'element' if hdr == 'ARRAY' else 'key and value'), mir.loc(a[0]['sp']))
            if hb != [(hdr, 'count')] or eb != ['ENC'] * len(elem_ms) or tb:
                good = False
                ctx.violation('I-ENC', ty + '|bridge', 'the bridge writes header %s, per element %s, at end %s' % (hb, eb, tb), None)
            if good:
                ctx.ok('I-ENC', ty)
    # tuples and arrays: definite array of exactly the arity
    for ty in TUPLES + [ARRAY]:
        np_ = native(prog, enc, ty, 'encode')
        if np_ is None:
            ctx.fail_closed('I-ENC', 'native Encode impl of %s not found' % ty)
            continue
        a = summaries.summary(prog, np_, 'enc')
        if a is None or a[0] == 'abort':
            ctx.fail_closed('I-ENC', '%s: cannot be summarised' % ty)
            continue
        arity = ty.count(',') + (0 if ty.endswith(',)') else 1) if ty != ARRAY else None
        s = Sim(ctx, prog, 'interop', quiet=True)
        s.ser_begin()
        s.sst.ranges['arity'] = ((0, (1 << 64) - 1),)
        s.sst.symty['arity'] = 'usize'
        comp = s.S('serialize_tuple', Int.sym('arity') if arity is None else Int.const(arity))
        hb = canon_items(l2.items_of(s.sst.events)) if s.ok else None
        n0 = len(s.sst.events)
        if s.ok:
            s.SS('SerializeTuple', 'serialize_element', comp, s.leaf())
            eb = [it[0] for it in l2.items_of(s.sst.events[n0:])]
            n1 = len(s.sst.events)
            s.SS('SerializeTuple', 'end', comp)
            tb = l2.items_of(s.sst.events[n1:])
        if not s.ok:
            ctx.fail_closed('I-ENC', 'serialize_tuple: bridge side cannot be composed: %s' % (s.errors,))
            continue
        n += 1
        good = True
        for o in ok_outs(a):
            ev = [e for e in o.st.events if e[0] in ('ITEM', 'REP_BEGIN', 'REP_END')]
            shape = [e[0] if e[0] != 'ITEM' else e[1] for e in ev]
            if ty == ARRAY:
                want = ['ARRAY', 'REP_BEGIN', 'ENC', 'REP_END']
                cnt_ok = repr(ev[0][2]) == 'const:N' if ev else False
            else:
                want = ['ARRAY'] + ['ENC'] * arity
                cnt_ok = isinstance(ev[0][2], Int) and ev[0][2].is_const() and ev[0][2].c == arity if ev else False
            if shape != want or not cnt_ok:
                good = False
                ctx.violation('I-ENC', ty, 'native %s writes %s; serde\'s impl goes through serialize_tuple(arity): a definite array of exactly the arity' % (ty, c17.fmt(l2.items_of(ev))), mir.loc(a[0]['sp']))
        want_h = [('ARRAY', 'arity' if arity is None else str(arity))]
        if hb != want_h or eb != ['ENC'] or tb:
            good = False
            ctx.violation('I-ENC', ty + '|bridge', 'serialize_tuple writes header %s, per element %s, at end %s' % (hb, eb, tb), None)
        if good:
            ctx.ok('I-ENC', ty)
    ctx.floor('I-ENC', 'shared types', n, 30)


def src(v):
    """which stream value a decoded value is, and whether it went through anything but a widening/ownership conversion"""
    r = v.name if isinstance(v, Atom) else repr(v)
    r = re.sub(r"String::from\((.*)\)$", r'\1', r)
    r = re.sub(r"slice\('(input:\w+)', len=(\w+)\)", r'slice(\1,\2)', r)
    return r


def i_dec_scalar(ctx, prog, dec):
    ctx.rules_run.append('I-DEC: for every shared scalar type and every item kind, native Decode and the bridge method serde\'s impl uses never return different values: same value and same consumption, or an error on at least one side; the type\'s own encoding is accepted by both')
    ov_b = c17.de_overrides()
    ov_n = l2.decoder_overrides()
    n = 0
    canon_item = {'u8': 'int:u8', 'u16': 'int:u16', 'u32': 'int:u32', 'u64': 'int:u64', 'i8': 'int:i8', 'i16': 'int:i16', 'i32': 'int:i32', 'i64': 'int:i64',
                  'usize': 'int:u64', 'isize': 'int:i64', 'bool': 'bool', 'char': 'char', 'f32': 'f32', 'f64': 'f64', "&'_ str": 'str', 'std::string::String': 'str', '()': 'array0'}
    for ty, _sm, dm in SCALARS:
        if dm is None:
            continue
        np_ = native(prog, dec, ty, 'decode')
        if np_ is None:
            ctx.fail_closed('I-DEC', 'native Decode impl of %s not found' % ty)
            continue
        where = mir.loc(prog.one(DE + 'deserialize_' + dm)['sp'])
        for uk, item in c17.universe(True):
            if uk in ('leaf',):
                continue
            stream = [item] if item is not None else []
            sides = {}
            try:
                for side, path, ov in (('native', np_, ov_n), ('bridge', DE + 'deserialize_' + dm, ov_b)):
                    st = State()
                    if item is not None and item[1] == 'INT':
                        lo, hi = c17.INT_RANGE[item[2]]
                        st.ranges['n'] = ((lo, hi),)
                        st.symty['n'] = 'i128'
                    if uk in ('arrayN', 'mapN'):
                        st.ranges['cnt'] = ((0, (1 << 64) - 1),)
                        st.symty['cnt'] = 'u64'
                    r = c17.run_de(prog, path, stream, ov, st=st)
                    outs = set()
                    for o in r[1]:
                        if o.kind != 'return':
                            outs.add(('diverge', o.why))
                        elif l1.result_kind(o.value) != 'Ok':
                            outs.add(('err',))
                        elif side == 'native':
                            outs.add(('val', src(o.value.fields[0]), l2.cur(o.st)))
                        else:
                            vis = [e for e in o.st.events if e[0] == 'VISIT']
                            outs.add(('val', ','.join(vis[0][2]) if vis and vis[0][2] else '()', l2.cur(o.st)))
                    sides[side] = outs
            except Abort as e:
                ctx.fail_closed('I-DEC', '%s over %s cannot be summarised: %s' % (ty, uk, e))
                continue
            n += 1
            key = '%s|%s' % (ty, uk)
            nv = set(x for x in sides['native'] if x[0] == 'val')
            bv = set(x for x in sides['bridge'] if x[0] == 'val')
            dv = [x for x in sides['native'] | sides['bridge'] if x[0] == 'diverge']
            if dv:
                ctx.violation('I-DEC', key + '|total', 'a path does not return: %s' % (dv[0][1],), where)
            elif nv and bv and nv != bv:
                ctx.violation('I-DEC', key, 'on the same item native decoding of %s yields %s but the bridge (deserialize_%s) yields %s' % (ty, sorted(nv), dm, sorted(bv)), where)
            elif uk == canon_item.get(ty) and (('err',) in sides['native'] or ('err',) in sides['bridge'] or not nv or not bv):
                ctx.violation('I-DEC', key + '|own-encoding', 'the type\'s own encoding is not accepted by both sides (native %s, bridge %s)' % (sorted(sides['native']), sorted(sides['bridge'])), where)
            elif bool(nv) != bool(bv) and uk not in ():
                # value on one side, error on the other: allowed by the property, recorded
                ctx.ok('I-DEC.value-vs-error', key, nontrivial=False)
            else:
                ctx.ok('I-DEC', key)
    ctx.floor('I-DEC', 'type x item', n, 350)


def bridge_decode(ctx, prog, form, arity, stream):
    """compose the bridge calls serde's visitor of `form` makes over `stream`; returns ('ok'|'err', leaves, consumed)"""
    s = Sim(ctx, prog, 'interop', quiet=True)
    s.sst = State()
    s.de_begin(stream)
    if form == 'seq':
        s.D('seq')
        seq = s.visited() if s.ok else None
        for _ in range(len(stream) + 2):
            if not s.ok:
                break
            r, seq = s.access('SeqAccess', 'next_element_seed', seq, Atom('seed'))
            if s.ok and is_none(r):
                break
    elif form == 'tuple':
        s.D('tuple', Int.const(arity))
        seq = s.visited() if s.ok else None
        for _ in range(arity):
            if not s.ok:
                break
            r, seq = s.access('SeqAccess', 'next_element_seed', seq, Atom('seed'))
            if s.ok and is_none(r):
                s.fail('short', 'missing element')   # serde's tuple visitors report invalid_length
    elif form == 'map':
        s.D('map')
        seq = s.visited() if s.ok else None
        for _ in range(len(stream) + 2):
            if not s.ok:
                break
            r, seq = s.access('MapAccess', 'next_key_seed', seq, Atom('seed'))
            if s.ok and is_none(r):
                break
            if s.ok:
                r, seq = s.access('MapAccess', 'next_value_seed', seq, Atom('seed'))
    leaves = [e[1] for e in s.dst.events if e[0] == 'DESER']
    return ('ok' if s.ok else 'err'), leaves, l2.cur(s.dst)


def native_decode(prog, path, stream):
    r = l2.run_decode(prog, path, stream)
    outs = set()
    for o in r[1]:
        if o.kind != 'return':
            outs.add(('diverge', o.why, 0))
        elif l1.result_kind(o.value) != 'Ok':
            outs.add(('err', (), 0))
        else:
            outs.add(('ok', tuple(e[3] for e in o.st.events if e[0] == 'DECODED'), l2.cur(o.st)))
    return outs


def leafs(n, k0=0):
    return [('ITEM', 'ENC', 'T', 'e%d' % (k0 + i)) for i in range(n)]


def i_dec_container(ctx, prog, dec):
    ctx.rules_run.append('I-DEC.container: native Decode of sequences, maps, tuples and arrays vs the bridge calls serde\'s visitors make, over the own encoding, its indefinite-length re-framing and a wrong declared length: both accept the own encoding reading the same elements in order and consuming all of it; on the alternatives they agree or one side errors')
    n = 0
    cases = []
    for ty in ['std::vec::Vec<T>', 'std::collections::VecDeque<T>', 'std::collections::BTreeSet<T>', 'std::collections::LinkedList<T>', 'std::collections::BinaryHeap<T>']:
        for k in (0, 2):
            cases.append((ty, 'seq', None, 'own(%d)' % k, [('ITEM', 'ARRAY', Int.const(k))] + leafs(k), True))
            cases.append((ty, 'seq', None, 'indefinite(%d)' % k, [('ITEM', 'BEGIN', 'array')] + leafs(k) + [('ITEM', 'BREAK')], False))
        cases.append((ty, 'seq', None, 'map-header', [('ITEM', 'MAP', Int.const(1))] + leafs(2), False))
    for ty in MAPS:
        for k in (0, 2):
            cases.append((ty, 'map', None, 'own(%d)' % k, [('ITEM', 'MAP', Int.const(k))] + leafs(2 * k), True))
            cases.append((ty, 'map', None, 'indefinite(%d)' % k, [('ITEM', 'BEGIN', 'map')] + leafs(2 * k) + [('ITEM', 'BREAK')], False))
        cases.append((ty, 'map', None, 'array-header', [('ITEM', 'ARRAY', Int.const(2))] + leafs(2), False))
    for ty in TUPLES:
        ar = ty.count(',') + (0 if ty.endswith(',)') else 1)
        cases.append((ty, 'tuple', ar, 'own', [('ITEM', 'ARRAY', Int.const(ar))] + leafs(ar), True))
        cases.append((ty, 'tuple', ar, 'longer', [('ITEM', 'ARRAY', Int.const(ar + 1))] + leafs(ar + 1), False))
        cases.append((ty, 'tuple', ar, 'shorter', [('ITEM', 'ARRAY', Int.const(ar - 1))] + leafs(ar - 1), False))
        cases.append((ty, 'tuple', ar, 'indefinite', [('ITEM', 'BEGIN', 'array')] + leafs(ar) + [('ITEM', 'BREAK')], False))
    for ty, form, ar, cname, stream, own in cases:
        np_ = native(prog, dec, ty, 'decode')
        if np_ is None:
            ctx.fail_closed('I-DEC.container', 'native Decode impl of %s not found' % ty)
            continue
        key = '%s|%s' % (ty, cname)
        try:
            nat = native_decode(prog, np_, stream)
            br = bridge_decode(ctx, prog, form, ar, stream)
        except Abort as e:
            ctx.fail_closed('I-DEC.container', '%s cannot be summarised: %s' % (key, e))
            continue
        n += 1
        where = mir.loc(prog.one(np_)['sp']) if prog.one(np_) else None
        nok = [x for x in nat if x[0] == 'ok']
        ndv = [x for x in nat if x[0] == 'diverge']
        if ndv:
            ctx.violation('I-DEC.container', key + '|total', 'native path does not return: %s' % ndv[0][1], where)
            continue
        want_leaves = tuple(e[3] for e in stream if e[1] == 'ENC')
        if own:
            if len(nat) != 1 or not nok or br[0] != 'ok':
                ctx.violation('I-DEC.container', key, 'the own encoding %s is not accepted by both sides: native %s, bridge %s' % (c17.fmt([s[1:] for s in stream]), sorted(x[0] for x in nat), br[0]), where)
                continue
        part = [('native', x[2]) for x in nok if x[2] != len(stream)] + ([('the bridge', br[2])] if br[0] == 'ok' and br[2] != len(stream) else [])
        if part:
            ctx.violation('I-DEC.container', key + '|partial', 'on the single item %s %s returns a value after consuming only %d of its %d parts: in a nested position the two sides then continue from different places' % (
                c17.fmt([s[1:] for s in stream]), part[0][0], part[0][1], len(stream)), where)
            continue
        if nok and br[0] == 'ok':
            a = nok[0]
            if tuple(a[1]) != tuple(br[1]) or a[2] != br[2]:
                ctx.violation('I-DEC.container', key, 'on %s native decoding reads elements %s and consumes %d items, the bridge reads %s and consumes %d' % (
                    c17.fmt([s[1:] for s in stream]), list(a[1]), a[2], br[1], br[2]), where)
                continue
            if own and (tuple(a[1]) != want_leaves or a[2] != len(stream)):
                ctx.violation('I-DEC.container', key + '|own', 'own encoding read back as %s consuming %d of %d items' % (list(a[1]), a[2], len(stream)), where)
                continue
            ctx.ok('I-DEC.container', key)
        else:
            ctx.ok('I-DEC.container.value-vs-error', '%s|native=%s|bridge=%s' % (key, sorted(set(x[0] for x in nat)), br[0]), nontrivial=False)
    ctx.floor('I-DEC.container', 'cases', n, 40)


def run(ctx):
    prog = load.program('core-full', 'serde-full')
    c17.access_roles(prog)
    enc = dict((i['self_ty'], i) for i in prog.impls if i['trait'] == 'minicbor::encode::Encode' and i['krate'] == 'minicbor')
    dec = dict((i['self_ty'], i) for i in prog.impls if i['trait'] == 'minicbor::decode::Decode' and i['krate'] == 'minicbor')
    i_enc(ctx, prog, enc)
    i_dec_scalar(ctx, prog, dec)
    i_dec_container(ctx, prog, dec)
    return ('Native impls and bridge methods are compared on abstract item streams; which bridge method serde\'s impl of a type calls is serde\'s documented data-model mapping (trusted table). '
            'Alternative head widths are inside the shared Decoder accessors (C04/C05): both sides call the same accessor, which I-DEC shows by equal values per item kind.')
