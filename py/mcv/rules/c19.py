"""C19 - diagnostic display: totality (panic census), progress (one-pop step table), notation (DESIGN 5.19).

NOTATION   the whole `Tokenizer as Display` function is interpreted over scripted token streams (every small well-formed
           tree shape, symbolic leaf tokens) and its output is compared with a reference renderer written from the
           documentation of `minicbor::display`; per-variant rendering of `Token as Display` from the format templates.
PROGRESS   one pop of the control stack from an arbitrary element and an arbitrary next token: a step that asks for a token
           gets one or ends the rendering; a step that pushes work pushes a request for a token; output per step is a
           constant plus one token.  Hence steps <= 6*(tokens+1) and |output| <= c*|input|.
F-PANIC    census of potential panic sites in everything reachable from the display entry points.
"""
import itertools
from ..absint import Machine, State, Int, Atom, Adt, Tup, Arr, Ref, Slice, Str, Fork, Abort, UNIT, ty_from_str
from .. import load, l1, mir, prims, facts
from ..prims import ok, err, some, NONE, OPTION, RESULT, norm_adt
from . import io_rules as io

TFMT = "<minicbor::decode::tokenizer::Tokenizer<'_, '_> as std::fmt::Display>::fmt"
KFMT = "<minicbor::data::token::Token<'_> as std::fmt::Display>::fmt"
TOKEN = 'minicbor::data::token::Token'
E_ADT = TFMT + '::E'
FMTARG = 'mcv::FmtArg'
FMTARGS = 'mcv::FmtArgs'


# ---------------------------------------------------------------------------
# format templates (core::fmt::Arguments, placeholder representation)

def decode_template(b):
    """-> list of ('lit', str) | ('arg', index or None, flags, width, precision)"""
    out = []
    i = 0
    nxt = 0
    while True:
        if i >= len(b):
            raise Abort('format template not terminated')
        c = b[i]
        i += 1
        if c == 0:
            return out
        if c < 0x80:
            out.append(('lit', bytes(b[i:i + c]).decode('utf-8')))
            i += c
        elif c == 0x80:
            n = b[i] | (b[i + 1] << 8)
            i += 2
            out.append(('lit', bytes(b[i:i + n]).decode('utf-8')))
            i += n
        elif c & 0xc0 == 0xc0:
            flags = width = prec = idx = None
            if c & 1:
                flags = int.from_bytes(bytes(b[i:i + 4]), 'little')
                i += 4
            if c & 2:
                width = int.from_bytes(bytes(b[i:i + 2]), 'little')
                i += 2
            if c & 4:
                prec = int.from_bytes(bytes(b[i:i + 2]), 'little')
                i += 2
            if c & 8:
                idx = int.from_bytes(bytes(b[i:i + 2]), 'little')
                i += 2
            if c & 0x30:
                raise Abort('indirect width/precision in a format template')
            if idx is None:
                idx = nxt
            nxt = idx + 1
            out.append(('arg', idx, flags, width, prec))
        else:
            raise Abort('unknown format template byte %#x' % c)


ZERO_PAD = 1 << 24   # FormattingOptions flag bit for `0` (sign-aware zero pad), checked against a positive control below


def spec(kind, flags, width, prec):
    """the format spec string of one placeholder, e.g. '{}', '{:e}', '{:02x}'"""
    t = {'display': '', 'lower_exp': 'e', 'upper_exp': 'E', 'lower_hex': 'x', 'upper_hex': 'X', 'debug': '?', 'octal': 'o', 'binary': 'b', 'pointer': 'p'}.get(kind)
    if t is None:
        raise Abort('format trait %s' % kind)
    s = ''
    if flags is not None:
        fill = flags & 0x1fffff
        align = (flags >> 29) & 3
        if fill != 0x20 or align != 3 or flags & ((1 << 22) | (1 << 25) | (1 << 26)):
            raise Abort('format flags %#x not understood' % flags)
        if flags & (1 << 21):
            s += '+'
        if flags & (1 << 23):
            s += '#'
        if flags & ZERO_PAD:
            s += '0'
        if bool(flags & (1 << 27)) != (width is not None) or bool(flags & (1 << 28)) != (prec is not None):
            raise Abort('format flags %#x inconsistent with width/precision fields' % flags)
    if width is not None:
        s += str(width)
    if prec is not None:
        s += '.%d' % prec
    s += t
    return '{%s}' % ((':' + s) if s else '')


# ---------------------------------------------------------------------------
# primitives of the display machine

def describe(m, st, v):
    v0 = v
    for _ in range(4):
        if isinstance(v, Ref):
            v = m.read_path(st, v.key, v.path)
    if isinstance(v, Adt) and v.adt == TOKEN:
        ad = m.prog.adts[TOKEN]
        return 'tok:%s' % ad['variants'][v.variant]['name'] + (('(%s)' % ','.join(describe(m, st, x) for x in v.fields)) if v.fields else '')
    if isinstance(v, Atom):
        return v.name
    if isinstance(v, Str):
        return v.b.decode('utf-8', 'replace')
    return repr(v)


def out(st, piece):
    st.events.append(('OUT', piece))


def lit_of(m, st, v):
    for _ in range(3):
        if isinstance(v, Ref):
            v = m.read_path(st, v.key, v.path)
    if isinstance(v, Str):
        return v.b.decode('utf-8')
    if isinstance(v, Atom):
        return '<%s>' % v.name
    if isinstance(v, Slice):
        return '<%s>' % v.data
    raise Abort('write_str of %r' % (v,))


def display_prims(token_fmt_opaque=True):
    o = {}

    def write_str(m, cfg, f, args, t):
        out(cfg.st, ('lit', lit_of(m, cfg.st, args[1])))
        return ok(UNIT)

    def arg_new(kind):
        def h(m, cfg, f, args, t):
            return Adt(FMTARG, 0, [Str(kind.encode()), args[0]])
        return h

    def arguments_from_str(m, cfg, f, args, t):
        return Adt(FMTARGS, 0, [Str(b'str'), args[0]])

    def arguments_new(m, cfg, f, args, t):
        return Adt(FMTARGS, 0, [Str(b'tpl'), args[0], args[1]])

    def write_fmt(m, cfg, f, args, t):
        st = cfg.st
        a = args[1]
        if not (isinstance(a, Adt) and a.adt == FMTARGS):
            raise Abort('write_fmt of %r' % (a,))
        if a.fields[0].b == b'str':
            out(st, ('lit', lit_of(m, st, a.fields[1])))
            return ok(UNIT)
        tv = a.fields[1]
        tv = m.read_path(st, tv.key, tv.path) if isinstance(tv, Ref) else tv
        av = a.fields[2]
        av = m.read_path(st, av.key, av.path) if isinstance(av, Ref) else av
        if not isinstance(tv, Arr) or not isinstance(av, Arr):
            raise Abort('format template / arguments not constant arrays')
        tpl = decode_template([x.c for x in tv.elems])
        for p in tpl:
            if p[0] == 'lit':
                out(st, ('lit', p[1]))
            else:
                fa = av.elems[p[1]]
                if not (isinstance(fa, Adt) and fa.adt == FMTARG):
                    raise Abort('format argument %r' % (fa,))
                rawv = fa.fields[1]
                for _ in range(4):
                    if isinstance(rawv, Ref):
                        rawv = m.read_path(st, rawv.key, rawv.path)
                out(st, ('arg', spec(fa.fields[0].b.decode(), p[2], p[3], p[4]), describe(m, st, fa.fields[1]), rawv))
        return ok(UNIT)

    def token_fmt(m, cfg, f, args, t):
        out(cfg.st, ('token', describe(m, cfg.st, args[0])))
        return ok(UNIT)
    o['std::fmt::Formatter::<\'_>::write_str'] = write_str
    o['std::fmt::Formatter::<\'_>::write_fmt'] = write_fmt
    o['std::fmt::Arguments::<\'_>::from_str'] = arguments_from_str
    o['std::fmt::Arguments::<\'_>::new'] = arguments_new
    for k in ('display', 'lower_exp', 'upper_exp', 'lower_hex', 'upper_hex', 'debug', 'octal', 'binary'):
        o["core::fmt::rt::Argument::<'_>::new_" + k] = arg_new(k)
    if token_fmt_opaque:
        o[KFMT] = token_fmt
    return o


def stream_prims():
    """Peekable<Tokenizer> over a scripted token list; Vec<E> as a concrete stack"""
    o = {}

    def cur_tok(m, st):
        toks = st.extra.get('toks') or ()
        i = st.extra.get('ti', 0)
        if i >= len(toks):
            return None
        key = ('tokv', i)
        if key not in st.mem:
            st.mem[key] = toks[i]
        return key

    def peek(m, cfg, f, args, t):
        k = cur_tok(m, cfg.st)
        cfg.st.extra['peeks'] = cfg.st.extra.get('peeks', 0) + 1
        if k is None:
            return NONE
        return some(Ref(k, ()))

    def nxt(m, cfg, f, args, t):
        st = cfg.st
        k = cur_tok(m, st)
        if k is None:
            st.events.append(('NEXT', None))
            return NONE
        st.extra['ti'] = st.extra.get('ti', 0) + 1
        st.events.append(('NEXT', st.extra['ti'] - 1))
        return some(st.mem[k])

    def vec_new(m, cfg, f, args, t):
        cfg.st.extra['stack'] = ()
        return Atom('stack')

    def push(m, cfg, f, args, t):
        st = cfg.st
        st.extra['stack'] = (st.extra.get('stack') or ()) + (args[1],)
        st.extra['maxdepth'] = max(st.extra.get('maxdepth', 0), len(st.extra['stack']))
        st.events.append(('PUSH', args[1]))
        return UNIT

    def pop(m, cfg, f, args, t):
        st = cfg.st
        s = st.extra.get('stack') or ()
        st.extra['pops'] = st.extra.get('pops', 0) + 1
        if not s:
            return NONE
        st.extra['stack'] = s[:-1]
        return some(s[-1])
    o['std::iter::Peekable::<I>::peek'] = peek
    o['<std::iter::Peekable<I> as std::iter::Iterator>::next'] = nxt
    o['std::iter::Iterator::peekable'] = lambda m, cfg, f, args, t: Atom('iter')
    o["<minicbor::decode::tokenizer::Tokenizer<'_, '_> as std::clone::Clone>::clone"] = lambda m, cfg, f, args, t: Atom('tokenizer')
    o['std::vec::Vec::<T>::new'] = vec_new
    o['std::vec::Vec::<T, A>::push'] = push
    o['std::vec::Vec::<T, A>::pop'] = pop
    return o


def tok(prog, name, *fields):
    ad = prog.adts[TOKEN]
    for i, v in enumerate(ad['variants']):
        if v['name'] == name:
            return Adt(TOKEN, i, list(fields))
    raise Abort('Token::%s missing' % name)


def okr(v):
    return Adt(RESULT, 0, [v])


def errr(v):
    return Adt(RESULT, 1, [v])


# ---------------------------------------------------------------------------
# reference renderer (from the documentation of minicbor::display) over trees

def leaf(i):
    return ('leaf', i)


def flatten(prog, tree, toks, counter):
    """append the token sequence of `tree` to toks and return its documented rendering (list of pieces)"""
    k = tree[0]
    if k == 'leaf':
        counter[0] += 1
        nm = 'leaf%d' % counter[0]
        toks.append(okr(tok(prog, 'U8', Int.sym(nm))))
        return [('token', 'tok:U8(%s)' % nm)]
    if k == 'array':
        toks.append(okr(tok(prog, 'Array', Int.const(len(tree[1])))))
        r = [('lit', '[')]
        for i, c in enumerate(tree[1]):
            if i:
                r.append(('lit', ', '))
            r += flatten(prog, c, toks, counter)
        return r + [('lit', ']')]
    if k == 'map':
        toks.append(okr(tok(prog, 'Map', Int.const(len(tree[1])))))
        r = [('lit', '{')]
        for i, (a, b) in enumerate(tree[1]):
            if i:
                r.append(('lit', ', '))
            r += flatten(prog, a, toks, counter) + [('lit', ': ')] + flatten(prog, b, toks, counter)
        return r + [('lit', '}')]
    if k == 'iarray':
        toks.append(okr(tok(prog, 'BeginArray')))
        r = [('lit', '[_ ')]
        for i, c in enumerate(tree[1]):
            if i:
                r.append(('lit', ', '))
            r += flatten(prog, c, toks, counter)
        toks.append(okr(tok(prog, 'Break')))
        return r + [('lit', ']')]
    if k == 'imap':
        toks.append(okr(tok(prog, 'BeginMap')))
        r = [('lit', '{_ ')]
        for i, (a, b) in enumerate(tree[1]):
            if i:
                r.append(('lit', ', '))
            r += flatten(prog, a, toks, counter) + [('lit', ': ')] + flatten(prog, b, toks, counter)
        toks.append(okr(tok(prog, 'Break')))
        return r + [('lit', '}')]
    if k in ('ibytes', 'istr'):
        toks.append(okr(tok(prog, 'BeginBytes' if k == 'ibytes' else 'BeginString')))
        n = tree[1]
        if n == 0:
            toks.append(okr(tok(prog, 'Break')))
            return [('lit', "''_" if k == 'ibytes' else '""_')]
        r = [('lit', '(_ ')]
        for i in range(n):
            if i:
                r.append(('lit', ', '))
            counter[0] += 1
            nm = 'chunk%d' % counter[0]
            toks.append(okr(tok(prog, 'Bytes' if k == 'ibytes' else 'String', Slice(None, nm, Int.sym(nm + '.len')))))
            r.append(('token', 'tok:%s(%s)' % ('Bytes' if k == 'ibytes' else 'String', "slice('%s', len=%s.len)" % (nm, nm))))
        toks.append(okr(tok(prog, 'Break')))
        return r + [('lit', ')')]
    if k == 'tag':
        counter[0] += 1
        nm = 'tag%d' % counter[0]
        toks.append(okr(tok(prog, 'Tag', Adt('minicbor::data::Tag', 0, [Int.sym(nm)]))))
        return [('arg', '{}', nm), ('lit', '(')] + flatten(prog, tree[1], toks, counter) + [('lit', ')')]
    raise KeyError(k)


def join(pieces):
    s = ''
    for p in pieces:
        if p[0] == 'lit':
            s += p[1]
        elif p[0] == 'token':
            s += '«%s»' % p[1]
        else:
            s += '«%s:%s»' % (p[1], p[2])
    return s


def trees(depth, sizes):
    """all tree shapes up to `depth` with container sizes from `sizes`"""
    if depth == 0:
        return [leaf(0)]
    sub = trees(depth - 1, sizes[:2])
    # children: a few representative subtrees (all of them for size 1, pairs from a small set otherwise)
    small = [leaf(0)] + [s for s in sub if s[0] != 'leaf'][:0]
    out_ = [leaf(0)]
    kids = sub if depth == 1 else sub
    rep = kids if len(kids) <= 12 else kids[:12]
    for n in sizes:
        combos = [tuple([leaf(0)] * n)]
        if n >= 1:
            combos += [tuple([c] + [leaf(0)] * (n - 1)) for c in rep if c[0] != 'leaf']
            combos += [tuple([leaf(0)] * (n - 1) + [c]) for c in rep if c[0] != 'leaf' and n > 1]
        for cs in combos:
            out_.append(('array', list(cs)))
            out_.append(('iarray', list(cs)))
        mc = [tuple([(leaf(0), leaf(0))] * n)]
        if n >= 1:
            mc += [tuple([(leaf(0), c)] + [(leaf(0), leaf(0))] * (n - 1)) for c in rep if c[0] != 'leaf']
            mc += [tuple([(c, leaf(0))] + [(leaf(0), leaf(0))] * (n - 1)) for c in rep if c[0] != 'leaf'][:4]
        for cs in mc:
            out_.append(('map', list(cs)))
            out_.append(('imap', list(cs)))
    for n in sizes:
        out_.append(('ibytes', n))
        out_.append(('istr', n))
    for c in rep:
        out_.append(('tag', c))
    return out_


def run_script(prog, toks, ranges=()):
    inst = prog.one(TFMT)
    ov = dict(display_prims())
    ov.update(stream_prims())
    m = Machine(prog, prims=prims.P, overrides=ov, max_configs=4000, max_steps=400000)
    st = State()
    st.extra['toks'] = tuple(toks)
    st.extra['ti'] = 0
    for t_ in toks:
        for x in _syms(t_):
            st.ranges[x] = ((0, 255),) if x.startswith('leaf') else ((0, (1 << 64) - 1),)
            st.symty[x] = 'u8' if x.startswith('leaf') else 'u64'
    for k, r in ranges:
        st.ranges[k] = r
    body = inst['body']
    args = [Atom('self'), Ref(('obj', 'f'), (), True)]
    st.mem[('obj', 'f')] = Atom('formatter')
    outs = m.run(inst, args, st)
    return inst, outs, m


def _syms(v):
    if isinstance(v, Int):
        for s_, _ in v.terms:
            yield s_
    elif isinstance(v, (Adt,)):
        for x in v.fields:
            for y in _syms(x):
                yield y
    elif isinstance(v, Slice):
        for y in _syms(v.len):
            yield y


def notation(ctx, prog, depth, sizes):
    ctx.rules_run.append('NOTATION: Tokenizer-as-Display interpreted over the token stream of every tree shape (depth <= %d, sizes %s, symbolic leaves): output == documented notation ([..], {k: v}, [_ ..], {_ ..}, (_ ..), \'\'_, ""_, t(..)), whole stream consumed, Ok' % (depth, list(sizes)))
    inst = prog.one(TFMT)
    if inst is None:
        ctx.fail_closed('NOTATION', 'anchor missing: %s' % TFMT)
        return
    where = mir.loc(inst['sp'])
    n = 0
    seen_shapes = set()
    for tree in trees(depth, sizes):
        toks = []
        want = flatten(prog, tree, toks, [0])
        key = shape_key(tree)
        if key in seen_shapes:
            continue
        seen_shapes.add(key)
        try:
            _i, outs, m = run_script(prog, toks)
        except Abort as e:
            ctx.fail_closed('NOTATION', '%s cannot be interpreted: %s' % (key, e))
            continue
        n += 1
        if len(outs) != 1 or outs[0].kind != 'return':
            ctx.violation('NOTATION', key + '|paths', 'rendering has %d outcomes (%s)' % (len(outs), [o.kind + ':' + str(o.why) for o in outs][:3]), where)
            continue
        o = outs[0]
        got = join([e[1] for e in o.st.events if e[0] == 'OUT'])
        if l1.result_kind(o.value) != 'Ok':
            ctx.violation('NOTATION', key + '|result', 'rendering a well-formed item fails', where)
        elif got != join(want):
            ctx.violation('NOTATION', key, 'renders as %s, documented notation is %s' % (got, join(want)), where)
        elif o.st.extra.get('ti') != len(toks):
            ctx.violation('NOTATION', key + '|consumption', 'stops after %d of %d tokens' % (o.st.extra.get('ti'), len(toks)), where)
        else:
            ctx.ok('NOTATION', key)
            if n <= 3:
                ctx.sample({'tree': key, 'rendering': got})
    ctx.floor('NOTATION', 'tree shapes', n, 150)
    # two items in a row: rendered one after the other
    # malformed streams: problems are rendered inline and the result is Ok
    ctx.rules_run.append('NOTATION.errors: a decoding error / a stream that ends inside a container is rendered inline (" !!! ...") after the prefix already written, the result is Ok(()), and nothing follows the message')
    e = errr(Atom('decode-error'))
    U = lambda nm: okr(tok(prog, 'U8', Int.sym(nm)))
    bad = [
        ('error-first', [e], ''),
        ('error-in-array', [okr(tok(prog, 'Array', Int.const(2))), U('leaf1'), e], '[«tok:U8(leaf1)», '),
        ('error-in-iarray', [okr(tok(prog, 'BeginArray')), U('leaf1'), e], '[_ «tok:U8(leaf1)»'),
        ('error-in-map-value', [okr(tok(prog, 'Map', Int.const(1))), U('leaf1'), e], '{«tok:U8(leaf1)»: '),
        ('open-iarray', [okr(tok(prog, 'BeginArray')), U('leaf1')], '[_ «tok:U8(leaf1)»'),
        ('open-imap', [okr(tok(prog, 'BeginMap')), U('leaf1'), U('leaf2')], '{_ «tok:U8(leaf1)»: «tok:U8(leaf2)»'),
        ('open-ibytes', [okr(tok(prog, 'BeginBytes')), okr(tok(prog, 'Bytes', Slice(None, 'chunk1', Int.sym('chunk1.len'))))], "(_ «tok:Bytes(slice('chunk1', len=chunk1.len))»"),
        ('open-istr', [okr(tok(prog, 'BeginString')), okr(tok(prog, 'String', Slice(None, 'chunk1', Int.sym('chunk1.len'))))], "(_ «tok:String(slice('chunk1', len=chunk1.len))»"),
        ('short-array', [okr(tok(prog, 'Array', Int.const(3))), U('leaf1')], '[«tok:U8(leaf1)», '),
        ('short-map', [okr(tok(prog, 'Map', Int.const(2))), U('leaf1')], '{«tok:U8(leaf1)»: '),
        ('short-tag', [okr(tok(prog, 'Tag', Adt('minicbor::data::Tag', 0, [Int.sym('tag1')])))], '«{}:tag1»('),
    ]
    k = 0
    for name, toks, prefix in bad:
        try:
            _i, outs, m = run_script(prog, toks)
        except Abort as ex:
            ctx.fail_closed('NOTATION.errors', '%s cannot be interpreted: %s' % (name, ex))
            continue
        k += 1
        if len(outs) != 1 or outs[0].kind != 'return':
            ctx.violation('NOTATION.errors', name + '|paths', 'rendering has %d outcomes (%s)' % (len(outs), [o.kind + ':' + str(o.why) for o in outs][:3]), where)
            continue
        o = outs[0]
        pieces = [ev[1] for ev in o.st.events if ev[0] == 'OUT']
        got = join(pieces)
        marks = [i for i, p in enumerate(pieces) if p[0] == 'lit' and p[1].startswith(' !!! ')]
        if l1.result_kind(o.value) != 'Ok':
            ctx.violation('NOTATION.errors', name + '|result', 'a decoding problem makes the display fail instead of being rendered inline', where)
        elif not got.startswith(prefix):
            ctx.violation('NOTATION.errors', name + '|prefix', 'renders %r, expected it to start with %r' % (got, prefix), where)
        elif not marks:
            ctx.violation('NOTATION.errors', name + '|silent', 'the problem is not reported inline: output is %r' % got, where)
        elif any(p[0] != 'arg' for p in pieces[marks[0] + 1:]):
            ctx.violation('NOTATION.errors', name + '|continues', 'output continues after the inline message: %r' % got, where)
        else:
            ctx.ok('NOTATION.errors', name)
    ctx.floor('NOTATION.errors', 'cases', k, 11)


def shape_key(t):
    k = t[0]
    if k == 'leaf':
        return '.'
    if k in ('array', 'iarray'):
        return ('[' if k == 'array' else '[_') + ' '.join(shape_key(c) for c in t[1]) + ']'
    if k in ('map', 'imap'):
        return ('{' if k == 'map' else '{_') + ' '.join('%s:%s' % (shape_key(a), shape_key(b)) for a, b in t[1]) + '}'
    if k in ('ibytes', 'istr'):
        return '(%s%d)' % ('b' if k == 'ibytes' else 's', t[1])
    return 'tag(%s)' % shape_key(t[1])


# ---------------------------------------------------------------------------
# Token as Display: per-variant rendering

TOKEN_REF = {
    'Bool': '{}', 'U8': '{}', 'U16': '{}', 'U32': '{}', 'U64': '{}', 'I8': '{}', 'I16': '{}', 'I32': '{}', 'I64': '{}', 'Int': '{}',
    'F16': '{:e}', 'F32': '{:e}', 'F64': '{:e}', 'String': '"{}"', 'Simple': 'simple({})', 'Null': 'null', 'Undefined': 'undefined',
}
# tokens that the Tokenizer display intercepts (never rendered through Token::fmt inside display()); their own format is the
# token-level notation documented on `impl Display for Token`
TOKEN_STANDALONE = {'Array': 'A[{}]', 'Map': 'M[{}]', 'Tag': 'T({})', 'Break': ']', 'BeginBytes': '?B[', 'BeginString': '?S[', 'BeginArray': '?A[', 'BeginMap': '?M['}


def int_display(ctx, prog):
    """Display for Int (what `Token::Int` and the diagnostic notation print): the decimal of the mathematical value, for the
    whole 65-bit range"""
    ctx.rules_run.append('INT-FMT: Display for Int, interpreted for both signs with a symbolic magnitude over the whole u64 range: one "{}" of the value -1 - n (or "-" followed by n + 1 computed without wrapping or saturating) for negative, of n for non-negative integers')
    path = '<minicbor::data::Int as std::fmt::Display>::fmt'
    inst = prog.one(path)
    if inst is None:
        ctx.fail_closed('INT-FMT', 'anchor missing: %s' % path)
        return
    where = mir.loc(inst['sp'])
    ad = prog.adts.get('minicbor::data::Int')
    fields = ad['variants'][0]['fields'] if ad else []
    if sorted(fields) != ['neg', 'val']:
        ctx.fail_closed('INT-FMT', 'Int is no longer (neg, val): %s' % fields)
        return
    ov = display_prims(token_fmt_opaque=False)
    raw = {}
    o_write = ov["std::fmt::Formatter::<'_>::write_fmt"]
    n = 0
    for neg in (0, 1):
        m = Machine(prog, prims=prims.P, overrides=ov, max_configs=500, max_steps=50000)
        st = State()
        v = m.new_sym(st, 'n', 'u64', ((0, (1 << 64) - 1),))
        fs = [None, None]
        fs[fields.index('neg')] = Int.const(neg)
        fs[fields.index('val')] = Int.sym(v)
        st.mem[('obj', 'int')] = Adt('minicbor::data::Int', 0, fs)
        st.mem[('obj', 'f')] = Atom('formatter')
        try:
            outs = m.run(inst, [Ref(('obj', 'int'), ()), Ref(('obj', 'f'), (), True)], st)
        except Abort as e:
            ctx.fail_closed('INT-FMT', 'Display for Int cannot be interpreted: %s' % e)
            return
        for o in outs:
            key = 'neg=%d|%s' % (neg, l1.fmt_cell(o.st, ('n',)))
            n += 1
            if o.kind != 'return' or l1.result_kind(o.value) != 'Ok':
                if any(e[0] == 'OUT' for e in o.st.events) or o.kind != 'return':
                    ctx.violation('INT-FMT', key + '|path', 'a path ends as %s after writing %s' % (o.kind, [e[1][:3] for e in o.st.events if e[0] == 'OUT']), where)
                continue
            pieces = [e[1] for e in o.st.events if e[0] == 'OUT']
            txt = ''.join(p[1] for p in pieces)
            args_ = [p for p in pieces if p[0] == 'arg']
            bad = [f for f in o.st.flags if f.startswith(('imprecise', 'opaque', 'trunc')) and not f.startswith('imprecise:branch')]
            lo, hi = o.st.ranges['n'][0][0], o.st.ranges['n'][-1][1]
            want = None
            if len(args_) == 1 and len(args_[0]) > 3 and isinstance(args_[0][3], Int) and not bad:
                got = args_[0][3]
                if txt == '{}':
                    want = Int.sym('n') if not neg else Int((('n', -1),), -1)
                elif txt == '-{}' and neg:
                    want = Int((('n', 1),), 1)
                if want is not None and got != want and lo == hi and got.is_const():
                    # a single value: compare numerically
                    wv = want.c + sum(k * lo for s_, k in want.terms)
                    if got.c == wv:
                        got = want
                if want is not None and got == want:
                    ctx.ok('INT-FMT', key)
                    continue
            ctx.violation('INT-FMT', 'neg=%d' % neg, 'Int { neg: %s, val: n } with n in [%#x, %#x] is printed as %r with argument %s%s; the value is %s' % (
                bool(neg), lo, hi, txt, [p[2] for p in args_], (' (' + ','.join(sorted(bad)) + ')') if bad else '', '-1 - n' if neg else 'n'), where)
    ctx.floor('INT-FMT', 'paths', n, 2)


def display_entry(ctx, prog):
    """minicbor::display(bytes) renders *those* bytes: the tokenizer it returns reads the argument slice from position 0"""
    ctx.rules_run.append('DISPLAY-ENTRY: minicbor::display(cbor) returns a tokenizer whose decoder holds exactly the argument slice (same data, same length) at position 0')
    inst = prog.one('minicbor::display')
    if inst is None:
        ctx.fail_closed('DISPLAY-ENTRY', 'anchor missing: minicbor::display')
        return
    where = mir.loc(inst['sp'])
    m = Machine(prog, prims=prims.P, overrides={}, max_configs=200, max_steps=20000)
    st = State()
    ln = m.new_sym(st, 'cbor.len', 'usize', ((0, 1 << 40),))
    try:
        outs = m.run(inst, [Slice(None, 'cbor', Int.sym(ln))], st)
    except Abort as e:
        ctx.fail_closed('DISPLAY-ENTRY', 'minicbor::display cannot be interpreted: %s' % e)
        return
    good = len(outs) == 1 and outs[0].kind == 'return'
    slices, poss = [], []

    def walk(v, name=''):
        if isinstance(v, Slice):
            slices.append(v)
        elif isinstance(v, Adt):
            ad = prog.adts.get(v.adt)
            names = ad['variants'][v.variant]['fields'] if ad and v.variant < len(ad['variants']) else []
            for i, f in enumerate(v.fields):
                walk(f, names[i] if i < len(names) else '')
        elif isinstance(v, (Tup,)):
            for f in v.fields:
                walk(f)
        elif isinstance(v, Ref):
            try:
                walk(m.read_path(outs[0].st, v.key, v.path), name)
            except Exception:
                pass
        elif isinstance(v, Int) and name == 'pos':
            poss.append(v)
    if good:
        walk(outs[0].value)
        bad = sorted(f for f in outs[0].st.flags if f.startswith(('opaque', 'imprecise', 'trunc')))
        if bad or len(slices) != 1 or slices[0].data != 'cbor' or slices[0].len != Int.sym(ln) or poss != [Int.const(0)]:
            good = False
    if good:
        ctx.ok('DISPLAY-ENTRY', 'display')
    else:
        ctx.violation('DISPLAY-ENTRY', 'display', 'minicbor::display does not hand its argument unchanged to a fresh tokenizer (slices %s, positions %s%s)' % (
            [repr(x) for x in slices], poss, (', ' + ','.join(sorted(f for o in outs for f in o.st.flags if f.startswith(('opaque', 'imprecise'))))) if outs else ''), where)


def token_display(ctx, prog):
    ctx.rules_run.append('TOKEN-FMT: per Token variant the literal pieces and format specs of its Display: integers/bools "{}", floats "{:e}", text in double quotes, simple(n), null, undefined, bytes as h\'..\' with two lower-case hex digits per byte')
    inst = prog.one(KFMT)
    if inst is None:
        ctx.fail_closed('TOKEN-FMT', 'anchor missing: %s' % KFMT)
        return None
    where = mir.loc(inst['sp'])
    ad = prog.adts[TOKEN]
    ov = display_prims(token_fmt_opaque=False)
    heads = io.natural_loop_heads(inst['body'])
    seen = 0
    sites = {}
    for vi, v in enumerate(ad['variants']):
        name = v['name']
        if name == 'Bytes':
            # byte strings: rendered for 0..4 symbolic bytes whatever the loop looks like; the one-iteration (inductive) form
            # is checked below in addition when the function still has the countdown loop itself
            got_b = bytes_bounded(ctx, prog, inst, ov, where)
            if got_b is not None:
                seen += 1
            continue
        m = Machine(prog, prims=prims.P, overrides=ov, max_configs=2000, max_steps=100000)
        m.cuts = set(heads)
        st = State()
        self_v = m.make_variant(st, {'s': TOKEN, 'adt': TOKEN, 'args': [], 'k': 'adt'}, ad, vi, 'self*')
        st.mem[('obj', 'tok')] = self_v
        st.mem[('obj', 'f')] = Atom('formatter')
        try:
            outs = m.run(inst, [Ref(('obj', 'tok'), ()), Ref(('obj', 'f'), (), True)], st)
        except Abort as e:
            ctx.fail_closed('TOKEN-FMT', 'Token::%s cannot be interpreted: %s' % (name, e))
            continue
        merge_sites(sites, m)
        seen += 1
        if name == 'Bytes':
            pre = [join([e[1] for e in o.st.events if e[0] == 'OUT']) for o in outs]
            if not all(p.startswith("h'") for p in pre) or not pre:
                ctx.violation('TOKEN-FMT', 'Bytes|open', 'byte strings must start with h\' but the paths write %s' % pre, where)
            else:
                ctx.ok('TOKEN-FMT', 'Bytes|open')
            continue
        want = TOKEN_REF.get(name) or TOKEN_STANDALONE.get(name)
        if want is None:
            ctx.violation('TOKEN-FMT', name + '|unknown', 'Token::%s has no row in the notation table' % name, where)
            continue
        good = True
        for o in outs:
            if o.kind != 'return' or l1.result_kind(o.value) != 'Ok':
                continue
            pieces = [e[1] for e in o.st.events if e[0] == 'OUT']
            got = ''.join(p[1] for p in pieces)
            args_ = [p[2] for p in pieces if p[0] == 'arg']
            if got != want:
                good = False
                ctx.violation('TOKEN-FMT', name, 'Token::%s is rendered with the format %r, the documented notation is %r' % (name, got, want), where)
            elif args_ and not all('self*' in a for a in args_):
                good = False
                ctx.violation('TOKEN-FMT', name + '|value', 'Token::%s renders %s instead of its own payload' % (name, args_), where)
        if good:
            ctx.ok('TOKEN-FMT', name)
    ctx.floor('TOKEN-FMT', 'variants', seen, 26)
    # the byte-string loop, one iteration from an arbitrary remaining count
    ctx.rules_run.append('TOKEN-FMT.bytes: one iteration of the hex loop from an arbitrary countdown: "{:02x} " while more than one byte remains, "{:02x}" for the last, the loop ends with a closing quote')
    body = inst['body']
    # the countdown of the hex loop: the user variable of type usize that the loop decrements (by role, not by name)
    names = {}
    for l, nm_ in body['names']:
        tys = body['locals'][l].get('s', '')
        if tys == 'usize' and 'i' not in names and any(s_['k'] == 'assign' and not s_['p'].get('p') and s_['p']['l'] == l and s_['r'].get('rv') == 'use'
                                                       and mir.op_place(s_['r'].get('a')) is not None for b_ in body['blocks'] for s_ in b_['s']):
            names['i'] = l
        elif 'slice::Iter' in tys and 'iter' not in names:
            names['iter'] = l
    if 'i' in names:
        # .. and it is a countdown only if the body decrements it
        decs = [s_ for b_ in body['blocks'] for s_ in b_['s'] if s_['k'] == 'assign' and s_['r'].get('rv') == 'bin' and s_['r'].get('op', '').startswith('Sub')
                and mir.op_local(s_['r'].get('a') or {}) == names['i']]
        if not decs:
            del names['i']
    if len(heads) != 1 or 'i' not in names:
        # the loop was restructured (moved into a helper, written with split_last, ...): the bounded form above stands alone
        ctx.notes.append('TOKEN-FMT.bytes: countdown loop not found in Token::fmt itself; byte strings checked in bounded form (0..4 bytes) only')
        return sites
    head = heads[0]
    m = Machine(prog, prims=prims.P, overrides=dict(ov, **bytes_iter_prims()), max_configs=2000, max_steps=100000)
    m.cuts = set(heads)
    st = State()
    isym = m.new_sym(st, 'i', 'usize', ((1, (1 << 63) - 1),))   # invariant: i == bytes still to be written >= 1 inside the loop (tables/panic_sites.json)
    st.mem[('obj', 'f')] = Atom('formatter')
    init = {names['i']: Int.sym(isym)}
    if 'iter' in names:
        init[names['iter']] = Atom('byte-iter')
    try:
        outs = m.run(inst, [Atom('self'), Ref(('obj', 'f'), (), True)], st, start_bb=head, init_locals=init)
    except Abort as e:
        ctx.fail_closed('TOKEN-FMT.bytes', 'hex loop cannot be interpreted: %s' % e)
        return sites
    rows = set()
    for o in outs:
        pieces = join([e[1] for e in o.st.events if e[0] == 'OUT'])
        cell = o.st.ranges.get('i')
        kind = 'next' if o.kind == 'cut' else ('end' if o.kind == 'return' else o.kind)
        rows.add((kind, pieces, cell))
    good = True
    for kind, pieces, cell in sorted(rows, key=repr):
        lo, hi = cell[0][0], cell[-1][1]
        if kind == 'end':
            if pieces != "'":
                good = False
                ctx.violation('TOKEN-FMT.bytes', 'close', 'the loop ends writing %r instead of the closing quote' % pieces, where)
        elif kind == 'next':
            want = '«{:02x}:elem(byte-iter)»' + (' ' if lo > 1 else '')
            if lo <= 1 < hi:
                good = False
                ctx.violation('TOKEN-FMT.bytes', 'split', 'separator does not depend on the countdown at 1', where)
            elif lo == 0 and hi == 0:
                continue   # i == 0 inside the loop: excluded by i == number of remaining bytes (table row for the decrement)
            elif pieces != want:
                good = False
                ctx.violation('TOKEN-FMT.bytes', 'i=%s' % ('1' if hi <= 1 else '>1'), 'with %s byte(s) remaining the iteration writes %r, expected %r' % ('1' if hi <= 1 else 'more than one', pieces, want), where)
        else:
            good = False
            ctx.violation('TOKEN-FMT.bytes', kind, 'iteration outcome %s' % kind, where)
    if good and rows:
        ctx.ok('TOKEN-FMT.bytes', 'step table (%d rows)' % len(rows))
    return sites      # the assert of `i -= 1` is not taken from this run: it holds by the assumed invariant (table row)


def bytes_iter_prims():
    def nxt(m, cfg, f, args, t):
        st = cfg.st
        k = ('obj', 'bytev')
        st.mem[k] = Atom('elem(byte-iter)', {'s': 'u8', 'k': 'int:u8'})

        def more(s_):
            s_.events.append(('BYTE',))
        return Fork([(more, some(Ref(k, ()))), (None, NONE)])
    return {'<std::slice::Iter<\'_, T> as std::iter::Iterator>::next': nxt}


def concrete_slice_prims():
    """iteration over a slice of a *known* length (bounded rendering of byte strings): the iterator carries its index"""
    IT = 'mcv::SliceIter'

    def elem(st, nm, k):
        key = ('obj', 'elem', nm, k)
        st.mem[key] = Atom('%s[%d]' % (nm, k), {'s': 'u8', 'k': 'int:u8'})
        return Ref(key, ())

    def as_slice(m, st, v):
        if isinstance(v, Ref):
            v = m.read_path(st, v.key, v.path)
        if isinstance(v, Slice) and isinstance(v.len, Int) and v.len.is_const():
            return v
        return None

    def into_iter(m, cfg, f, args, t):
        s_ = as_slice(m, cfg.st, args[0])
        if s_ is None:
            return NotImplemented
        return Adt(IT, 0, [Atom(str(s_.data)), Int.const(0), s_.len])

    def nxt(m, cfg, f, args, t):
        r = args[0]
        it = m.read_path(cfg.st, r.key, r.path) if isinstance(r, Ref) else None
        if not (isinstance(it, Adt) and it.adt == IT):
            return NotImplemented
        nm, i, n = it.fields
        if i.c < n.c:
            m.write_path(cfg.st, r.key, r.path, Adt(IT, 0, [nm, Int.const(i.c + 1), n]))
            return some(elem(cfg.st, nm.name, i.c))
        return NONE

    def split_last(m, cfg, f, args, t):
        s_ = as_slice(m, cfg.st, args[0])
        if s_ is None:
            return NotImplemented
        n = s_.len.c
        if n == 0:
            return NONE
        from ..absint import Tup
        return some(Tup([elem(cfg.st, str(s_.data), n - 1), Slice(None, s_.data, Int.const(n - 1))]))

    def split_first(m, cfg, f, args, t):
        return NotImplemented

    EN = 'mcv::EnumSliceIter'

    def enumerate_(m, cfg, f, args, t):
        it = args[0]
        if not (isinstance(it, Adt) and it.adt == IT):
            return NotImplemented
        return Adt(EN, 0, list(it.fields))

    def enum_next(m, cfg, f, args, t):
        r = args[0]
        it = m.read_path(cfg.st, r.key, r.path) if isinstance(r, Ref) else None
        if not (isinstance(it, Adt) and it.adt == EN):
            return NotImplemented
        nm, i, n = it.fields
        if i.c < n.c:
            from ..absint import Tup
            m.write_path(cfg.st, r.key, r.path, Adt(EN, 0, [nm, Int.const(i.c + 1), n]))
            return some(Tup([Int.const(i.c), elem(cfg.st, nm.name, i.c)]))
        return NONE

    def enum_into_iter(m, cfg, f, args, t):
        if isinstance(args[0], Adt) and args[0].adt in (EN, IT):
            return args[0]
        return NotImplemented

    return {'std::iter::Iterator::enumerate': enumerate_,
            '<std::iter::Enumerate<I> as std::iter::Iterator>::next': enum_next,
            '<I as std::iter::IntoIterator>::into_iter': enum_into_iter,
            "std::slice::iter::<impl std::iter::IntoIterator for &'_ [T]>::into_iter": into_iter,
            'std::slice::<impl [T]>::iter': into_iter,
            "<std::slice::Iter<'_, T> as std::iter::Iterator>::next": nxt,
            'std::slice::<impl [T]>::split_last': split_last}


def bytes_bounded(ctx, prog, inst, ov, where):
    """TOKEN-FMT.bytes (bounded form, independent of how the loop is written): Token::Bytes of 0..4 symbolic bytes renders as
    h' + two lower-case hex digits per byte separated by single spaces + '"""
    ad = prog.adts[TOKEN]
    vi = [i for i, v in enumerate(ad['variants']) if v['name'] == 'Bytes'][0]
    okn = 0
    for n in range(0, 5):
        m = Machine(prog, prims=prims.P, overrides=dict(ov, **concrete_slice_prims()), max_configs=2000, max_steps=200000)
        st = State()
        st.mem[('obj', 'tok')] = Adt(TOKEN, vi, [Slice(None, 'b', Int.const(n))])
        st.mem[('obj', 'f')] = Atom('formatter')
        try:
            outs = m.run(inst, [Ref(('obj', 'tok'), ()), Ref(('obj', 'f'), (), True)], st)
        except Abort as e:
            ctx.fail_closed('TOKEN-FMT.bytes', 'Token::Bytes of %d byte(s) cannot be interpreted: %s' % (n, e))
            return None
        oks = [o for o in outs if o.kind == 'return' and l1.result_kind(o.value) == 'Ok']
        want_txt = "h'" + ' '.join('{:02x}' for _ in range(n)) + "'"
        want_args = ['b[%d]' % k for k in range(n)]
        if len(oks) != 1:
            ctx.violation('TOKEN-FMT.bytes', 'len=%d|paths' % n, 'rendering a %d-byte string has %d successful paths (the bytes influence control flow?)' % (n, len(oks)), where)
            continue
        pieces = [e[1] for e in oks[0].st.events if e[0] == 'OUT']
        got = ''.join(p[1] for p in pieces)
        args_ = [p[2] for p in pieces if p[0] == 'arg']
        if got != want_txt or not all(w in a for w, a in zip(want_args, args_)) or len(args_) != n:
            ctx.violation('TOKEN-FMT.bytes', 'len=%d' % n, 'a %d-byte string is rendered as %r with arguments %s; the documented notation is %r with the bytes in order' % (n, got, args_, want_txt), where)
        else:
            okn += 1
            ctx.ok('TOKEN-FMT.bytes', 'len=%d' % n)
        for site, rec in m.assert_sites.items():
            if rec['open'] or rec['fail']:
                ctx.violation('TOKEN-FMT.bytes', 'len=%d|panic|%s' % (n, rec['kind']), 'rendering a %d-byte string can panic (%s)' % (n, rec['kind']), mir.loc(rec.get('sp')) or where)
    return okn


def merge_sites(sites, m):
    for site, rec in m.assert_sites.items():
        r = sites.setdefault((rec['path'], site[1]), {'ok': 0, 'open': 0, 'fail': 0})
        for f in ('ok', 'open', 'fail'):
            r[f] += rec[f]


# ---------------------------------------------------------------------------
# PROGRESS: one pop of the control stack

def progress(ctx, prog):
    ctx.rules_run.append('PROGRESS: one pop of the display\'s control stack from an arbitrary element and next token: (P1) a step that requests a token (next()) and gets none ends the rendering; (P2) a step that pushes work has consumed a token or pushes a token request, and pushes at most 5 elements; (P3) a step writes at most 3 pieces, each a constant, a stack string or one token; (P4) peeked-at tokens are not dropped. With P1-P4: pushing steps <= 2*tokens+1, steps <= 11*(tokens+1), output <= c*|input|')
    inst = prog.one(TFMT)
    if inst is None:
        ctx.fail_closed('PROGRESS', 'anchor missing: %s' % TFMT)
        return {}
    where = mir.loc(inst['sp'])
    body = inst['body']
    heads = io.natural_loop_heads(body)
    # the locals of the stack machine by type: the peekable token iterator, the control stack (a Vec of the local enum), the popped element
    names = {}
    for l, nm_ in body['names']:
        tys = body['locals'][l].get('s', '')
        if tys.startswith('std::iter::Peekable<') and 'iter' not in names:
            names['iter'] = l
        elif tys.startswith('std::vec::Vec<') and 'stack' not in names:
            names['stack'] = l
            names['_elem_ty'] = tys[len('std::vec::Vec<'):-1]
    for l, nm_ in body['names']:
        if body['locals'][l].get('s', '') == names.get('_elem_ty') and 'elt' not in names:
            names['elt'] = l
    if 'stack' not in names or 'iter' not in names or 'elt' not in names or len(heads) != 2:
        # a differently organised renderer (helper type with methods, recursion, ..): the one-step obligations P1-P4 are stated for
        # "one function popping one control stack" and do not transfer mechanically.  The rendering itself is still decided
        # (NOTATION / NOTATION.errors interpret whatever the function is); the size-bound clause is then not decided - recorded, not alarmed.
        ctx.notes.append('PROGRESS: display is not organised as one function popping one control stack (loop heads %s); the output-size bound is NOT decided for this shape' % (heads,))
        ctx.analysed['PROGRESS.skipped'] = 1
        return {}
    # inner head: the loop whose header calls Vec::pop
    inner = None
    for h in heads:
        t = body['blocks'][h]['t']
        if t['k'] == 'call' and (t['f'].get('rpath') or '').endswith('::pop'):
            inner = h
    if inner is None:
        ctx.fail_closed('PROGRESS', 'inner loop head (stack.pop()) not found')
        return {}
    # the control element type is the element type of the stack (a function-local enum, whatever it is called)
    E_ADT = names.get('_elem_ty') or globals()['E_ADT']
    ad = prog.adts.get(E_ADT)
    if ad is None:
        ctx.fail_closed('PROGRESS', 'control element type (%s) not found' % E_ADT)
        return {}
    plain = [i_ for i_, v_ in enumerate(ad['variants']) if not v_['tys']]
    below = plain[0] if plain else 0
    tad = prog.adts[TOKEN]
    sites = {}
    ov = dict(display_prims())

    # token classes for the next token
    def token_classes(m, st):
        cls = [('none', None), ('err', errr(Atom('decode-error')))]
        for vi, v in enumerate(tad['variants']):
            tv = m.make_variant(st, {'s': TOKEN, 'adt': TOKEN, 'args': [], 'k': 'adt'}, tad, vi, 'tok')
            cls.append(('ok:' + v['name'], okr(tv)))
        return cls
    rows = []
    n = 0
    for vi, v in enumerate(ad['variants']):
        sub = [('', None)]
        vty = (v['tys'][0] if v['tys'] else '').replace(' ', '')
        if 'Option<u64>' in vty:          # a countdown of a definite container / None for an indefinite one
            sub = [('None', NONE), ('Some(0)', some(Int.const(0))), ('Some(1)', some(Int.const(1))), ('Some(n>=2)', some(Int.sym('cnt')))]
        elif 'str' in vty:                  # a string constant to show
            sub = [('s', Atom('stack-string', ty_from_str("&'static str")))]
        elif v['tys'] and prog.adts.get(v['tys'][0], {}).get('kind') == 'enum' and all(not x['tys'] for x in prog.adts[v['tys'][0]]['variants']):
            # a payload that is a field-less enum (e.g. a local enum naming the kind of container): one case per variant
            sub = [(x['name'], Adt(v['tys'][0], xi, [])) for xi, x in enumerate(prog.adts[v['tys'][0]]['variants'])]
        elif vty:                           # any other payload: symbolic, split on use
            sub = [('p', '__symbolic__')]
        for sname, sval in sub:
            # enumerate (next token, token after it) classes lazily: run with a two-token symbolic script per class pair
            m0 = Machine(prog, prims=prims.P, overrides=ov)
            st0 = State()
            classes = token_classes(m0, st0)
            for c1name, c1 in classes:
                seconds = [('any', None)]
                if c1name in ('ok:BeginBytes', 'ok:BeginString'):
                    seconds = [('none', None), ('ok:Break', okr(tok(prog, 'Break'))), ('ok:other', okr(tok(prog, 'U8', Int.sym('tok2')))), ('err', errr(Atom('decode-error')))]
                for c2name, c2 in seconds:
                    m = Machine(prog, prims=prims.P, overrides=dict(ov, **stream_prims()), max_configs=3000, max_steps=200000)
                    m.cuts = set(heads)
                    st = State()
                    st.ranges.update(st0.ranges)
                    st.symty.update(st0.symty)
                    st.ranges['cnt'] = ((2, (1 << 64) - 1),)
                    st.symty['cnt'] = 'u64'
                    st.ranges['tok2'] = ((0, 255),)
                    st.symty['tok2'] = 'u8'
                    if sval == '__symbolic__':
                        sval_ = m.make_value(st, ty_from_str(v['tys'][0]), 'ctl')
                    else:
                        sval_ = sval
                    elt = Adt(E_ADT, vi, [sval_] if sval_ is not None else [])
                    st.extra['stack'] = (Adt(E_ADT, below, []), elt)     # something below it, so that the pop of *this* step is the element
                    toks = [] if c1 is None else [c1]
                    if c1 is not None and c2 is not None:
                        toks.append(c2)
                    elif c1 is not None and c2name == 'any':
                        toks.append(okr(tok(prog, 'U8', Int.sym('tok2'))))
                    st.extra['toks'] = tuple(toks)
                    st.extra['ti'] = 0
                    st.extra['second'] = c2name
                    st.mem[('obj', 'f')] = Atom('formatter')
                    init = {names['stack']: Atom('stack'), names['iter']: Atom('iter')}
                    try:
                        outs = m.run(inst, [Atom('self'), Ref(('obj', 'f'), (), True)], st, start_bb=inner, init_locals=init)
                    except Abort as e:
                        ctx.fail_closed('PROGRESS', 'step E::%s(%s) x %s cannot be interpreted: %s' % (v['name'], sname, c1name, e))
                        continue
                    merge_sites(sites, m)
                    for o in outs:
                        n += 1
                        evs = o.st.events
                        nexts = [e for e in evs if e[0] == 'NEXT']
                        pushes = [e[1] for e in evs if e[0] == 'PUSH']
                        outp = [e[1] for e in evs if e[0] == 'OUT']
                        kind = 'continue' if o.kind == 'cut' else ('return:' + l1.result_kind(o.value) if o.kind == 'return' else o.kind + ':' + str(o.why))
                        rows.append({'elt': 'E::%s%s' % (v['name'], ('(%s)' % sname) if sname else ''), 'tok': c1name, 'tok2': c2name, 'next_calls': len(nexts), 'consumed': len([e for e in nexts if e[1] is not None]),
                                     'starved': len([e for e in nexts if e[1] is None]), 'peeks': o.st.extra.get('peeks', 0), 'pushes': pushes, 'out': outp, 'kind': kind, 'pops': o.st.extra.get('pops', 0)})
    # obligations
    seen_keys = set()
    for r in rows:
        key = '%s|next=%s%s' % (r['elt'], r['tok'], ('+' + r['tok2']) if r['tok2'] not in ('any',) else '')
        if r['peeks'] == 0 and r['next_calls'] == 0 and r['tok'] not in ('none',):
            # the step does not look at the input: identical for every token class; report once
            key = '%s|next=*' % r['elt']
        if key in seen_keys:
            continue
        seen_keys.add(key)
        pn = [p for p in r['pushes'] if isinstance(p, Adt) and p.variant == 0]
        good = True
        if not r['kind'].startswith(('continue', 'return')):
            ctx.violation('PROGRESS', key + '|total', 'step does not complete: %s' % r['kind'], where)
            continue
        if r['starved'] and r['kind'] == 'continue':
            good = False
            ctx.violation('PROGRESS', 'P1|' + key, 'a step that asks for the next token at the end of the input carries on (pushed %d, wrote %s): a container header declaring n elements then costs n steps and n separators with no input behind them' % (len(r['pushes']), join(r['out']) or 'nothing'), where)
        if r['pushes'] and ((not pn and not r['consumed']) or len(r['pushes']) > 5):
            good = False
            ctx.violation('PROGRESS', 'P2|' + key, 'step pushes %d element(s), %d of them token requests' % (len(r['pushes']), len(pn)), where)
        if len(r['out']) > 3 or any(p[0] == 'arg' and not p[2].startswith(('tag', 'decode-error', 'tok', 'cnt')) for p in r['out']):
            good = False
            ctx.violation('PROGRESS', 'P3|' + key, 'step writes %s' % join(r['out']), where)
        if r['kind'] == 'continue' and r['pops'] > 1:
            good = False
            ctx.violation('PROGRESS', 'P4|' + key, 'step pops %d elements' % r['pops'], where)
        if good:
            ctx.ok('PROGRESS', key)
    ctx.count('PROGRESS.rows', n)
    ctx.floor('PROGRESS', 'step rows', len(seen_keys), 60)
    return sites


# ---------------------------------------------------------------------------

def f_panic_display(ctx, prog, pre_sites):
    from . import c02
    roots = [i['key'] for i in prog.insts.values() if i['path'] in (TFMT, KFMT, 'minicbor::display')]
    if len(roots) < 3:
        ctx.fail_closed('F-PANIC', 'display entry points missing (%s)' % roots)
        return
    reach = facts.reachable(prog, roots)
    # formatting impls handed to core::fmt as arguments ({} of Int / Error / Tag ...) are called through fn pointers: add them
    TR = {'display': 'Display', 'lower_exp': 'LowerExp', 'lower_hex': 'LowerHex', 'upper_hex': 'UpperHex', 'upper_exp': 'UpperExp', 'debug': 'Debug', 'octal': 'Octal', 'binary': 'Binary'}
    work = list(reach)
    fmt_impls = set()
    while work:
        k = work.pop()
        inst = prog.get(k)
        for bi, t in mir.iter_calls(inst['body']):
            rk = t['f'].get('rkey') or ''
            if "::fmt::rt::Argument::<'_>::new_" in rk and '::<' in rk.split('new_', 1)[1]:
                kind, ty = rk.split('new_', 1)[1].split('::<', 1)
                ty = ty[:-1].lstrip('&').strip()
                if ty.startswith('mut '):
                    ty = ty[4:]
                tr = TR.get(kind)
                cands = [i for i in prog.insts.values() if tr and i['path'].startswith('<' + ty.split('<')[0]) and i['path'].endswith(' as std::fmt::%s>::fmt' % tr)]
                for c in cands:
                    fmt_impls.add(c['path'])
                    if c['key'] not in reach:
                        new = facts.reachable(prog, [c['key']])
                        work.extend(new - reach)
                        reach |= new
    ctx.count('F-PANIC.fmt_impls', len(fmt_impls))
    if len(fmt_impls) < 3:
        ctx.fail_closed('F-PANIC', 'expected the Display impls of Int, decode::Error (and Type) to be reachable through format arguments, found %s' % sorted(fmt_impls))
    ctx.rules_run.append('F-PANIC: every potential panic site (MIR assert, panicking callee, diverging call) reachable from display(), Tokenizer-as-Display and Token-as-Display is discharged by the range analysis of the step tables or by a justified table row')
    c02.f_panic(ctx, prog, reach, 'display', overrides=dict(l1.decoder_overrides(), **display_prims(token_fmt_opaque=False)), rule='F-PANIC', pre_sites=pre_sites)


def self_test(ctx):
    """positive controls of the template decoder"""
    t = decode_template(list(b'\x06hello \xc0\x01\n\x00'))
    if t != [('lit', 'hello '), ('arg', 0, None, None, None), ('lit', '\n')]:
        ctx.fail_closed('TOKEN-FMT', 'format template decoder self-test failed: %r' % (t,))
    t = decode_template(list(b'\xc3\x20\x00\x00\x69\x02\x00\x00'))   # {:02x}: flags(fill ' ' | zero pad) + width 2
    if spec('lower_hex', t[0][2], t[0][3], t[0][4]) != '{:02x}':
        ctx.fail_closed('TOKEN-FMT', 'format template decoder self-test failed for {:02x}: %r' % (t,))


def run(ctx):
    prog = load.program('core-full')
    self_test(ctx)
    depth, sizes = (2, (0, 1, 2, 3)) if ctx.tier == 'quick' else (3, (0, 1, 2, 3, 4))
    notation(ctx, prog, depth, sizes)
    s1 = token_display(ctx, prog) or {}
    int_display(ctx, prog)
    display_entry(ctx, prog)
    s2 = progress(ctx, prog)
    for k, v in s2.items():
        r = s1.setdefault(k, {'ok': 0, 'open': 0, 'fail': 0})
        for f in ('ok', 'open', 'fail'):
            r[f] += v[f]
    f_panic_display(ctx, prog, s1)
    return ('Display interpreted over token streams (the Tokenizer itself is C11/C02); rendering of numbers by core::fmt is trusted; '
            'the size bound is derived from the step obligations P1-P4 (argument in DESIGN.md), not measured.')
