"""C20 - same behaviour in every feature configuration (DESIGN 5.20).

(1) every configuration of the matrix type-checks under the exporter;
(2) table identity: the table rules of C01/C03/C04/C05/C12/C13/C02(F-PANIC...)/C17 are re-run on the MIR of each
    configuration.  Each rule compares its tables with a configuration-independent reference (RFC 8949 / the documented
    representation), so passing in two configurations means equal tables in both; the documented differences are the
    only parametrisation (`half`: the f16 methods and the 0xf9 cells; `alloc`: Cursor<Box<[u8]>>, indefinite strings and
    collect_str in the bridge; the skip twins are compared directly by C06);
(3) cfg census: every `cfg` on something smaller than a whole item, or on an item with a negated twin, is a row of
    tables/cfg_sites.json (documented difference or covered by a twin rule).
"""
import importlib, json, os, re, fnmatch
from .. import load, export, mir
from ..absint import Abort

VERIF = os.path.abspath(os.path.join(os.path.dirname(__file__), '..', '..', '..'))

# (core config, serde config) pairs; the primary pair (core-full, serde-full) is what C01..C19 themselves analyse
QUICK = [('core-none', 'serde-none'), ('core-alloc', 'serde-alloc'), ('core-alloc-t32', None)]
THOROUGH = [('core-none', 'serde-none'), ('core-half', 'serde-half'), ('core-alloc', 'serde-alloc'), ('core-alloc-half', None), ('core-std', 'serde-std'), ('core-alloc-t32', None)]
# the 32-bit twin (target_pointer_width = "32", atomic32; thumbv7m-none-eabi, core and alloc type-checked from rust-src): the rule sets
# whose references do not depend on the pointer width (symbolic lengths are capped at 2^27 there). C13 / C06 / C11 are not re-run there: their references describe
# lengths up to 2^64 (a 32-bit build legitimately answers Overflow above 2^32) and the may-panic scan of a debug-profile core differs.
T32_RULES = ('C03', 'C04', 'C05', 'C12', 'C01', 'C07')
SUBRULES = ['C03', 'C04', 'C05', 'C12', 'C01', 'C13', 'C02', 'C17']
SERDE_RULES = ('C17', 'C02')


class SubCtx:
    """forwards one rule's verdicts into the C20 context, labelled with the configuration"""

    def __init__(self, ctx, cfg, pid, known, floors):
        self.ctx, self.cfg, self.pid = ctx, cfg, pid
        self.tier = 'quick'
        self.seed = ctx.seed
        self.known = known
        self.floors = floors
        self.rules_run = []
        self.notes = []
        self.samples = []
        self.assumptions = []
        self.analysed = {}
        self.nv = 0

    def ok(self, rule, instance, nontrivial=True):
        self.ctx.ok('%s[%s].%s' % (self.pid, self.cfg, rule), instance, nontrivial)

    def violation(self, rule, instance, message, where=None, **detail):
        key = '%s|%s' % (rule, instance)
        if (self.pid, key) in self.known:
            # a recorded, configuration-independent finding of the original property: not a configuration difference
            self.ctx.ok('%s[%s].known' % (self.pid, self.cfg), key, nontrivial=False)
            return
        self.nv += 1
        self.ctx.violation('CFG[%s]' % self.cfg, '%s.%s' % (self.pid, key), 'in configuration %s: %s' % (self.cfg, message), where, **detail)

    def fail_closed(self, rule, message):
        self.ctx.fail_closed('%s[%s].%s' % (self.pid, self.cfg, rule), message)

    def floor(self, rule, what, count, minimum):
        k = '%s.%s.%s' % (self.pid, rule, what)
        self.analysed[k] = count
        want = (self.floors.get(self.cfg) or {}).get(k)
        if want is None:
            self.fail_closed(rule, 'no floor recorded for %s in tables/c20_floors.json (observed %d)' % (k, count))
        elif count < (max(1, int(want * 0.8)) if want < 50 else int(want * 0.9)):
            # recorded floors are the counts observed when the table was recorded; census counts (functions, paths, cells, field
            # accesses) move by a few with every outlined closure or merged arm, so they get 10% (small ones 20%) slack - a rule
            # that lost its subject loses far more than that
            self.fail_closed(rule, '%s: analysed %d < floor %d' % (what, count, want))
        self.ctx.analysed['%s[%s].%s.%s' % (self.pid, self.cfg, rule, what)] = count

    def sample(self, s):
        pass

    def count(self, name, n=1):
        pass


def known_keys():
    p = os.path.join(VERIF, 'known_findings.json')
    d = json.load(open(p)) if os.path.exists(p) else {'findings': []}
    return set((f['property'], mir.canon(f['key'])) for f in d.get('findings', []))


def compile_matrix(ctx, pairs):
    ctx.rules_run.append('CFG-BUILD: every configuration of the matrix type-checks (the pinned test run compiles only the std configuration)')
    cfgs = []
    for a, b in pairs:
        cfgs += [c for c in (a, b) if c]
    good = []
    for c in cfgs:
        try:
            export.ensure([c])
            ctx.ok('CFG-BUILD', c)
            good.append(c)
        except export.ExportError as e:
            msg = str(e)
            mm = re.search(r'(error(\[E\d+\])?: .*?)(\n\s*-->\s*(\S+))?', msg)
            ctx.violation('CFG-BUILD', c, 'configuration %s does not compile: %s' % (c, (msg[-600:] if not mm else (mm.group(1) + (' at ' + mm.group(4) if mm.group(4) else '')))), None)
    return good


def table_identity(ctx, pairs, good):
    ctx.rules_run.append('CFG-TABLES: the table rules of %s re-run on each configuration\'s MIR against the same references (documented differences are the only parametrisation): equal verdicts = equal tables in every configuration' % ', '.join(SUBRULES))
    known = known_keys()
    fp = os.path.join(VERIF, 'tables', 'c20_floors.json')
    floors = json.load(open(fp)) if os.path.exists(fp) else {}
    record = os.environ.get('MCV_C20_RECORD')
    n = 0
    # the primary configuration (all features) is one of the configurations: a feature-gated branch that only exists *with* a
    # feature (half-precision shortcuts, std-only paths) is compared with the same references here
    for core, serde in [('core-full', 'serde-full')] + list(pairs):
        if core != 'core-full' and (core not in good or (serde and serde not in good)):
            continue
        label = core.replace('core-', '')
        load.ALIAS = {'core-full': core} if core != 'core-full' else {'core-full': 'core-full'}
        if serde:
            load.ALIAS['serde-full'] = serde
        try:
            for pid in (T32_RULES if core.endswith('-t32') else SUBRULES):
                if pid in ('C17',) and not serde:
                    continue
                if pid == 'C02' and not serde:
                    continue
                if core.endswith('-t32') and pid not in T32_RULES:
                    continue
                sub = SubCtx(ctx, label, pid, known, floors)
                mod = importlib.import_module('mcv.rules.' + pid.lower())
                fn = getattr(mod, 'run_config', None) or mod.run
                reset_caches()
                try:
                    fn(sub)
                    n += 1
                except Abort as e:
                    ctx.fail_closed('CFG-TABLES', '%s on %s cannot be interpreted: %s' % (pid, label, e))
                if record:
                    floors.setdefault(label, {}).update(sub.analysed)
        finally:
            load.ALIAS = {}
            reset_caches()
    if record:
        json.dump(floors, open(fp, 'w'), indent=1, sort_keys=True)
    ctx.floor('CFG-TABLES', 'rule x configuration runs', n, 14)


def reset_caches():
    """summaries are cached per program object; an alias switch changes which program a name denotes"""
    from . import summaries
    from .. import tables
    summaries._cache.clear()
    tables._dec_cache.clear()
    for nm in ('_enc_cache',):
        c = getattr(tables, nm, None)
        if c is not None:
            c.clear()


# ---------------------------------------------------------------------------
# cfg census (syntactic, over the sources of the three library crates)

CFG_RE = re.compile(r'#\s*\[\s*cfg(_attr)?\s*\((.*)\)\s*\]\s*$|cfg!\s*\(([^)]*)\)')
ITEM_RE = re.compile(r'^\s*(pub(\([a-z]+\))?\s+)?(unsafe\s+)?(impl\b|fn\b|mod\b|use\b|extern\b|struct\b|enum\b|type\b|const\b|static\b|trait\b|macro_rules!|[a-z_]+!\s*[\{\(])')


def cfg_sites(root, crate_dirs):
    out = []
    for cd in crate_dirs:
        base = os.path.join(root, cd, 'src')
        for dp, dn, fn in os.walk(base):
            for f in sorted(fn):
                if not f.endswith('.rs'):
                    continue
                p = os.path.join(dp, f)
                lines = open(p, encoding='utf-8').read().split('\n')
                for i, ln in enumerate(lines):
                    s = ln.strip()
                    if s.startswith('//'):
                        continue
                    for mm in re.finditer(r'cfg!\s*\(([^)]*)\)', ln):
                        out.append({'file': os.path.relpath(p, root), 'line': i + 1, 'pred': norm_pred(mm.group(1)), 'kind': 'expr', 'on': 'cfg!'})
                    mm = re.match(r'^\s*#\s*\[\s*cfg\s*\((.*)\)\s*\]\s*(.*)$', ln)
                    if not mm:
                        mm2 = re.match(r'^\s*#\s*\[\s*cfg_attr\s*\((.*)\)\s*\]', ln)
                        if mm2:
                            out.append({'file': os.path.relpath(p, root), 'line': i + 1, 'pred': norm_pred(mm2.group(1).split(',')[0]), 'kind': 'attr', 'on': 'cfg_attr'})
                        continue
                    pred = norm_pred(mm.group(1))
                    # what does it decorate: the rest of this line or the next non-attribute line
                    rest = mm.group(2).strip()
                    j = i
                    while not rest or rest.startswith('#[') or rest.startswith('//'):
                        j += 1
                        if j >= len(lines):
                            break
                        rest = lines[j].strip()
                    indent = len(ln) - len(ln.lstrip())
                    is_item = bool(ITEM_RE.match(rest))
                    out.append({'file': os.path.relpath(p, root), 'line': i + 1, 'pred': pred, 'kind': 'item' if is_item else 'inner', 'on': rest[:70], 'indent': indent})
    return out


def norm_pred(s):
    return re.sub(r'\s+', '', s)


def item_ident(on):
    """what an item-level cfg decorates, precise enough to pair it with its negated twin"""
    mm = re.search(r'\bfn\s+(\w+)', on)
    if mm:
        return 'fn ' + mm.group(1)
    mm = re.search(r'\b(struct|enum|type|const|static|mod|trait)\s+(\w+)', on)
    if mm:
        return mm.group(1) + ' ' + mm.group(2)
    return re.sub(r'\s+', ' ', on)


def negation(p):
    if p.startswith('not(') and p.endswith(')'):
        return p[4:-1]
    return 'not(%s)' % p


def cfg_census(ctx):
    ctx.rules_run.append('CFG-SITES (census, not a verdict): every cfg that selects between alternatives (statement/arm/field level, cfg!, or an item with a negated sibling in the same file) is listed with the documented difference it belongs to (tables/cfg_sites.json); sites without a row are recorded for review in the evidence - the verdict on them comes from the semantic comparisons (CFG-TABLES incl. the primary configuration, CFG-IMPLS, CFG-ACCESSORS, T-SKIP.twins)')
    root = export.REPO
    sites = cfg_sites(root, ['minicbor', 'minicbor-serde', 'minicbor-io', 'minicbor-derive'])
    table = json.load(open(os.path.join(VERIF, 'tables', 'cfg_sites.json')))
    rows = table['rows']
    by_file = {}
    for s in sites:
        by_file.setdefault(s['file'], []).append(s)
    n = 0
    used = set()
    unreviewed = []
    for f, ss in sorted(by_file.items()):
        idents = {}
        for s in ss:
            if s['kind'] == 'item':
                idents.setdefault(item_ident(s['on']), set()).add(s['pred'])
        for s in ss:
            # an item with the same name under another predicate (negation, other pointer width, ...) is an alternative
            twin = s['kind'] == 'item' and len(idents.get(item_ident(s['on']), ())) > 1
            selecting = s['kind'] in ('inner', 'expr') or (s['kind'] == 'item' and twin)
            if not selecting:
                ctx.ok('CFG-SITES.additive', '%s|%s|%s' % (f, s['pred'], s['on'][:40]), nontrivial=False)
                continue
            n += 1
            hit = None
            for ri, r in enumerate(rows):
                if fnmatch.fnmatchcase(f, r['file']) and r['pred'] in (s['pred'], negation(s['pred'])) and (r.get('on') is None or re.search(r['on'], s['on'])):
                    hit = ri
                    break
            if hit is None:
                # not a verdict: how the alternatives are spelled (one fn with two cfg'd bodies, two cfg'd fns, a cfg'd impl block)
                # changes with every reorganisation; whether they *behave* alike is decided by the comparisons above
                unreviewed.append('%s:%d `#[cfg(%s)]` on `%s`' % (f, s['line'], s['pred'], re.sub(r'\s+', ' ', s['on'])[:60]))
                ctx.ok('CFG-SITES.unlisted', '%s|%s|%s' % (f, s['pred'], re.sub(r'\s+', ' ', s['on'])[:50]), nontrivial=False)
            else:
                used.add(hit)
                ctx.ok('CFG-SITES', '%s|%s|%s' % (f, s['pred'], re.sub(r'\s+', ' ', s['on'])[:50]))
    moved = ['%s %s %s' % (r['file'], r['pred'], r.get('on')) for ri, r in enumerate(rows) if ri not in used and not r.get('optional')]
    ctx.analysed['CFG-SITES.selecting sites without a table row (listed in notes)'] = len(unreviewed)
    ctx.analysed['CFG-SITES.table rows that match no site any more'] = len(moved)
    for u in unreviewed:
        ctx.notes.append('CFG-SITES: unlisted selecting site ' + u)
    for u in moved:
        ctx.notes.append('CFG-SITES: documented difference no longer found at ' + u)
    ctx.floor('CFG-SITES', 'selecting sites', n, min(table.get('floor', 1), 10))


def item_text(root, file, line):
    """source text of the item whose cfg attribute is on `line` (balanced braces)"""
    lines = open(os.path.join(root, file), encoding='utf-8').read().split('\n')
    i = line      # first line after the attribute
    depth = 0
    out = []
    started = False
    while i < len(lines):
        ln = lines[i]
        out.append(ln)
        depth += ln.count('{') - ln.count('}')
        if '{' in ln:
            started = True
        if started and depth <= 0:
            break
        i += 1
    return '\n'.join(out)


def width_twins(ctx):
    ctx.rules_run.append('CFG-TWIN (census): every target_pointer_width item has a 32-bit and a 64-bit twin; whether they are token-identical up to the fixed-width type is noted - the behaviour of both is decided by CFG-TABLES (host build and core-alloc-t32)')
    root = export.REPO
    sites = [s for s in cfg_sites(root, ['minicbor']) if s['pred'].startswith('target_pointer_width=') and s['kind'] == 'item']
    groups = {}
    for s in sites:
        groups.setdefault((s['file'], item_ident(s['on'])), []).append(s)
    n = 0
    for (f, ident), ss in sorted(groups.items()):
        if len(ss) != 2:
            ctx.violation('CFG-TWIN', '%s|%s' % (f, ident), 'expected a 32-bit and a 64-bit twin, found %d site(s)' % len(ss), '%s:%d' % (f, ss[0]['line']))
            continue
        texts = []
        for s in ss:
            t = item_text(root, f, s['line'])
            t = re.sub(r'\b[ui](32|64)\b', lambda mo: mo.group(0)[0] + 'N', t)
            texts.append(re.sub(r'\s+', ' ', t))
        n += 1
        if texts[0] == texts[1]:
            ctx.ok('CFG-TWIN', '%s|%s' % (f, ident))
        else:
            # a census since the 32-bit arms are type-checked and decided semantically (CFG-TABLES on core-alloc-t32 runs the
            # encoder / decoder / length rules of C01, C03, C05, C07 on them): a textual difference between twins is not a verdict
            ctx.notes.append('CFG-TWIN: the 32-bit and 64-bit twins of %s (%s) differ in more than the fixed-width integer type; both are decided by CFG-TABLES' % (ident, f))
            ctx.ok('CFG-TWIN', '%s|%s|differs' % (f, ident), nontrivial=False)
    ctx.floor('CFG-TWIN', 'twin pairs', n, 6)


# ---------------------------------------------------------------------------
# direct comparison of the built-in impls between configurations

IMPL_ITEMS = ('bool', 'int:u8', 'int:u32', 'int:u64', 'int:i8', 'int:i64', 'int:int', 'f16', 'f32', 'f64', 'char', 'str', 'bytes', 'null', 'undefined', 'simple',
              'array0', 'array2', 'map1', 'array_', 'map_', 'bytes_', 'str_', 'tag', 'break', 'leaf', 'eoi')


def impl_signatures(prog):
    """(trait, self type) -> {case: frozenset(outcomes)} for every built-in Decode / Encode / CborLen impl of the configuration"""
    from .. import l1, l2
    from ..absint import State
    from . import c17, summaries
    from .derive_rules import fmt_items
    sig = {}
    half = prog.feature('half')
    U = dict(c17.universe(True))
    for i in prog.impls:
        if i['krate'] != 'minicbor':
            continue
        tr = i['trait'].split('::')[-1]
        if i['trait'] == 'minicbor::decode::Decode':
            path = i['trait_ref'] + '::decode'
            if prog.one(path) is None:
                continue
            rows = {}
            for uk in IMPL_ITEMS:
                item = U[uk]
                st = State()
                if item is not None and item[1] == 'INT':
                    lo, hi = c17.INT_RANGE[item[2]]
                    st.ranges['n'] = ((lo, hi),)
                    st.symty['n'] = 'i128'
                try:
                    r = c17.run_de(prog, path, [item] if item is not None else [], l2.decoder_overrides(), st=st)
                    outs = set()
                    for o in r[1]:
                        if o.kind != 'return':
                            outs.add(('diverge', str(o.why)[:60]))
                        elif l1.result_kind(o.value) == 'Ok':
                            outs.add(('Ok', l2.cur(o.st)))
                        else:
                            outs.add(('Err', l1.error_class(prog, o.value.fields[0]), l2.cur(o.st)))
                    rows[uk] = frozenset(outs)
                except (Abort, RecursionError, KeyError, IndexError, TypeError, AttributeError) as e:
                    rows[uk] = frozenset([('abort', type(e).__name__)])
            sig[('Decode', i['self_ty'])] = rows
        elif i['trait'] in ('minicbor::encode::Encode', 'minicbor::encode::CborLen'):
            kind = 'enc' if tr == 'Encode' else 'len'
            path = i['trait_ref'] + ('::encode' if kind == 'enc' else '::cbor_len')
            r = summaries.summary(prog, path, kind)
            if r is None:
                continue
            if r[0] == 'abort':
                sig[(tr, i['self_ty'])] = {'summary': frozenset([('abort',)])}
                continue
            outs = set()
            for o in r[1]:
                if o.kind != 'return':
                    outs.add(('diverge',))
                elif kind == 'enc':
                    outs.add((l1.result_kind(o.value), fmt_items(o.st.events), tuple(sorted(summaries.choices(o.st).items()))))
                else:
                    outs.add((repr(o.value), tuple(sorted(summaries.choices(o.st).items()))))
            sig[(tr, i['self_ty'])] = {'summary': frozenset(outs)}
    return sig


def impl_identity(ctx, pairs, good):
    ctx.rules_run.append('CFG-IMPLS: every built-in Decode impl is interpreted over one item of each kind, every Encode/CborLen impl is summarised, in the primary configuration and in each other one: for impls present in both, the outcome sets (Ok/error class, items consumed; emitted items; length expression) are equal; the only permitted difference is the half-precision item without `half`')
    reset_caches()
    base_prog = load.program('core-full')
    base = impl_signatures(base_prog)
    n = 0
    for core, _serde in pairs:
        if core not in good:
            continue
        label = core.replace('core-', '')
        reset_caches()
        prog = load.program(core)
        other = impl_signatures(prog)
        half_diff = base_prog.feature('half') != prog.feature('half')
        for key in sorted(set(base) & set(other)):
            for case in sorted(set(base[key]) & set(other[key])):
                a, b = base[key][case], other[key][case]
                n += 1
                k = '%s for %s|%s' % (key[0], key[1], case)
                if a == b:
                    ctx.ok('CFG-IMPLS[%s]' % label, k)
                elif half_diff and case == 'f16':
                    ctx.ok('CFG-IMPLS[%s].documented' % label, k, nontrivial=False)
                else:
                    imp = [i for i in prog.impls if i['self_ty'] == key[1] and i['trait'].endswith(key[0])]
                    ctx.violation('CFG-IMPLS[%s]' % label, k, '%s for %s behaves differently on %s: %s in the full configuration, %s in configuration %s' % (
                        key[0], key[1], case, sorted(a, key=repr), sorted(b, key=repr), label), mir.loc(imp[0]['sp']) if imp else None)
    reset_caches()
    ctx.floor('CFG-IMPLS', 'compared (impl, case) pairs', n, 3000)


ACCESSORS = ['bool', 'null', 'undefined', 'simple', 'tag', 'array', 'map', 'bytes', 'str', 'bytes_iter', 'str_iter', 'f32', 'f64',
             'u8', 'u16', 'u32', 'u64', 'i8', 'i16', 'i32', 'i64', 'int', 'char', 'datatype', 'position']


def accessor_fingerprint(prog, name):
    """initial byte -> set of outcome signatures (result class, value / error class, bytes consumed *also on failure*, end-of-input
    reports) of Decoder::<name>, from its byte-level path table"""
    from .. import tables, l1
    r = tables.dec_rows(prog, l1.DEC + name)
    if r is None:
        return None
    inst, rows, m = r
    fp = {}
    for row in rows:
        first = None
        for e in row.events:
            if e[0] in ('READ1', 'CUR', 'PEEK'):
                first = e[1]
                break
        cons = l1.consumed_len(row.st)
        val = re.sub(r'#\d+', '#', repr(row.value))
        flags = tuple(sorted(f for f in row.flags if f.startswith(('imprecise', 'opaque', 'trunc')) and not f.startswith('imprecise:branch')))
        sig = (row.kind, row.result, val, repr(cons), tuple(e[1] for e in row.eoi()), flags)
        if first is None or first not in row.st.ranges:
            fp.setdefault('none', set()).add(sig)
            continue
        for lo, hi in row.st.ranges[first]:
            for b in range(max(lo, 0), min(hi, 255) + 1):
                fp.setdefault(b, set()).add(sig)
    return inst, fp


def accessor_identity(ctx, pairs, good):
    ctx.rules_run.append('CFG-ACCESSORS: the byte-level path table of every typed Decoder accessor (result, value or error class, bytes consumed - also on the failing paths - '
                         'and end-of-input reports, per initial byte) is the same in every configuration; the only permitted difference is the half-precision head 0xf9 without `half`')
    reset_caches()
    base_prog = load.program('core-full')
    base = {}
    for a in ACCESSORS:
        try:
            base[a] = accessor_fingerprint(base_prog, a)
        except Abort as e:
            ctx.fail_closed('CFG-ACCESSORS', 'Decoder::%s cannot be summarised: %s' % (a, e))
    n = 0
    for core, _serde in pairs:
        if core not in good:
            continue
        label = core.replace('core-', '')
        reset_caches()
        prog = load.program(core)
        half_diff = base_prog.feature('half') != prog.feature('half')
        for a in ACCESSORS:
            if not base.get(a):
                continue
            try:
                other = accessor_fingerprint(prog, a)
            except Abort as e:
                ctx.fail_closed('CFG-ACCESSORS', 'Decoder::%s cannot be summarised in configuration %s: %s' % (a, label, e))
                continue
            if other is None:
                continue
            inst, fa = base[a]
            fb = other[1]
            bad = []
            for b in sorted(set(fa) | set(fb), key=repr):
                n += 1
                if fa.get(b) == fb.get(b):
                    continue
                if half_diff and b == 0xf9:
                    continue
                bad.append(b)
            if not bad:
                ctx.ok('CFG-ACCESSORS[%s]' % label, a)
            else:
                b0 = bad[0]
                ctx.violation('CFG-ACCESSORS[%s]' % label, a, 'Decoder::%s behaves differently on initial byte(s) %s: e.g. on %s the full configuration has %s, configuration %s has %s' % (
                    a, ', '.join(('%#x' % x) if isinstance(x, int) else x for x in bad[:6]) + (' ..' if len(bad) > 6 else ''),
                    ('%#x' % b0) if isinstance(b0, int) else b0, sorted(fa.get(b0, ()), key=repr)[:3], label, sorted(fb.get(b0, ()), key=repr)[:3]), mir.loc(inst['sp']))
    reset_caches()
    ctx.floor('CFG-ACCESSORS', 'compared (accessor, initial byte) cells', n, 4000)


class _Null:
    """swallows the verdicts of a rule that is run only for the table it collects"""

    def __init__(self):
        self.rules_run, self.notes, self.samples, self.assumptions, self.analysed = [], [], [], [], {}
        self.tier, self.seed = 'quick', 0

    def ok(self, *a, **k):
        pass

    def violation(self, *a, **k):
        pass

    def fail_closed(self, *a, **k):
        pass

    def floor(self, *a, **k):
        pass

    def sample(self, *a, **k):
        pass

    def count(self, *a, **k):
        pass


def derive_identity(ctx):
    """the proc-macro chooses some templates by its *own* cargo features (`cfg!(feature = "std")` / `"alloc"` inside
    minicbor-derive): the corpus is expanded a second time in a no_std + alloc crate and the error tables of the derived decoders
    (wrong / missing tag at every framing level, undeclared variant index) are compared probe by probe"""
    from . import derive_rules
    ctx.rules_run.append('CFG-DERIVE: the derive corpus expanded in a no_std + alloc crate (minicbor-derive without its std feature) rejects a wrong / missing tag and an '
                         'undeclared variant index with the same error classes as the std expansion, probe by probe')
    try:
        export.ensure(['schemas', 'schemas-alloc'])
    except export.ExportError as e:
        ctx.violation('CFG-DERIVE', 'build', 'the derive corpus does not compile in the no_std + alloc configuration: %s' % str(e)[-400:], None)
        return
    tabs = {}
    for cfg in ('schemas', 'schemas-alloc'):
        load.ALIAS = {'schemas': cfg}
        reset_caches()
        try:
            col = {}
            derive_rules.c09_errors(_Null(), prog=load.program('schemas'), collect=col)
            tabs[cfg] = col
        except Abort as e:
            ctx.fail_closed('CFG-DERIVE', 'the derived decoders of configuration %s cannot be interpreted: %s' % (cfg, e))
            return
        finally:
            load.ALIAS = {}
            reset_caches()
    a, b = tabs['schemas'], tabs['schemas-alloc']
    for k in sorted(set(a) | set(b)):
        if a.get(k) == b.get(k):
            ctx.ok('CFG-DERIVE', k)
        else:
            ctx.violation('CFG-DERIVE', k, 'derived Decode answers the probe %s with %s in the std expansion and with %s in the no_std + alloc expansion' % (k, a.get(k), b.get(k)), 'minicbor-derive/src/decode.rs')
    ctx.floor('CFG-DERIVE', 'probes compared', len(set(a) & set(b)), 60)


def run(ctx):
    pairs = QUICK if ctx.tier == 'quick' else THOROUGH
    good = compile_matrix(ctx, pairs)
    table_identity(ctx, pairs, good)
    # the cross-configuration comparisons hold between feature sets of one target; the 32-bit twin differs from the host build
    # by design (u32 / i32 heads for usize / isize, Overflow above 2^32): it is decided by CFG-TABLES against the width-aware references
    same_target = [p for p in pairs if not p[0].endswith('-t32')]
    impl_identity(ctx, same_target, good)
    accessor_identity(ctx, same_target, good)
    derive_identity(ctx)
    cfg_census(ctx)
    width_twins(ctx)
    from . import c06
    reset_caches()
    c06.twins_only(ctx)
    return ('Behavioural identity is decided as identity of the extracted tables (scalar encoders/decoders/accessors, integer conversions, floats, built-in impl summaries, sinks, bridge methods, panic census) in each configuration; '
            'derive expansions (C07-C10) and the I/O crate are configuration-independent except through these. The target_pointer_width = "32" / atomic32 arms are type-checked for thumbv7m-none-eabi (core and alloc from rust-src) and the width rules of C01, C03, C05, C12 are re-run on that MIR with 32-bit usize / isize.')
