"""Positive controls: the census rules whose expected count on minicbor is zero must fire on harness/fixtures on every run."""
from .. import load, check


def run(ctx, rules):
    try:
        prog = load.program('fixtures')
    except Exception as e:
        ctx.fail_closed('CONTROL', 'fixtures crate cannot be exported: %s' % str(e)[:200])
        return
    K = 'mcv_fixtures'
    keys = dict((i['path'], i['key']) for i in prog.insts.values() if i['krate'] == K)

    def expect(rule, scratch, needle):
        hit = [v for v in scratch.violations if v[0].startswith(rule) and needle in v[0]]
        if hit:
            ctx.ok('CONTROL', '%s fires on %s' % (rule, needle), nontrivial=False)
        else:
            ctx.fail_closed('CONTROL', 'positive control silent: rule %s does not report %s (the rule went blind)' % (rule, needle))
    from . import c02
    if 'F-ALLOC' in rules:
        sc = check.Ctx('CTRL', 'quick', 0)
        c02.f_alloc(sc, prog, [keys[K + '::alloc_by_input']])
        expect('F-ALLOC', sc, 'alloc_by_input')
    if 'F-PANIC' in rules:
        sc = check.Ctx('CTRL', 'quick', 0)
        c02.f_panic(sc, prog, [keys[K + '::' + n] for n in ('index_by_input', 'add_overflow', 'unwrap_input')], 'control')
        expect('F-PANIC', sc, 'index_by_input')
        expect('F-PANIC', sc, 'add_overflow')
        expect('F-PANIC', sc, 'unwrap_input')
    if 'F-UNSAFE' in rules:
        sc = check.Ctx('CTRL', 'quick', 0)
        c02.f_unsafe(sc, prog)
        expect('F-UNSAFE', sc, 'unreviewed_unsafe')
    if 'F-LOOP' in rules:
        sc = check.Ctx('CTRL', 'quick', 0)
        c02.f_loop(sc, prog, [keys[K + '::spin']])
        expect('F-LOOP', sc, 'spin')
    if 'F-RECURSION' in rules:
        sc = check.Ctx('CTRL', 'quick', 0)
        c02.f_recursion(sc, prog, krates=(K,))
        expect('F-RECURSION', sc, 'recurse_on_tags')
    if 'F-FLOAT' in rules:
        from . import c12
        sc = check.Ctx('CTRL', 'quick', 0)
        c12.float_census(sc, prog, K)
        expect('F-FLOAT.cast', sc, 'narrowing')
        expect('F-FLOAT.arith', sc, 'arith')
    if 'F-PUT' in rules:
        from . import c13
        if K + '::bypass' in c13.put_callers(prog, K):
            ctx.ok('CONTROL', 'F-PUT sees mcv_fixtures::bypass', nontrivial=False)
        else:
            ctx.fail_closed('CONTROL', 'positive control silent: F-PUT does not see the bypassing writer')
