"""Async state machines (C15/C16): how one poll sequence is covered without enumerating schedules.

The pre-transform coroutine bodies are interpreted from their entry with an arbitrary persistent state (io_rules).  Two things
make that an induction over *every* schedule instead of a walk through one:

 * a suspension ends the path (outcome `yield`): the persistent state at that point is what a later, fresh future starts from,
   and a resumed future re-polls the same single-shot source/sink future from the same state (Pending consumes nothing);
 * an arrival at a loop head ends the path (outcome `cut`) when the whole control state there - call stack, every live local of
   every frame, the persistent object, the buffer length - is an *instance* of a generic arrival: the state in which a fresh
   future started from an arbitrary persistent state S(o, ..) first reaches that head.  The continuation from the generic
   arrival is explored for all values of the generic symbols, so the continuation from the instance is covered.  Loop-carried
   locals are therefore fine exactly when they are a function of the persistent state (`offset == self.state.0`); a local that
   carries progress the persistent state does not have fails to unify, the loop is unrolled a few times and then reported.

Private helper `async fn`s are inlined at their (single) poll: their body runs in a nested frame, a suspension inside ends the
path like any other, their return value is `Poll::Ready`.  Public operations with their own rule (AsyncWriter::sync inside
write_with) stay summarised.
"""
from ..absint import (lin_add, Int, Cond, Atom, Adt, Tup, Arr, BeBytes, Ref, Slice, Clo, Str, FnItem, Outcome, Abort, iv_min, iv_max)
from .. import mir
from . import io_rules as io

UNROLL = 3


def loop_heads(body):
    """heads of the natural loops of a body, not counting the poll loop of an `.await` (its back edge goes through a suspension)"""
    blocks = body['blocks']
    n = len(blocks)
    succ = [[] for _ in range(n)]
    pred = [[] for _ in range(n)]
    for i, b in enumerate(blocks):
        if b.get('cleanup') or b['t']['k'] == 'yield':
            continue
        for s in mir.term_succs(b['t']):
            if blocks[s].get('cleanup'):
                continue
            if s not in succ[i]:
                succ[i].append(s)
                pred[s].append(i)
    reach = {0}
    st = [0]
    while st:
        x = st.pop()
        for y in succ[x]:
            if y not in reach:
                reach.add(y)
                st.append(y)
    dom = mir._dominators(n, 0, succ, pred, reach)
    heads = set()
    for u in reach:
        for v in succ[u]:
            if v in dom.get(u, ()):
                heads.add(v)
    return sorted(heads)


class Snap:
    __slots__ = ('frames', 'locals', 'fids', 'persistent', 'buflen', 'ranges', 'start', 'names')


def snapshot(m, cfg):
    s = Snap()
    s.frames = []
    s.locals = []
    s.fids = []
    s.names = []
    st = cfg.st
    for i, fr in enumerate(cfg.stack):
        top = i == len(cfg.stack) - 1
        if top:
            at = fr.bb
            skip = None
        else:
            callee = cfg.stack[i + 1]
            at = callee.ret_bb
            skip = callee.dest[0][1] if callee.dest is not None and not callee.dest[1] and callee.dest[0][0] == fr.fid else None
        lv = m.live_of(fr.inst['key'], fr.body)
        live = lv.get(at, set()) if at is not None else set()
        vals = {}
        for l in live:
            if l == skip:
                continue
            v = st.mem.get((fr.fid, l))
            if v is not None:
                vals[l] = v
        s.frames.append((fr.inst['key'], at))
        s.locals.append(vals)
        s.fids.append(fr.fid)
        s.names.append(dict((l, n_) for l, n_ in fr.body.get('names', [])))
    s.persistent = dict((k, v) for k, v in st.mem.items() if isinstance(k, tuple) and k and k[0] == 'arg')
    s.buflen = dict(st.extra.get('buflen') or {})
    s.ranges = st.ranges
    return s


def bounds(m, st, v):
    """interval of a linear value, using the relational upper bounds recorded on the path (n <= len offered)"""
    lo, hi = m.rng(st, v)
    for e, b in st.extra.get('ubs') or ():
        # v = e + (v - e) <= b + max(v - e)
        r = lin_add(v, e, -1)
        try:
            hi = min(hi, b + m.rng(st, r)[1])
        except KeyError:
            continue
    return lo, hi


class Mismatch(Exception):
    pass


class LoopState(Abort):
    """a loop carries state that a fresh future would not have"""


class Unifier:
    """sigma with  A == sigma(G)  for a generic arrival G and an arrival A of the same head"""

    def __init__(self, m, g, a, ast):
        self.m, self.g, self.a, self.ast = m, g, a, ast
        self.sym = {}      # generic symbol -> Int over A's symbols
        self.atom = {}     # generic atom name -> A value
        self.deferred = []

    def fid_pos(self, snap, fid):
        try:
            return snap.fids.index(fid)
        except ValueError:
            return None

    def key_eq(self, gk, ak, what):
        if isinstance(gk, tuple) and gk and gk[0] == 'arg':
            if gk != ak:
                raise Mismatch('%s: points to %r, generic arrival points to %r' % (what, ak, gk))
            return
        if isinstance(gk, tuple) and isinstance(ak, tuple) and len(gk) == 2 and len(ak) == 2:
            gp, ap = self.fid_pos(self.g, gk[0]), self.fid_pos(self.a, ak[0])
            if gp is not None and gp == ap and gk[1] == ak[1]:
                return
            if gp is None and ap is None and gk == ak:
                return
        if gk != ak:
            raise Mismatch('%s: points to %r, generic arrival points to %r' % (what, ak, gk))

    def bind_sym(self, s, a, what):
        if not isinstance(a, Int):
            raise Mismatch('%s: %r where the generic arrival has the integer %s' % (what, a, s))
        if s in self.sym:
            if self.sym[s] != a:
                raise Mismatch('%s: %r, but %s is already %r elsewhere in the state' % (what, a, s, self.sym[s]))
            return
        self.sym[s] = a

    def subst(self, g):
        terms = {}
        c = g.c
        for s, k in g.terms:
            a = self.sym.get(s)
            if a is None:
                if s in self.ast.ranges and s not in self.g.ranges:
                    a = Int.sym(s)
                else:
                    # a generic symbol that occurs only inside an expression: it stands for itself
                    a = Int.sym(s)
            c += k * a.c
            for s2, k2 in a.terms:
                terms[s2] = terms.get(s2, 0) + k * k2
        return Int(tuple(terms.items()), c)

    def val(self, g, a, what):
        if isinstance(g, Atom):
            if isinstance(a, Atom) and a.name == g.name:
                return
            if g.name in self.atom:
                if repr(self.atom[g.name]) != repr(a):
                    raise Mismatch('%s: %r, but <%s> is already %r elsewhere in the state' % (what, a, g.name, self.atom[g.name]))
                return
            self.atom[g.name] = a
            return
        if isinstance(g, Int):
            sg = g.single()
            if sg and sg[1] == 1 and sg[2] == 0 and sg[0] in self.g.ranges:
                self.bind_sym(sg[0], a, what)
                return
            if g.is_const():
                if not (isinstance(a, Int) and a == g):
                    raise Mismatch('%s: %r, generic arrival has %r' % (what, a, g))
                return
            self.deferred.append((g, a, what))
            return
        if type(g) is not type(a):
            raise Mismatch('%s: %r, generic arrival has %r' % (what, a, g))
        if isinstance(g, Adt):
            if g.adt != a.adt or g.variant != a.variant or len(g.fields) != len(a.fields):
                raise Mismatch('%s: %r, generic arrival has %r' % (what, a, g))
            for i, (x, y) in enumerate(zip(g.fields, a.fields)):
                self.val(x, y, '%s.%d' % (what, i))
            return
        if isinstance(g, (Tup, Clo)):
            gf = g.fields if isinstance(g, Tup) else g.caps
            af = a.fields if isinstance(a, Tup) else a.caps
            if len(gf) != len(af) or (isinstance(g, Clo) and g.key != a.key):
                raise Mismatch('%s: %r, generic arrival has %r' % (what, a, g))
            for i, (x, y) in enumerate(zip(gf, af)):
                self.val(x, y, '%s.%d' % (what, i))
            return
        if isinstance(g, Arr):
            if len(g.elems) != len(a.elems):
                raise Mismatch('%s: array length' % what)
            for i, (x, y) in enumerate(zip(g.elems, a.elems)):
                self.val(x, y, '%s[%d]' % (what, i))
            return
        if isinstance(g, Ref):
            self.key_eq(g.key, a.key, what)
            if len(g.path) != len(a.path) or g.mut != a.mut:
                raise Mismatch('%s: %r, generic arrival has %r' % (what, a, g))
            for x, y in zip(g.path, a.path):
                if repr(x) != repr(y):
                    raise Mismatch('%s: %r, generic arrival has %r' % (what, a, g))
            return
        if isinstance(g, Slice):
            if (g.base is None) != (a.base is None):
                raise Mismatch('%s: %r, generic arrival has %r' % (what, a, g))
            if g.base is not None:
                self.val(g.base, a.base, what + '.base')
            elif g.data != a.data:
                raise Mismatch('%s: %r, generic arrival has %r' % (what, a, g))
            if isinstance(g.len, Int) or isinstance(g.len, Atom):
                self.val(g.len, a.len, what + '.len')
            return
        if isinstance(g, BeBytes):
            if g.n != a.n or g.kind != a.kind:
                raise Mismatch('%s: %r, generic arrival has %r' % (what, a, g))
            self.val(g.val, a.val, what + '.val')
            return
        if repr(g) != repr(a):
            raise Mismatch('%s: %r, generic arrival has %r' % (what, a, g))

    def run(self):
        g, a = self.g, self.a
        if g.frames != a.frames:
            raise Mismatch('call stack %r, generic arrival %r' % (a.frames, g.frames))
        # persistent object first: it determines the generic symbols
        for k in sorted(g.persistent, key=repr):
            if k not in a.persistent:
                raise Mismatch('%r missing' % (k,))
            self.val(g.persistent[k], a.persistent[k], '%s' % (k[1],))
        for nm in sorted(set(g.buflen) | set(a.buflen)):
            gv = g.buflen.get(nm, Int.sym('len(%s)' % nm))
            av = a.buflen.get(nm, Int.sym('len(%s)' % nm))
            if isinstance(gv, Int) and gv.single() and gv.single()[0] not in g.ranges:
                # the generic run never looked at this length: unconstrained there
                sg = gv.single()
                if sg[1] == 1 and sg[2] == 0:
                    self.bind_sym(sg[0], av, 'len(%s)' % nm) if isinstance(av, Int) else None
                    continue
            self.val(gv, av, 'len(%s)' % nm)
        for i, (gl, al) in enumerate(zip(g.locals, a.locals)):
            for l in sorted(set(gl) & set(al)):
                nm = a.names[i].get(l) or '_%d' % l
                self.val(gl[l], al[l], 'local `%s` of %s' % (nm, a.frames[i][0].split('::')[-2] if '::' in a.frames[i][0] else a.frames[i][0]))
        for gexp, av, what in self.deferred:
            if not isinstance(av, Int) or self.subst(gexp) != av:
                raise Mismatch('%s: %r, a fresh future would have %r' % (what, av, self.subst(gexp)))
        # the instance lies inside the generic run's assumptions: every bound symbol stays in its generic range
        for s, av in self.sym.items():
            r = g.ranges.get(s)
            if r is None:
                continue
            try:
                lo, hi = bounds(self.m, self.ast, av)
            except KeyError:
                raise Mismatch('%s is bound to %r whose range is unknown' % (s, av))
            if len(r) != 1 and not (lo == hi and any(x <= lo <= y for x, y in r)):
                raise Mismatch('generic symbol %s has a split range' % s)
            if lo < iv_min(r) or hi > iv_max(r):
                raise Mismatch('%s would be %r in [%d, %d], outside the persistent invariant [%d, %d]' % (s, av, lo, hi, iv_min(r), iv_max(r)))
        return self.sym


class CoroMachine(io.IoMachine):
    """IoMachine with inlined helper coroutines and subsumption cuts at the loop heads of every coroutine body"""

    def __init__(self, prog, mode, start, table, summarised=()):
        io.IoMachine.__init__(self, prog)
        self.mode = mode            # 'record': stop at the first loop head;  'run': cut at covered arrivals
        self.start = start
        self.table = table          # (head key, start id) -> Snap of the generic arrival
        self.summarised = set(summarised)
        self.heads = {}
        self._live = {}
        for path, c in prog.coroutines.items():
            if c.get('pre_body'):
                self.heads[path] = set(loop_heads(c['pre_body']))
        self.cuts = set((p, h) for p, hs in self.heads.items() for h in hs)
        self.mismatches = []
        self.inlined = set()

    def live_of(self, key, body):
        if key not in self._live:
            self._live[key] = mir.liveness(body)
        return self._live[key]

    def coroutine_key(self, key):
        """the exported coroutine a closure value denotes (a generic free `async fn` prints its type arguments in the value's key
        but not in its definition path)"""
        if key in self.prog.coroutines:
            return key
        import re
        strip = lambda k: re.sub(r'::<[^{}]*?>(?=::)', '', k)
        c = [k for k in self.prog.coroutines if strip(k) == strip(key)]
        return c[0] if len(c) == 1 else None

    # -- helper futures ------------------------------------------------------------------
    def call_fn(self, cfg, fr, f, args, dest, ret_bb, t):
        n = f.get('rpath') or f.get('path') or ''
        is_poll = n in self.prog.coroutines or (n.endswith('::poll') and n not in self.overrides and 'async fn body' in ' '.join(f.get('rargs') or f.get('args') or [n]))
        if is_poll and args:
            fut = args[0]
            for _ in range(4):
                if isinstance(fut, Adt) and fut.adt.endswith('pin::Pin'):
                    fut = fut.fields[0]
                if isinstance(fut, Ref):
                    fut = self.read_path(cfg.st, fut.key, fut.path)
            ckey = self.coroutine_key(fut.key) if isinstance(fut, Clo) else None
            if ckey is not None and ckey not in self.summarised:
                inst = io.coroutine_inst(self.prog, ckey)
                if inst is not None:
                    self.inlined.add(ckey)
                    io.ev(cfg.st, 'ENTER', ckey.split('::')[-2])
                    return self.push(cfg, inst, [Tup(fut.caps), Atom('resume')], dest, ret_bb, post=lambda m, c, v: io.ready(v))
        return io.IoMachine.call_fn(self, cfg, fr, f, args, dest, ret_bb, t)

    # -- arrivals at loop heads ----------------------------------------------------------
    def at_cut(self, cfg, fr):
        key = (fr.inst['key'], fr.bb)
        if key not in self.cuts:
            return None
        st = cfg.st
        snap = snapshot(self, cfg)
        if self.mode == 'record':
            o = Outcome(st, 'arrival')
            o.why = key
            o.value = snap
            return o
        cv = dict(st.extra.get('cutvisits') or {})
        seen = cv.get(key, 0)
        passed = st.extra.get('arrivals', 0)
        if passed == 0 and (key, self.start) in self.table:
            # this run's own generic arrival
            cv[key] = seen + 1
            st.extra['cutvisits'] = cv
            st.extra['arrivals'] = 1
            return None
        why = []
        for (k2, sid), g in sorted(self.table.items(), key=lambda kv: repr(kv[0])):
            if k2 != key:
                continue
            try:
                sigma = Unifier(self, g, snap, st).run()
            except Mismatch as e:
                why.append('vs a fresh future in state %s: %s' % (sid, e))
                continue
            o = Outcome(st, 'cut')
            o.why = (key, sid, sigma)
            return o
        if seen + 1 > UNROLL:
            raise LoopState('the state at the loop head %s:bb%d is not what a fresh future would have there (%s)' % (key[0].split('::')[-2], key[1], '; '.join(why) or 'no fresh future reaches this loop directly'))
        self.mismatches.append((key, why))
        cv[key] = seen + 1
        st.extra['cutvisits'] = cv
        st.extra['arrivals'] = passed + 1
        return None


def explore(prog, inst, starts, summarised=()):
    """starts: list of (id, setup).  Returns (runs: id -> (machine, outcomes), table, notes)."""
    table = {}
    notes = []
    for sid, setup in starts:
        m = CoroMachine(prog, 'record', sid, {}, summarised)
        st_holder = {}

        def setup2(m_, st, args, setup=setup):
            r = setup(m_, st, args)
            st_holder['ranges'] = dict(st.ranges)
            return r
        m, outs = run(prog, inst, m, setup2)
        arr = [o for o in outs if o.kind == 'arrival']
        by = {}
        for o in arr:
            by.setdefault(o.why, []).append(o)
        for key, os_ in by.items():
            o = os_[0]
            base = st_holder.get('ranges') or {}
            narrowed = [s for s, r in base.items() if o.st.ranges.get(s) != r]
            evs = [e for e in o.st.events if e[0] != 'ENTER']
            if len(os_) == 1 and not evs and not (o.st.extra.get('known') or {}) and not narrowed and not o.st.extra.get('choices'):
                table[(key, sid)] = o.value
            else:
                notes.append('loop head %s:bb%d is reached from state %s on %d path(s) with I/O or branching before it: no generic arrival recorded' % (key[0].split('::')[-2], key[1], sid, len(os_)))
    runs = {}
    for sid, setup in starts:
        m = CoroMachine(prog, 'run', sid, table, summarised)
        runs[sid] = run(prog, inst, m, setup)
    return runs, table, notes


def run(prog, inst, m, setup):
    from ..absint import State
    st = State()
    body = inst['body']
    names = dict((l, n) for l, n in body['names'])
    args = [m.make_value(st, body['locals'][i], names.get(i, 'a%d' % i)) for i in range(1, body['argc'] + 1)]
    if setup:
        args = setup(m, st, args) or args
    outs = m.run(inst, args, st)
    return m, outs
