"""Rules over the generated derive corpus (harness/schemas): C07 (derived), C08, C09, C10."""
import json, os, re
from ..absint import Int, Atom, Adt, Abort
from .. import load, l1, l2, mir
from . import summaries

VERIF = os.path.abspath(os.path.join(os.path.dirname(__file__), '..', '..', '..'))
CRATE = 'mcv_schemas'
LEAF = (CRATE,)

INT_T = ('u8', 'u16', 'u32', 'u64', 'i8', 'i16', 'i32', 'i64')


def corpus():
    d = json.load(open(os.path.join(VERIF, 'harness', 'schemas', 'schemas.json')))
    return d


def tyname(s):
    g = []
    if s.get('lifetimes'):
        g.append("'a")
    g += s.get('generics', [])
    return '%s::%s%s' % (CRATE, s['name'], ('<%s>' % ', '.join(g)) if g else '')


def enc_path(s):
    return '<%s as minicbor::encode::Encode<Ctx>>::encode' % tyname(s)


def len_path(s):
    return '<%s as minicbor::encode::CborLen<Ctx>>::cbor_len' % tyname(s)


def dec_path(s):
    return "<%s as minicbor::decode::Decode<'bytes, Ctx>>::decode" % tyname(s)


def is_optional(f):
    return f['ty'].startswith('Option<') or f['codec'] == 'custom_nil'


def field_key(f, pos):
    """name of the field as the analysis sees it (ADT field name)"""
    return f['name'][1:] if f['name'].startswith('_') else f['name']


def live_fields(fields):
    return sorted([f for f in fields if not f['skip']], key=lambda f: f['idx'])


# ---------------------------------------------------------------------------
# reference format (minicbor-derive documentation, section "CBOR encoding")

def ref_fields(fields, enc, present):
    fs = live_fields(fields)
    toks = []
    if enc == 'map':
        ps = [f for f in fs if present(f)]
        toks.append(('MAP', len(ps)))
        for f in ps:
            toks.append(('IDX', f['idx']))
            if f['tag'] is not None:
                toks.append(('TAG', f['tag']))
            toks.append(('VAL', f))
        return toks
    ps = [f for f in fs if present(f)]
    if not ps:
        return [('ARRAY', 0)]
    m = max(f['idx'] for f in ps)
    toks.append(('ARRAY', m + 1))
    by = dict((f['idx'], f) for f in fs)
    for i in range(m + 1):
        f = by.get(i)
        if f is not None and present(f):
            if f['tag'] is not None:
                toks.append(('TAG', f['tag']))
            toks.append(('VAL', f))
        elif f is not None and (f['codec'] == 'custom_nil' or f.get('_generic')):
            # a nil value of a type with an opaque is_nil/encode pair: the slot holds whatever that type writes for nil
            toks.append(('NULL_OR_VAL', f))
        else:
            toks.append(('NULL',))
    return toks


def reference(s, variant, present):
    toks = []
    if s.get('transparent'):
        return [('VAL', s['fields'][0])]
    if s.get('tag') is not None:
        toks.append(('TAG', s['tag']))
    if s['kind'] != 'enum':
        enc = s.get('enc') or 'array'
        return toks + ref_fields(s['fields'], enc, present)
    v = variant
    if s.get('index_only'):
        return toks + [('IDX', v['idx'])]
    toks += [('ARRAY', 2), ('IDX', v['idx'])]
    if v.get('tag') is not None:
        toks.append(('TAG', v['tag']))
    enc = v.get('enc') or s.get('enc') or 'array'
    if v['kind'] == 'unit':
        toks.append(('MAP', 0) if enc == 'map' else ('ARRAY', 0))
        return toks
    return toks + ref_fields(v['fields'], enc, present)


# ---------------------------------------------------------------------------
# matching the emission summary against reference tokens

def origin_ok(text, fname):
    return re.search(r'self\*\.%s(?![0-9A-Za-z_])' % re.escape(fname), text) is not None


def parse_tree(events, i):
    """consume one item tree starting at events[i]; returns (next index, list of items in the tree) or (None, reason)"""
    n = len(events)
    if i >= n:
        return None, 'stream ends'
    e = events[i]
    if e[0] != 'ITEM':
        return None, 'unexpected %r' % (e,)
    it = e[1:]
    k = it[0]
    if k == 'TAG':
        j, sub = parse_tree(events, i + 1)
        if j is None:
            return None, sub
        return j, [it] + sub
    if k in ('ARRAY', 'MAP'):
        cnt = it[1]
        mult = 2 if k == 'MAP' else 1
        if isinstance(cnt, Int) and cnt.is_const():
            j = i + 1
            items = [it]
            for _ in range(cnt.c * mult):
                j2, sub = parse_tree(events, j)
                if j2 is None:
                    return None, sub
                items += sub
                j = j2
            return j, items
        # symbolic count: must be followed by one representative iteration block (or nothing if the loop is elided)
        if i + 1 < n and events[i + 1][0] == 'REP_BEGIN':
            j = i + 2
            items = [it]
            for _ in range(mult):
                j2, sub = parse_tree(events, j)
                if j2 is None:
                    return None, sub
                items += sub
                j = j2
            if j < n and events[j][0] == 'REP_END':
                return j + 1, items
            return None, 'iteration block emits more than one element per step'
        return None, 'container with symbolic length %r without an element loop' % (cnt,)
    if k == 'BEGIN':
        j = i + 1
        items = [it]
        while j < n and not (events[j][0] == 'ITEM' and events[j][1] == 'BREAK'):
            if events[j][0] in ('REP_BEGIN', 'REP_END'):
                j += 1
                continue
            j2, sub = parse_tree(events, j)
            if j2 is None:
                return None, sub
            items += sub
            j = j2
        if j >= n:
            return None, 'indefinite container without break'
        return j + 1, items + [('BREAK',)]
    if k == 'BREAK':
        return None, 'unbalanced break'
    return i + 1, [it]


def item_text(it):
    return ' '.join(repr(x) for x in it)


def leaf_kind_ok(f, items):
    """light type check of the first item of a field value against the declared field type"""
    ty = f['ty']
    if ty.startswith('Option<'):
        ty = ty[7:-1]
    first = items[0]
    k = first[0]
    if f['codec'] == 'bytes':
        return k == 'BYTES' or (k == 'ENC')
    if f['codec'] in ('custom', 'custom_nil'):
        return k == 'ENC' and str(first[1]).startswith('custom:')
    if ty in INT_T:
        return k == 'INT' and first[1] == ty
    if ty == 'bool':
        return k == 'BOOL'
    if ty == 'char':
        return k == 'CHAR'
    if ty == 'f32':
        return k == 'F32'
    if ty == 'f64':
        return k == 'F64'
    if ty in ('String', "&'a str") or ty.startswith('Cow<'):
        return k == 'STR'
    if ty.startswith('Vec<'):
        return k == 'ARRAY'
    return k == 'ENC'


def match_stream(events, toks):
    """returns None if the emission equals the reference, else a reason"""
    ev = [e for e in events if e[0] in ('ITEM', 'REP_BEGIN', 'REP_END')]
    i = 0
    for t in toks:
        if t[0] == 'VAL':
            f = t[1]
            j, items = parse_tree(ev, i)
            if j is None:
                return 'field %s: %s' % (f['name'], items)
            fk = field_key(f, None)
            bad = [it for it in items if it[0] not in ('ARRAY', 'MAP', 'TAG', 'NULL', 'BREAK', 'BEGIN') and not origin_ok(item_text(it), fk)]
            if bad:
                return 'slot of field %s (index %d) holds %s' % (f['name'], f['idx'], item_text(bad[0]))
            if items[0][0] == 'NULL' and not f['ty'].startswith('Option<Option'):
                return 'field %s (index %d) is present but null is written' % (f['name'], f['idx'])
            if not leaf_kind_ok(f, items):
                return 'field %s: value written as %s, declared type %s' % (f['name'], item_text(items[0]), f['ty'])
            i = j
            continue
        if i >= len(ev) or ev[i][0] != 'ITEM':
            return 'expected %r, stream ends' % (t,)
        it = ev[i][1:]
        if t[0] in ('ARRAY', 'MAP', 'TAG'):
            if not (it[0] == t[0] and isinstance(it[1], Int) and it[1].is_const() and it[1].c == t[1]):
                return 'expected %s(%d), found %s' % (t[0].lower(), t[1], item_text(it))
        elif t[0] == 'IDX':
            if not (it[0] == 'INT' and isinstance(it[2], Int) and it[2].is_const() and it[2].c == t[1]):
                return 'expected index %d, found %s' % (t[1], item_text(it))
        elif t[0] == 'NULL_OR_VAL':
            if it[0] != 'NULL':
                j, items = parse_tree(ev, i)
                if j is None or not all(origin_ok(item_text(x), field_key(t[1], None)) for x in items if x[0] == 'ENC'):
                    return 'slot of nil field %s holds %s' % (t[1]['name'], item_text(it))
                i = j
                continue
        elif t[0] == 'NULL':
            if it[0] != 'NULL':
                return 'expected null (gap or absent optional), found %s' % item_text(it)
        i += 1
    if i != len(ev):
        return 'extra output after the value: %s' % item_text(ev[i][1:] if ev[i][0] == 'ITEM' else ev[i])
    return None


def fmt_toks(toks):
    out = []
    for t in toks:
        if t[0] in ('VAL', 'NULL_OR_VAL'):
            out.append('<%s>' % t[1]['name'])
        elif len(t) > 1:
            out.append('%s(%s)' % (t[0].lower(), t[1]))
        else:
            out.append(t[0].lower())
    return ' '.join(out)


def fmt_items(events):
    out = []
    for e in events:
        if e[0] == 'ITEM':
            out.append(item_text(e[1:]))
        elif e[0] in ('REP_BEGIN', 'REP_END'):
            out.append(e[0].lower())
    return '[' + ', '.join(out) + ']'


def presence_of(st, fields, generics=()):
    """{field name: True/False/None} decided on this path"""
    ch = summaries.choices(st)
    kn = st.extra.get('known') or {}
    res = {}
    for f in fields:
        if f['skip']:
            continue
        fk = field_key(f, None)
        if f['ty'].startswith('Option<'):
            c = ch.get('self*.' + fk)
            res[f['name']] = None if c is None else (c == 'Some')
        elif f['codec'] == 'custom_nil' or f['ty'] in generics:
            # custom is_nil / generic parameter: nil-ness is whatever is_nil says
            v = kn.get('is_nil(self*.%s)' % fk)
            res[f['name']] = None if v is None else (v == 0)
        else:
            res[f['name']] = True
    return res


def variant_of(s, st):
    if s['kind'] != 'enum':
        return None
    c = summaries.choices(st).get('self*')
    for v in s['variants']:
        if v['name'] == c:
            return v
    return None


def pv_key(pres):
    return ','.join('%s=%s' % (k, {True: '1', False: '0', None: '?'}[v]) for k, v in sorted(pres.items()))


def c08(ctx, schemas=None, prog=None):
    d = corpus()
    prog = prog or load.program('schemas')
    n = 0
    roots = 0
    for s in (schemas or d['schemas']):
        label = s['name']
        r = summaries.summary(prog, enc_path(s), 'enc', LEAF)
        if r is None:
            ctx.fail_closed('S-ENC.derive', 'derived Encode for %s not found in the export' % label)
            continue
        if r[0] == 'abort':
            ctx.fail_closed('S-ENC.derive', '%s cannot be summarised: %s' % (label, r[1]))
            continue
        inst, outs, m = r
        roots += 1
        where = 'derive(Encode) on %s [%s]' % (label, s.get('doc') or s['kind'])
        for o in outs:
            if o.kind != 'return':
                ctx.violation('S-ENC.derive.total', label, 'path does not return: %s' % o.why, where)
                continue
            if l1.result_kind(o.value) != 'Ok':
                continue
            v = variant_of(s, o.st)
            if s['kind'] == 'enum' and v is None:
                ctx.violation('S-ENC.derive', label + '|variant', 'a path does not determine the variant', where)
                continue
            fields = v['fields'] if v is not None else s['fields']
            for f_ in fields:
                f_['_generic'] = f_['ty'] in (s.get('generics') or ())
            pres = presence_of(o.st, fields, s.get('generics') or ())
            n += 1
            key = '%s|%s|%s' % (label, v['name'] if v else '-', pv_key(pres))
            fl = summaries.bad_flags(o.st)
            unknown = [k for k, val in pres.items() if val is None]
            # an optional field whose presence the code never inspected: its output must be right for both cases
            cases = [pres]
            for u in unknown:
                cases = [dict(c, **{u: b}) for c in cases for b in (True, False)]
            problem = None
            for c in cases:
                toks = reference(s, v, lambda f, c=c: bool(c.get(f['name'], True)))
                why = match_stream(o.st.events, toks)
                if why:
                    problem = (why, toks, c)
                    break
            if problem:
                why, toks, c = problem
                ctx.violation('S-ENC.derive', key, '%s; emitted %s, documented format is [%s]' % (why, fmt_items(o.st.events), fmt_toks(toks)), where)
            elif fl:
                ctx.violation('S-ENC.derive.precision', label, 'summary not exact (%s)' % ','.join(fl), where)
            else:
                ctx.ok('S-ENC.derive', key)
                if label in ('A03', 'M02', 'E05'):
                    ctx.sample({'schema': label, 'presence': pv_key(pres), 'emitted': fmt_items(o.st.events)})
    ctx.count('S-ENC.derive.cases', n)
    ctx.floor('S-ENC.derive', 'schemas', roots, min(60, len(schemas or d['schemas'])))
    return n


def c07(ctx, schemas=None, prog=None):
    d = corpus()
    prog = prog or load.program('schemas')
    n = 0
    roots = 0
    for s in (schemas or d['schemas']):
        where = 'derive(CborLen) on %s [%s]' % (s['name'], s.get('doc') or s['kind'])
        k = summaries.compare_len_enc(ctx, 'S-LEN.derive', s['name'], prog, enc_path(s), len_path(s), LEAF, where=where)
        n += k
        roots += 1 if k else 0
    ctx.floor('S-LEN.derive', 'schemas', roots, min(60, len(schemas or d['schemas'])))
    return n
