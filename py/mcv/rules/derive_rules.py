"""Rules over the generated derive corpus (harness/schemas): C07 (derived), C08, C09, C10."""
import json, os, re
from ..absint import Int, Atom, Adt, Abort
from .. import load, l1, l2, mir
from . import summaries

VERIF = os.path.abspath(os.path.join(os.path.dirname(__file__), '..', '..', '..'))
CRATE = 'mcv_schemas'
LEAF = (CRATE,)
CONFIG = 'schemas'
CORPUS_DIR = 'schemas'


def set_corpus(which):
    """'fixed' = the hand-enumerated template corpus (harness/schemas); 'rand' = 160 random schemas (harness/schemas-rand, thorough tier)"""
    global CRATE, LEAF, CONFIG, CORPUS_DIR
    if which == 'rand':
        CRATE, CONFIG, CORPUS_DIR = 'mcv_schemas_rand', 'schemas-rand', 'schemas-rand'
    else:
        CRATE, CONFIG, CORPUS_DIR = 'mcv_schemas', 'schemas', 'schemas'
    LEAF = (CRATE,)

INT_T = ('u8', 'u16', 'u32', 'u64', 'i8', 'i16', 'i32', 'i64')


def corpus():
    d = json.load(open(os.path.join(VERIF, 'harness', CORPUS_DIR, 'schemas.json')))

    def norm(fields):
        for f in fields or ():
            # `core::option::Option<T>` / `std::option::Option<T>` is the same type as `Option<T>` (and the derive, which looks at
            # the last path segment, treats it so): the rules see one spelling
            f['ty'] = re.sub(r'(?<![A-Za-z0-9_:])(?:core|std)::option::Option<', 'Option<', f['ty'])
    for s_ in list(d.get('schemas', [])) + [x for p_ in d.get('pairs', []) for x in (p_ if isinstance(p_, list) else [p_.get('a'), p_.get('b')]) if isinstance(x, dict)]:
        norm(s_.get('fields'))
        for v in s_.get('variants') or ():
            norm(v.get('fields'))
    return d


def on_random(ctx, fn):
    """thorough tier: the same rule over the random corpus"""
    set_corpus('rand')
    summaries._cache.clear()
    try:
        ctx.rules_run.append('... and over 160 random schemas (harness/schemas-rand: random kinds, encodings, index permutations with gaps, optional/tagged fields, enum variant shapes)')
        return fn(ctx)
    finally:
        set_corpus('fixed')
        summaries._cache.clear()


def tyname(s):
    g = []
    if s.get('lifetimes'):
        g.append("'a")
    g += s.get('generics', [])
    return '%s::%s%s' % (CRATE, s['name'], ('<%s>' % ', '.join(g)) if g else '')


def enc_path(s):
    return '<%s as minicbor::encode::Encode<Ctx>>::encode' % tyname(s)


def len_path(s):
    return '<%s as minicbor::encode::CborLen<Ctx>>::cbor_len' % tyname(s)


def dec_path(s):
    return "<%s as minicbor::decode::Decode<'bytes, Ctx>>::decode" % tyname(s)


def custom_nil(f):
    """the field's nil-ness is defined by its codec (every spelling of encode_with + is_nil / decode_with + nil, with + has_nil)"""
    return bool(f['codec']) and f['codec'].startswith('custom_nil')


def is_optional(f):
    return f['ty'].startswith('Option<') or custom_nil(f) or bool(f.get('nilable'))


def core_ty(ty):
    """(tags, innermost type) of a field type after removing the wrappers that do not change the encoding"""
    tags = []
    while True:
        ty = ty.strip()
        m = re.match(r'^(?:Option|Box)<(.*)>$', ty)
        if m:
            ty = m.group(1)
            continue
        m = re.match(r'^Tagged<(\d+),\s*(.*)>$', ty)
        if m:
            tags.append(int(m.group(1)))
            ty = m.group(2)
            continue
        if ty == 'OptAlias':
            ty = 'u16'
            continue
        return tags, ty


def inner_none(ch, fk):
    """the writer's value of field fk holds a None *inside* a wrapper (Box<Option>, Tagged<N, Option>, transparent newtype)"""
    top = 'self*.' + fk
    return any(v == 'None' and k != top and origin_ok(k, fk) for k, v in ch.items())


def field_key(f, pos):
    """name of the field as the analysis sees it (ADT field name)"""
    return f['name'][1:] if f['name'].startswith('_') else f['name']


def live_fields(fields):
    return sorted([f for f in fields if not f['skip']], key=lambda f: f['idx'])


# ---------------------------------------------------------------------------
# reference format (minicbor-derive documentation, section "CBOR encoding")

D5_KEY = 'D5|absent tagged optional inside an array is written as tag+null'


def ref_fields(fields, enc, present, d5=False):
    fs = live_fields(fields)
    toks = []
    if enc == 'map':
        ps = [f for f in fs if present(f)]
        toks.append(('MAP', len(ps)))
        for f in ps:
            toks.append(('IDX', f['idx']))
            if f['tag'] is not None:
                toks.append(('TAG', f['tag']))
            toks.append(('VAL', f))
        return toks
    ps = [f for f in fs if present(f)]
    if not ps:
        return [('ARRAY', 0)]
    m = max(f['idx'] for f in ps)
    toks.append(('ARRAY', m + 1))
    by = dict((f['idx'], f) for f in fs)
    for i in range(m + 1):
        f = by.get(i)
        if f is not None and present(f):
            if f['tag'] is not None:
                toks.append(('TAG', f['tag']))
            toks.append(('VAL', f))
        elif d5 and f is not None and f['tag'] is not None:
            toks.append(('TAG', f['tag']))
            toks.append(('NULL',))
        elif f is not None and (custom_nil(f) or f.get('_generic')):
            # a nil value of a type with an opaque is_nil/encode pair: the slot holds whatever that type writes for nil
            toks.append(('NULL_OR_VAL', f))
        else:
            toks.append(('NULL',))
    return toks


def reference(s, variant, present, d5=False):
    toks = []
    if s.get('transparent'):
        f0 = s['fields'][0]
        return [('VAL', f0)] if present(f0) else [('NULL',)]      # transparent = the field's own encoding; None is null
    if s.get('tag') is not None:
        toks.append(('TAG', s['tag']))
    if s['kind'] != 'enum':
        enc = s.get('enc') or 'array'
        return toks + ref_fields(s['fields'], enc, present, d5)
    v = variant
    if s.get('index_only'):
        return toks + [('IDX', v['idx'])]
    toks += [('ARRAY', 2), ('IDX', v['idx'])]
    if v.get('tag') is not None:
        toks.append(('TAG', v['tag']))
    enc = v.get('enc') or s.get('enc') or 'array'
    if v['kind'] == 'unit':
        toks.append(('MAP', 0) if enc == 'map' else ('ARRAY', 0))
        return toks
    return toks + ref_fields(v['fields'], enc, present, d5)


# ---------------------------------------------------------------------------
# matching the emission summary against reference tokens

def origin_ok(text, fname):
    return re.search(r'self\*\.%s(?![0-9A-Za-z_])' % re.escape(fname), text) is not None


def parse_tree(events, i):
    """consume one item tree starting at events[i]; returns (next index, list of items in the tree) or (None, reason)"""
    n = len(events)
    if i >= n:
        return None, 'stream ends'
    e = events[i]
    if e[0] != 'ITEM':
        return None, 'unexpected %r' % (e,)
    it = e[1:]
    k = it[0]
    if k == 'TAG':
        j, sub = parse_tree(events, i + 1)
        if j is None:
            return None, sub
        return j, [it] + sub
    if k in ('ARRAY', 'MAP'):
        cnt = it[1]
        mult = 2 if k == 'MAP' else 1
        if isinstance(cnt, Int) and cnt.is_const():
            j = i + 1
            items = [it]
            for _ in range(cnt.c * mult):
                j2, sub = parse_tree(events, j)
                if j2 is None:
                    return None, sub
                items += sub
                j = j2
            return j, items
        # symbolic count: must be followed by one representative iteration block (or nothing if the loop is elided)
        if i + 1 < n and events[i + 1][0] == 'REP_BEGIN':
            j = i + 2
            items = [it]
            for _ in range(mult):
                j2, sub = parse_tree(events, j)
                if j2 is None:
                    return None, sub
                items += sub
                j = j2
            if j < n and events[j][0] == 'REP_END':
                return j + 1, items
            return None, 'iteration block emits more than one element per step'
        return None, 'container with symbolic length %r without an element loop' % (cnt,)
    if k == 'BEGIN':
        j = i + 1
        items = [it]
        while j < n and not (events[j][0] == 'ITEM' and events[j][1] == 'BREAK'):
            if events[j][0] in ('REP_BEGIN', 'REP_END'):
                j += 1
                continue
            j2, sub = parse_tree(events, j)
            if j2 is None:
                return None, sub
            items += sub
            j = j2
        if j >= n:
            return None, 'indefinite container without break'
        return j + 1, items + [('BREAK',)]
    if k == 'BREAK':
        return None, 'unbalanced break'
    return i + 1, [it]


def item_text(it):
    return ' '.join(repr(x) for x in it)


def leaf_kind_ok(f, items):
    """light type check of the first item of a field value against the declared field type"""
    tags, ty = core_ty(f['ty'])
    for tg in tags:
        if not (items and items[0][0] == 'TAG' and isinstance(items[0][1], Int) and items[0][1].is_const() and items[0][1].c == tg):
            return False
        items = items[1:]
    if not items:
        return False
    first = items[0]
    k = first[0]
    if k == 'NULL' and (re.search(r'(Box|Tagged)<.*Option<', f['ty']) or (f.get('nilable') and f['codec'])):
        return True       # a None inside a wrapper that is not itself nil: written as an explicit null
    if f['codec'] == 'bytes':
        return k == 'BYTES' or (k == 'ENC')
    if f['codec'] == 'custom' or custom_nil(f):
        return k == 'ENC' and str(first[1]).startswith('custom:')
    if ty in INT_T:
        return k == 'INT' and first[1] == ty
    if ty == 'bool':
        return k == 'BOOL'
    if ty == 'char':
        return k == 'CHAR'
    if ty == 'f32':
        return k == 'F32'
    if ty == 'f64':
        return k == 'F64'
    if 'ByteSlice' in ty:
        return k == 'BYTES'
    if ty in ('String', "&'a str") or re.match(r'^(::)?(\w+::)*Cow<', ty):
        return k == 'STR'
    if ty.startswith('Vec<'):
        return k == 'ARRAY'
    return k == 'ENC'


def match_stream(events, toks):
    """returns None if the emission equals the reference, else a reason"""
    ev = [e for e in events if e[0] in ('ITEM', 'REP_BEGIN', 'REP_END')]
    i = 0
    for t in toks:
        if t[0] == 'VAL':
            f = t[1]
            j, items = parse_tree(ev, i)
            if j is None:
                return 'field %s: %s' % (f['name'], items)
            fk = field_key(f, None)
            bad = [it for it in items if it[0] not in ('ARRAY', 'MAP', 'TAG', 'NULL', 'BREAK', 'BEGIN') and not origin_ok(item_text(it), fk)]
            if bad:
                return 'slot of field %s (index %d) holds %s' % (f['name'], f['idx'], item_text(bad[0]))
            if items[0][0] == 'NULL' and not f['ty'].startswith('Option<Option') and not re.search(r'(Box|Tagged)<.*Option<', f['ty']) and not (f.get('nilable') and f['codec']):
                return 'field %s (index %d) is present but null is written' % (f['name'], f['idx'])
            if not leaf_kind_ok(f, items):
                return 'field %s: value written as %s, declared type %s' % (f['name'], item_text(items[0]), f['ty'])
            i = j
            continue
        if i >= len(ev) or ev[i][0] != 'ITEM':
            return 'expected %r, stream ends' % (t,)
        it = ev[i][1:]
        if t[0] in ('ARRAY', 'MAP', 'TAG'):
            if not (it[0] == t[0] and isinstance(it[1], Int) and it[1].is_const() and it[1].c == t[1]):
                return 'expected %s(%d), found %s' % (t[0].lower(), t[1], item_text(it))
        elif t[0] == 'IDX':
            if not (it[0] == 'INT' and isinstance(it[2], Int) and it[2].is_const() and it[2].c == t[1]):
                return 'expected index %d, found %s' % (t[1], item_text(it))
        elif t[0] == 'NULL_OR_VAL':
            if it[0] != 'NULL':
                j, items = parse_tree(ev, i)
                if j is None or not all(origin_ok(item_text(x), field_key(t[1], None)) for x in items if x[0] == 'ENC'):
                    return 'slot of nil field %s holds %s' % (t[1]['name'], item_text(it))
                i = j
                continue
        elif t[0] == 'NULL':
            if it[0] != 'NULL':
                return 'expected null (gap or absent optional), found %s' % item_text(it)
        i += 1
    if i != len(ev):
        return 'extra output after the value: %s' % item_text(ev[i][1:] if ev[i][0] == 'ITEM' else ev[i])
    return None


def fmt_toks(toks):
    out = []
    for t in toks:
        if t[0] in ('VAL', 'NULL_OR_VAL'):
            out.append('<%s>' % t[1]['name'])
        elif len(t) > 1:
            out.append('%s(%s)' % (t[0].lower(), t[1]))
        else:
            out.append(t[0].lower())
    return ' '.join(out)


def fmt_items(events):
    out = []
    for e in events:
        if e[0] == 'ITEM':
            out.append(item_text(e[1:]))
        elif e[0] in ('REP_BEGIN', 'REP_END'):
            out.append(e[0].lower())
    return '[' + ', '.join(out) + ']'


def presence_of(st, fields, generics=()):
    """{field name: True/False/None} decided on this path"""
    ch = summaries.choices(st)
    kn = st.extra.get('known') or {}
    res = {}
    for f in fields:
        if f['skip']:
            continue
        fk = field_key(f, None)
        if custom_nil(f) or f['ty'] in generics:
            # custom is_nil / generic parameter: nil-ness is whatever is_nil says
            v = kn.get('is_nil(self*.%s)' % fk)
            res[f['name']] = None if v is None else (v == 0)
        elif f.get('nilable') and f['codec']:
            # not spelled Option<..> and a codec without is_nil: the generated code never treats the field as nil
            # (minicbor-derive encode.rs `is_nil`: `|_| false`), in Encode and CborLen alike; a None is written as its own null
            res[f['name']] = True
        elif f['ty'].startswith('Option<') or f.get('nilable'):
            c = ch.get('self*.' + fk)
            res[f['name']] = None if c is None else (c == 'Some')
        else:
            res[f['name']] = True
    return res


def variant_of(s, st):
    if s['kind'] != 'enum':
        return None
    c = summaries.choices(st).get('self*')
    for v in s['variants']:
        if v['name'] == c:
            return v
    if len(s['variants']) == 1:
        return s['variants'][0]      # a one-variant enum has no discriminant to branch on
    return None


def pv_key(pres):
    return ','.join('%s=%s' % (k, {True: '1', False: '0', None: '?'}[v]) for k, v in sorted(pres.items()))


def c08(ctx, schemas=None, prog=None):
    d = corpus()
    prog = prog or load.program(CONFIG)
    n = 0
    roots = 0
    for s in (schemas or d['schemas']):
        label = s['name']
        r = summaries.summary(prog, enc_path(s), 'enc', LEAF)
        if r is None:
            ctx.fail_closed('S-ENC.derive', 'derived Encode for %s not found in the export' % label)
            continue
        if r[0] == 'abort':
            ctx.fail_closed('S-ENC.derive', '%s cannot be summarised: %s' % (label, r[1]))
            continue
        inst, outs, m = r
        roots += 1
        where = 'derive(Encode) on %s [%s]' % (label, s.get('doc') or s['kind'])
        for o in outs:
            if o.kind != 'return':
                ctx.violation('S-ENC.derive.total', label, 'path does not return: %s' % o.why, where)
                continue
            if l1.result_kind(o.value) != 'Ok':
                continue
            v = variant_of(s, o.st)
            if s['kind'] == 'enum' and v is None:
                ctx.violation('S-ENC.derive', label + '|variant', 'a path does not determine the variant', where)
                continue
            fields = v['fields'] if v is not None else s['fields']
            for f_ in fields:
                f_['_generic'] = f_['ty'] in (s.get('generics') or ())
            pres = presence_of(o.st, fields, s.get('generics') or ())
            n += 1
            key = '%s|%s|%s' % (label, v['name'] if v else '-', pv_key(pres))
            fl = summaries.bad_flags(o.st)
            unknown = [k for k, val in pres.items() if val is None]
            # an optional field whose presence the code never inspected: its output must be right for both cases
            cases = [pres]
            for u in unknown:
                cases = [dict(c, **{u: b}) for c in cases for b in (True, False)]
            problem = None
            for c in cases:
                toks = reference(s, v, lambda f, c=c: bool(c.get(f['name'], True)))
                why = match_stream(o.st.events, toks)
                if why:
                    problem = (why, toks, c)
                    break
            if problem:
                why, toks, c = problem
                toks5 = reference(s, v, lambda f, c=c: bool(c.get(f['name'], True)), d5=True)
                if toks5 != toks and match_stream(o.st.events, toks5) is None:
                    ctx.violation('S-ENC.derive', D5_KEY, 'schema %s {%s}: %s; emitted %s, documented format is [%s]' % (label, pv_key(pres), why, fmt_items(o.st.events), fmt_toks(toks)), where)
                    continue
                ctx.violation('S-ENC.derive', key, '%s; emitted %s, documented format is [%s]' % (why, fmt_items(o.st.events), fmt_toks(toks)), where)
            elif fl:
                ctx.violation('S-ENC.derive.precision', label, 'summary not exact (%s)' % ','.join(fl), where)
            else:
                ctx.ok('S-ENC.derive', key)
                if label in ('A03', 'M02', 'E05'):
                    ctx.sample({'schema': label, 'presence': pv_key(pres), 'emitted': fmt_items(o.st.events)})
    ctx.count('S-ENC.derive.cases', n)
    ctx.floor('S-ENC.derive', 'schemas', roots, min(60, len(schemas or d['schemas'])))
    return n


def classify_d5_len(m, st, events, total, value):
    """a length mismatch that is exactly the tag bytes of absent tagged optionals written as tag+null inside an array"""
    from ..absint import lin_add
    ev = [e for e in events if e[0] == 'ITEM']
    extra = Int.const(0)
    for a, b in zip(ev, ev[1:]):
        if a[1] == 'TAG' and b[1] == 'NULL' and isinstance(a[2], Int) and a[2].is_const():
            extra = lin_add(extra, l2.hl_term(m, st, a[2]), 1)
    if extra.is_const() and extra.c > 0 and lin_add(value, extra, 1) == total:
        return D5_KEY
    return None


def c07(ctx, schemas=None, prog=None):
    d = corpus()
    prog = prog or load.program(CONFIG)
    n = 0
    roots = 0
    for s in (schemas or d['schemas']):
        where = 'derive(CborLen) on %s [%s]' % (s['name'], s.get('doc') or s['kind'])
        k = summaries.compare_len_enc(ctx, 'S-LEN.derive', s['name'], prog, enc_path(s), len_path(s), LEAF, where=where, classify=classify_d5_len)
        n += k
        roots += 1 if k else 0
    ctx.floor('S-LEN.derive', 'schemas', roots, min(60, len(schemas or d['schemas'])))
    return n


# ---------------------------------------------------------------------------
# C09: derived decode run over the derived emission

ALLOWED_OPAQUE = ('opaque:std::vec::Vec::<T, A>::push', 'opaque:alloc::vec::Vec::<T, A>::push')


def decoded_fields(prog, s, v, value):
    """{field name: decoded value} from an Ok(struct/enum) decode result"""
    if not isinstance(value, Adt):
        return None
    ad = prog.adts.get(value.adt)
    if ad is None:
        return None
    var = ad['variants'][value.variant]
    return dict(zip(var['fields'], value.fields)), var['name']


def val_is_none(x):
    return isinstance(x, Adt) and x.adt.endswith('option::Option') and x.variant == 0


def val_is_some(x):
    return isinstance(x, Adt) and x.adt.endswith('option::Option') and x.variant == 1


def reframe(events, lead):
    """replace the definite container that starts after `lead` leading items by an indefinite one"""
    ev = [e for e in events if e[0] in ('ITEM', 'REP_BEGIN', 'REP_END')]
    if lead >= len(ev) or ev[lead][0] != 'ITEM' or ev[lead][1] not in ('ARRAY', 'MAP'):
        return None
    head = ev[lead]
    if not (isinstance(head[2], Int) and head[2].is_const()):
        return None
    j, _ = parse_tree(ev, lead)
    if j is None:
        return None
    return ev[:lead] + [('ITEM', 'BEGIN', head[1].lower())] + ev[lead + 1:j] + [('ITEM', 'BREAK')] + ev[j:]


def lead_items(s, v):
    n = 1 if s.get('tag') is not None else 0
    if s['kind'] == 'enum':
        if s.get('index_only'):
            return None
        n += 2
        if v.get('tag') is not None:
            n += 1
    return n


def check_decode_over(ctx, rule, key, prog, s, dpath, events, expect, where, leaf=None, from_state=None):
    leaf = LEAF if leaf is None else leaf
    """run the derived decoder of schema s over `events`; `expect` maps field name -> ('origin', writer field key) | ('none',) | ('default',) | ('any',)
    returns True when everything matched"""
    try:
        r = l2.run_decode(prog, dpath, events, leaf, from_state=from_state)
    except Abort as e:
        ctx.fail_closed(rule, '%s: decoder cannot be summarised: %s' % (s['name'], e))
        return False
    if r is None:
        ctx.fail_closed(rule, 'derived Decode for %s not found' % s['name'])
        return False
    inst, outs, m = r
    good = True
    n_ok = 0
    nil_known = from_state is not None and any(k.startswith('is_nil(') and v == 1 for k, v in (from_state.extra.get('known') or {}).items())
    for o in outs:
        if o.kind != 'return':
            ctx.violation(rule + '.total', key, 'decode path does not return: %s' % o.why, where)
            good = False
            continue
        kind = l1.result_kind(o.value)
        ch = summaries.choices(o.st)
        if nil_known and any(k.startswith('nil') and v == 'None' for k, v in ch.items()):
            # the writer treated a value of an opaque type as nil, so by the is_nil/nil contract that type's nil() is Some
            continue
        if kind != 'Ok':
            cls = l1.error_class(prog, o.value.fields[0]) if isinstance(o.value, Adt) and o.value.fields else '?'
            mm = [e for e in o.st.events if e[0] == 'MISMATCH']
            if mm and mm[0][1] == 'tag' and mm[0][2] is not None and mm[0][2][0] == 'ITEM' and mm[0][2][1] == 'NULL':
                ctx.violation(rule, D5_KEY, '%s: the reader expects a tag where the writer left a plain null (absent optional / gap): %s' % (key, cls), where)
                good = False
                continue
            ctx.violation(rule, key + '|error', 'decoding fails with %s%s' % (cls, (' at ' + repr(mm[0][1:3])[:160]) if mm else ''), where)
            good = False
            continue
        n_ok += 1
        if l2.cur(o.st) != len(l2.stream(o.st)):
            rest = l2.stream(o.st)[l2.cur(o.st):]
            ctx.violation(rule, key + '|consumption', 'decoding succeeds but leaves %d item(s) unread: %s' % (len(rest), fmt_items(rest)[:160]), where)
            good = False
            continue
        fl = [f for f in summaries.bad_flags(o.st) if f not in ALLOWED_OPAQUE]
        df = decoded_fields(prog, s, None, o.value.fields[0])
        if df is None:
            ctx.violation(rule, key + '|value', 'decoded value is %r' % (o.value.fields[0],), where)
            good = False
            continue
        fields, vname_ = df
        if expect.get('__variant__') not in (None, vname_):
            ctx.violation(rule, key + '|variant', 'decoded variant %s, expected %s' % (vname_, expect['__variant__']), where)
            good = False
            continue
        for fname, exp in expect.items():
            if fname == '__variant__':
                continue
            got = fields.get(fname)
            if got is None:
                ctx.violation(rule, key + '|field', 'field %s missing from the decoded value' % fname, where)
                good = False
                continue
            if exp[0] == 'origin':
                txt = repr(got)
                if val_is_none(got) or not origin_ok(txt, exp[1]):
                    ctx.violation(rule, key + '|field:' + fname, 'field %s decodes to %s, expected the value written for index-mate %s' % (fname, txt[:80], exp[1]), where)
                    good = False
                elif exp[2] and not txt.startswith(exp[2]):
                    ctx.violation(rule, key + '|borrow:' + fname, 'field %s should borrow from the input (%s...), got %s' % (fname, exp[2], txt[:80]), where)
                    good = False
            elif exp[0] == 'inner-none':
                txt = repr(got)
                if val_is_none(got) or 'Option#0()' not in txt:
                    ctx.violation(rule, key + '|field:' + fname, 'field %s decodes to %s, expected the written value (a None inside its wrapper)' % (fname, txt[:80]), where)
                    good = False
            elif exp[0] == 'variant':
                inner_v = got.fields[0] if val_is_some(got) else None
                adv = prog.adts.get(inner_v.adt) if isinstance(inner_v, Adt) else None
                nm_ = adv['variants'][inner_v.variant]['name'] if adv else None
                if nm_ != exp[1]:
                    ctx.violation(rule, key + '|field:' + fname, 'enum field %s decodes to %s, expected variant %s' % (fname, repr(got)[:80], exp[1]), where)
                    good = False
            elif exp[0] == 'none':
                if not val_is_none(got) and not (isinstance(got, Atom) and got.name.startswith(('nil', 'z'))):
                    ctx.violation(rule, key + '|field:' + fname, 'absent optional field %s decodes to %s instead of its nil value' % (fname, repr(got)[:80]), where)
                    good = False
            elif exp[0] == 'default':
                if 'default' not in repr(got):
                    ctx.violation(rule, key + '|field:' + fname, 'skipped field %s is %s, expected Default::default()' % (fname, repr(got)[:80]), where)
                    good = False
        if fl:
            ctx.violation(rule + '.precision', s['name'], 'decode summary not exact (%s)' % ','.join(fl), where)
            good = False
    if n_ok == 0 and good:
        ctx.violation(rule, key + '|nopath', 'no successful decode path', where)
        good = False
    return good


def expectation(s, v, pres, fields=None, ch=None):
    exp = {}
    ch = ch or {}
    fields = fields if fields is not None else (v['fields'] if v is not None else s['fields'])
    if v is not None:
        exp['__variant__'] = v['name']
    for f in fields:
        fk = field_key(f, None)
        if f['skip']:
            exp[fk] = ('default',)
        elif f['ty'].startswith('Vec<') and f['codec'] is None:
            exp[fk] = ('any',)   # collection contents are summarised by one representative element (consumption is still checked)
        elif pres.get(f['name'], True):
            borrow = None
            if f['b'] and re.match(r'^(::)?(\w+::)*Cow<', f['ty']):     # however the path to Cow is spelled
                borrow = 'Cow#0'
            if f.get('nilable') and f['codec'] and ch.get('self*.' + fk) == 'None':
                exp[fk] = ('none',)     # written as an explicit null, read back as None
            elif inner_none(ch, fk):
                exp[fk] = ('inner-none', fk)
            else:
                exp[fk] = ('origin', fk, borrow)
        else:
            exp[fk] = ('none',) if (f['ty'].startswith('Option<') and f['codec'] != 'custom_nil_opt') or f.get('nilable') else ('any',)
    return exp


def nil_pair(ctx, prog, krates, rule='NIL-PAIR'):
    """A type whose Encode impl overrides is_nil (so derived encoders may omit its nil value) and which also implements Decode
    must override Decode::nil as well - otherwise a derived decoder reports the omitted field as missing (documented on
    Encode::is_nil).  Decided from the impl tables: which provided methods each impl overrides."""
    enc = dict((i['self_ty'], i) for i in prog.impls if i['trait'] in ('minicbor::encode::Encode', 'minicbor::bytes::EncodeBytes') and i['krate'] in krates)
    dec = dict((i['self_ty'], i) for i in prog.impls if i['trait'] in ('minicbor::decode::Decode', 'minicbor::bytes::DecodeBytes') and i['krate'] in krates)
    n = 0
    for t in sorted(set(enc) & set(dec)):
        n += 1
        e_nil = 'is_nil' in (enc[t].get('items') or [])
        d_nil = 'nil' in (dec[t].get('items') or [])
        if e_nil and not d_nil:
            ctx.violation(rule, t, 'Encode for %s overrides is_nil but Decode does not override nil: a nil value of this type in a derived struct is omitted by the writer and reported as a missing field by the reader' % t,
                          mir.loc(enc[t].get('sp')))
        else:
            ctx.ok(rule, t, nontrivial=e_nil or d_nil)
    return n


def c09(ctx, schemas=None, prog=None):
    d = corpus()
    prog = prog or load.program(CONFIG)
    n = 0
    roots = 0
    for s in (schemas or d['schemas']):
        label = s['name']
        r = summaries.summary(prog, enc_path(s), 'enc', LEAF)
        if r is None or r[0] == 'abort':
            ctx.fail_closed('S-RT.derive', 'derived Encode for %s not summarised' % label)
            continue
        inst, outs, m = r
        roots += 1
        where = 'derive(Encode, Decode) on %s [%s]' % (label, s.get('doc') or s['kind'])
        for o in outs:
            if o.kind != 'return' or l1.result_kind(o.value) != 'Ok':
                continue
            v = variant_of(s, o.st)
            fields = v['fields'] if v is not None else s['fields']
            pres = presence_of(o.st, fields, s.get('generics') or ())
            for k_ in list(pres):
                if pres[k_] is None:
                    pres[k_] = True
            key = '%s|%s|%s' % (label, v['name'] if v else '-', pv_key(pres))
            exp = expectation(s, v, pres, ch=summaries.choices(o.st))
            n += 1
            if check_decode_over(ctx, 'S-RT.derive', key, prog, s, dec_path(s), o.st.events, exp, where, from_state=o.st):
                ctx.ok('S-RT.derive', key)
            # re-framing: the type's own container written with indefinite length
            lead = lead_items(s, v) if not s.get('transparent') else None
            if lead is not None:
                ev2 = reframe(o.st.events, lead)
                if ev2 is not None:
                    n += 1
                    if check_decode_over(ctx, 'S-RT.indef', key + '|indef', prog, s, dec_path(s), ev2, exp, where, from_state=o.st):
                        ctx.ok('S-RT.indef', key)
    ctx.count('S-RT.derive.cases', n)
    ctx.floor('S-RT.derive', 'schemas', roots, min(60, len(schemas or d['schemas'])))
    return n


# ---------------------------------------------------------------------------
# C09 error clauses: tampered streams must be rejected

def first_items(events):
    return [e for e in events if e[0] in ('ITEM', 'REP_BEGIN', 'REP_END')]


def all_rejected(prog, s, events, from_state, leaf=None):
    leaf = LEAF if leaf is None else leaf
    """(True, classes) if no decode path succeeds on `events`"""
    r = l2.run_decode(prog, dec_path(s), events, leaf, from_state=from_state)
    if r is None:
        return None, []
    inst, outs, m = r
    classes = []
    ok_ = False
    for o in outs:
        if o.kind == 'return' and l1.result_kind(o.value) == 'Ok':
            ok_ = True
        elif o.kind == 'return' and isinstance(o.value, Adt) and o.value.fields:
            classes.append(l1.error_class(prog, o.value.fields[0]))
    return (not ok_), classes


def c09_errors(ctx, schemas=None, prog=None, collect=None):
    """collect: optional dict, filled with probe key -> sorted error classes (C20 compares them between configurations)"""
    d = corpus()
    prog = prog or load.program(CONFIG)
    n = 0
    for s in (schemas or d['schemas']):
        label = s['name']
        r = summaries.summary(prog, enc_path(s), 'enc', LEAF)
        if r is None or r[0] == 'abort':
            continue
        inst, outs, m = r
        where = 'derive(Decode) on %s [%s]' % (label, s.get('doc') or s['kind'])
        done = set()
        for o in outs:
            if o.kind != 'return' or l1.result_kind(o.value) != 'Ok':
                continue
            ev = first_items(o.st.events)
            v = variant_of(s, o.st)
            vk = v['name'] if v else '-'
            # (1) every tag constant of the type's own framing: changed / removed
            lead = 0
            tagpos = []
            if s.get('tag') is not None and not s.get('transparent'):
                tagpos.append(0)
            if v is not None and v.get('tag') is not None and not s.get('index_only'):
                tagpos.append((1 if s.get('tag') is not None else 0) + 2)
            for tp in tagpos:
                if (label, vk, 'tag', tp) in done:
                    continue
                done.add((label, vk, 'tag', tp))
                if tp >= len(ev) or ev[tp][1] != 'TAG':
                    ctx.violation('S-ERR.tag', '%s|%s|tagpos' % (label, vk), 'expected a tag at item %d of the emission, found %s' % (tp, item_text(ev[tp][1:]) if tp < len(ev) else 'nothing'), where)
                    continue
                changed = ev[:tp] + [('ITEM', 'TAG', Int.const(ev[tp][2].c + 1 if ev[tp][2].c < (1 << 64) - 1 else ev[tp][2].c - 1))] + ev[tp + 1:]
                removed = ev[:tp] + ev[tp + 1:]
                for what, stream_ in (('wrong', changed), ('missing', removed)):
                    n += 1
                    rej, classes = all_rejected(prog, s, stream_, o.st)
                    key = '%s|%s|%s-tag@%d' % (label, vk, what, tp)
                    if collect is not None:
                        collect[key] = ('rejected' if rej else 'accepted', tuple(sorted(set(classes))))
                    if rej:
                        ctx.ok('S-ERR.tag', key)
                    else:
                        ctx.violation('S-ERR.tag', key, 'a %s tag is accepted (decoding succeeds)' % what, where)
            # (2) unknown variant index at top level
            if s['kind'] == 'enum' and (label, 'idx') not in done:
                done.add((label, 'idx'))
                pos = (1 if s.get('tag') is not None else 0) + (0 if s.get('index_only') else 1)
                used = set(x['idx'] for x in s['variants'])
                bad = max(used) + 1
                if bad > 0xffffffff:     # an index is a u32: probe with an undeclared one that can be written
                    bad = min(x for x in range(len(used) + 1) if x not in used)
                if pos < len(ev) and ev[pos][1] == 'INT':
                    st2 = ev[:pos] + [('ITEM', 'INT', 'u32', Int.const(bad))] + ev[pos + 1:]
                    n += 1
                    rej, classes = all_rejected(prog, s, st2, o.st)
                    if collect is not None:
                        collect['%s|unknown-variant' % label] = ('rejected' if rej else 'accepted', tuple(sorted(set(classes))))
                    if rej and 'UnknownVariant' in classes:
                        ctx.ok('S-ERR.variant', label)
                    else:
                        ctx.violation('S-ERR.variant', label, 'variant index %d is not declared but decoding yields %s' % (bad, 'a value' if not rej else classes), where)
            # (3) a mandatory field removed (map encoding: drop the pair; array encoding: truncate before it)
            fields = v['fields'] if v is not None else s['fields']
            enc = (v.get('enc') if v else None) or s.get('enc') or 'array'
            mand = [f for f in live_fields(fields) if not is_optional(f) and f['ty'] not in (s.get('generics') or ())]
            if mand and not s.get('transparent') and (label, vk, 'missing') not in done:
                done.add((label, vk, 'missing'))
                lead = lead_items(s, v)
                if lead is not None and lead < len(ev) and ev[lead][1] in ('ARRAY', 'MAP') and isinstance(ev[lead][2], Int) and ev[lead][2].is_const():
                    f = mand[-1]
                    # locate the field's slot
                    j = lead + 1
                    slot = None
                    cnt = ev[lead][2].c
                    for k in range(cnt):
                        start = j
                        if ev[lead][1] == 'MAP':
                            idxv = ev[j][3] if ev[j][1] == 'INT' else None
                            j2, _ = parse_tree(ev, j)
                            j3, _ = parse_tree(ev, j2)
                            if isinstance(idxv, Int) and idxv.is_const() and idxv.c == f['idx']:
                                slot = (start, j3)
                            j = j3
                        else:
                            j2, _ = parse_tree(ev, j)
                            if k == f['idx']:
                                slot = (start, j2)
                            j = j2
                    if slot:
                        if ev[lead][1] == 'MAP':
                            st2 = ev[:lead] + [('ITEM', 'MAP', Int.const(cnt - 1))] + ev[lead + 1:slot[0]] + ev[slot[1]:]
                        else:
                            st2 = ev[:lead] + [('ITEM', 'ARRAY', Int.const(f['idx']))] + ev[lead + 1:slot[0]] + ev[j:]
                        n += 1
                        rej, classes = all_rejected(prog, s, st2, o.st)
                        key = '%s|%s|missing:%s' % (label, vk, f['name'])
                        if rej and 'MissingValue' in classes:
                            ctx.ok('S-ERR.missing', key)
                        else:
                            ctx.violation('S-ERR.missing', key, 'mandatory field %s (index %d) is absent from the input but decoding yields %s' % (f['name'], f['idx'], 'a value' if not rej else classes), where)
    ctx.count('S-ERR.cases', n)
    return n


# ---------------------------------------------------------------------------
# C10: reader version over writer version

def by_name(d):
    return dict((s['name'], s) for s in d['schemas'])


def c10(ctx, prog=None):
    d = corpus()
    prog = prog or load.program(CONFIG)
    names = by_name(d)
    n = 0
    pairs_done = 0
    for p in d['pairs']:
        neg = p['relation'].startswith('NOT compatible')
        a, b = names[p['old']], names[p['new']]
        fired = False
        for w, r_ in ((a, b), (b, a)):
            res = summaries.summary(prog, enc_path(w), 'enc', ())
            if res is None or res[0] == 'abort':
                ctx.fail_closed('S-COMPAT', 'writer %s not summarised: %s' % (w['name'], res[1] if res else 'missing'))
                continue
            inst, outs, m = res
            where = 'writer %s -> reader %s (%s)' % (w['name'], r_['name'], p['relation'])
            for o in outs:
                if o.kind != 'return' or l1.result_kind(o.value) != 'Ok':
                    continue
                wv = variant_of(w, o.st)
                wfields = wv['fields'] if wv is not None else w['fields']
                pres = presence_of(o.st, wfields, ())
                for k_ in list(pres):
                    if pres[k_] is None:
                        pres[k_] = True
                # reader expectation
                if r_['kind'] == 'enum':
                    rv = [x for x in r_['variants'] if x['idx'] == wv['idx']]
                    if not rv:
                        continue   # a top-level unknown variant is an error by definition (C09)
                    rv = rv[0]
                    rfields = rv['fields']
                else:
                    rv = None
                    rfields = r_['fields']
                widx = dict((f['idx'], f) for f in wfields if not f['skip'])
                exp = {}
                if rv is not None:
                    exp['__variant__'] = rv['name']
                ch = summaries.choices(o.st)
                for g in rfields:
                    gk = field_key(g, None)
                    if g['skip']:
                        continue
                    f = widx.get(g['idx'])
                    if f is None or not pres.get(f['name'], True):
                        exp[gk] = ('none',)
                        continue
                    fk = field_key(f, None)
                    # enum-typed optional field whose written variant the reader does not know -> None
                    inner = re.match(r'Option<(\w+)>', f['ty'])
                    if inner and inner.group(1) in names and names[inner.group(1)]['kind'] == 'enum':
                        wen = names[inner.group(1)]
                        ginner = re.match(r'Option<(\w+)>', g['ty'])
                        ren = names.get(ginner.group(1)) if ginner else None
                        wvar = ch.get('self*.%s.0' % fk)
                        if ren is not None and wvar is not None:
                            widx_ = [x['idx'] for x in wen['variants'] if x['name'] == wvar]
                            if widx_ and widx_[0] not in [x['idx'] for x in ren['variants']]:
                                exp[gk] = ('none',)
                                continue
                            if widx_:
                                rvn = [x['name'] for x in ren['variants'] if x['idx'] == widx_[0]][0]
                                exp[gk] = ('variant', rvn)
                                continue
                    exp[gk] = ('origin', fk, None)
                key = '%s->%s|%s|%s' % (w['name'], r_['name'], wv['name'] if wv else '-', ','.join('%s=%s' % kv for kv in sorted(ch.items())))
                n += 1
                if neg:
                    # negative control: must be reported by the rule
                    c2 = type(ctx)(ctx.pid, ctx.tier, ctx.seed)
                    check_decode_over(c2, 'S-COMPAT', key, prog, r_, dec_path(r_), o.st.events, exp, where, leaf=(), from_state=o.st)
                    if c2.violations:
                        fired = True
                    continue
                if check_decode_over(ctx, 'S-COMPAT', key, prog, r_, dec_path(r_), o.st.events, exp, where, leaf=(), from_state=o.st):
                    ctx.ok('S-COMPAT', key)
        if neg:
            if fired:
                ctx.ok('S-COMPAT.control', p['old'] + '/' + p['new'], nontrivial=False)
            else:
                ctx.fail_closed('S-COMPAT.control', 'the incompatible control pair %s/%s is not reported: the rule is blind' % (p['old'], p['new']))
        pairs_done += 1
    ctx.count('S-COMPAT.cases', n)
    ctx.floor('S-COMPAT', 'version pairs', pairs_done, 10)
    return n
