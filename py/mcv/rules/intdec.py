"""Shared rule: integer decoding tables vs the RFC 8949 data model (used by C05, C04, C11)."""
from ..absint import Int, Adt, Atom, iv_and, iv_sub, iv_norm, iv_min, iv_max, iv_str, lin_add, ty_range
from .. import tables, mir, oracle

WIDTH_BY_INFO = {24: 1, 25: 2, 26: 4, 27: 8}


def ib_classes():
    """partition of 0..255 into classes with uniform integer meaning: (lo, hi, major, width or None for immediate / 'bad')"""
    out = []
    for major in range(8):
        base = major << 5
        out.append((base, base + 23, major, 0))
        for info, w in WIDTH_BY_INFO.items():
            out.append((base + info, base + info, major, w))
        out.append((base + 28, base + 30, major, 'bad'))
        out.append((base + 31, base + 31, major, 'indef'))
    return out


def split_by_class(b0set):
    res = []
    for lo, hi, major, w in ib_classes():
        part = iv_and(b0set, ((lo, hi),))
        if part:
            res.append((part, lo, major, w))
    return res


def check_int_accessor(ctx, rule, label, prog, path, target_set, value_of=None, extra_err_ok=()):
    """target_set: interval set of mathematically representable values.
    value_of(raw Ok value) -> Int (mathematical value) or None"""
    res = tables.dec_rows(prog, path)
    if res is None:
        ctx.fail_closed(rule, 'anchor %s not found in the export' % path)
        return 0
    inst, rows, m = res
    where = mir.loc(inst['sp'])
    n = 0
    for r in rows:
        n += 1
        if r.kind != 'return':
            ctx.violation(rule + '.total', label, 'a path does not return: %s' % r.why, where)
            continue
        bad_flags = sorted(f for f in r.flags if f.startswith(('imprecise', 'opaque', 'trunc')))
        cons = r.consumed()
        if not cons:
            # nothing read: must be the end-of-input error
            if r.result != 'Err' or r.value != 'EndOfInput':
                ctx.violation(rule + '.eoi', label, 'exhausted input yields %s(%s), expected the end-of-input error' % (r.result, r.value), where)
            else:
                ctx.ok(rule + '.eoi', label + '|empty', nontrivial=False)
            continue
        b0 = cons[0][1] if cons[0][0] == 'READ1' else None
        if b0 is None:
            ctx.violation(rule, label, 'first consumption is not a single byte: %r' % (cons[0],), where)
            continue
        for part, base, major, w in split_by_class(r.st.ranges[b0]):
            inst_key = '%s|ib=%s' % (label, iv_str(part))
            if major not in (0, 1) or w in ('bad', 'indef'):
                # not an integer item: must not succeed
                if r.result == 'Ok':
                    ctx.violation(rule + '.accept', '%s|major%d' % (label, major), 'initial byte %s is not an integer head but the accessor returns Ok(%r)' % (iv_str(part), r.value), where)
                else:
                    ctx.ok(rule + '.reject', inst_key, nontrivial=False)
                continue
            # integer head
            wbits = 8 * w if w else 5
            possible = ((0, (1 << wbits) - 1),) if major == 0 else ((-(1 << wbits), -1),)
            if w == 0:
                possible = ((0, 23),) if major == 0 else ((-24, -1),)
            if not iv_and(possible, target_set):
                # no value of this head is representable: any error is right, Ok is not
                if r.result == 'Ok':
                    ctx.violation(rule + '.range', '%s|accepts-unrepresentable' % label, 'head %s can only denote values outside the target range but the accessor returns Ok' % iv_str(part), where)
                else:
                    ctx.ok(rule + '.reject', inst_key, nontrivial=False)
                continue
            if w == 0:
                arg = lin_add(Int.sym(b0), Int.const(base), -1)
                argset = tuple((a - base, b - base) for a, b in part)
                exp_cons = 1
            else:
                exp_cons = 2
                if len(cons) < 2:
                    # argument bytes missing: must be EOI
                    if r.eoi() and r.result == 'Err' and r.value == 'EndOfInput':
                        ctx.ok(rule + '.eoi', inst_key + '|truncated', nontrivial=False)
                    else:
                        ctx.violation(rule + '.eoi', '%s|truncated' % label, 'head %s with missing argument bytes yields %s(%s), expected end-of-input' % (iv_str(part), r.result, r.value), where)
                    continue
                ev = cons[1]
                if ev[0] == 'READ1':
                    asym, aw = ev[1], 1
                elif ev[0] == 'READN':
                    asym, aw = ev[2], ev[1]
                else:
                    ctx.violation(rule + '.consume', label, 'head %s: argument read as %r' % (iv_str(part), ev), where)
                    continue
                if aw != w:
                    ctx.violation(rule + '.consume', '%s|width' % label, 'head %s announces a %d-byte argument but %d byte(s) are consumed' % (iv_str(part), w, aw), where)
                    continue
                arg = Int.sym(asym)
                argset = r.st.ranges[asym]
            if len(cons) != exp_cons:
                ctx.violation(rule + '.consume', '%s|extra' % label, 'head %s: consumed %r, expected %d read(s)' % (iv_str(part), cons, exp_cons), where)
                continue
            # mathematical value and success set in terms of arg
            if major == 0:
                val = arg
                succ = iv_and(argset, target_set)
            else:
                val = Int([(s, -k) for s, k in arg.terms], -1 - arg.c)
                # value = -1 - arg in target  <=>  arg in { -1 - v }
                neg = iv_norm(tuple((-1 - hi, -1 - lo) for lo, hi in target_set))
                succ = iv_and(argset, neg)
            fail = iv_sub(argset, succ)
            if r.result == 'Ok':
                if fail:
                    ctx.violation(rule + '.range', '%s|accepts-unrepresentable' % label, 'head %s, argument in %s: returns Ok although the value is not representable (would wrap/truncate)' % (iv_str(part), iv_str(fail)), where)
                    continue
                got = value_of(r.raw.fields[0]) if value_of else r.raw.fields[0]
                if bad_flags:
                    ctx.violation(rule + '.precision', label, 'value is touched by something other than comparisons/affine copies (%s)' % ','.join(bad_flags), where)
                    continue
                if not isinstance(got, Int) or got != val:
                    ctx.violation(rule + '.value', '%s|value' % label, 'head %s, argument in %s: returns %r, the data-model value is %r' % (iv_str(part), iv_str(argset), got, val), where)
                    continue
                ctx.ok(rule + '.value', inst_key + '|' + iv_str(argset))
                if label in ('i16', 'u8') and w in (0, 2):
                    ctx.sample({'accessor': label, 'ib': iv_str(part), 'arg': iv_str(argset), 'value': repr(val)})
            elif r.result == 'Err':
                if succ:
                    if r.value in extra_err_ok:
                        continue
                    ctx.violation(rule + '.range', '%s|rejects-representable' % label, 'head %s, argument in %s: returns Err(%s) although the value is representable' % (iv_str(part), iv_str(succ), r.value), where)
                    continue
                ctx.ok(rule + '.reject', inst_key + '|' + iv_str(argset))
            else:
                ctx.violation(rule, label, 'unexpected result kind %s' % r.result, where)
    return n
