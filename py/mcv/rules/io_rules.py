"""C14/C15/C16: framed I/O state machines decided by abstract interpretation of one loop step (DESIGN 5.14-5.16).

The reader/writer bodies (for the async pair: the coroutine bodies *before* the state-machine transform, which still
contain `Yield`) are interpreted from their entry with an arbitrary persistent state satisfying the stated invariant.
A path ends when it returns, suspends (yield) or comes back to the loop head (cut).  Source/sink calls are primitives
with all outcomes the trait contracts allow (n bytes for any 0 <= n <= len offered, error, Pending, Interrupted).
Nothing is executed; there is no schedule enumeration: the rules are one-step invariants that make every schedule safe.
"""
from ..absint import (Machine, State, Int, Cond, Atom, Adt, Tup, Arr, BeBytes, Ref, Slice, Str, UNIT, Fork, CallThen, Outcome, Abort,
                      iv_str, ty_range, fresh, lin_add, ty_from_str)
from .. import load, mir, prims, l1
from ..prims import ok, err, some, NONE, RESULT, OPTION, norm_adt, deref, check_prim

POLL = 'std::task::Poll'
IOERR = 'minicbor_io::error::Error'


def ready(v):
    return Adt(POLL, 0, [v])


PENDING = Adt(POLL, 1, [])


def poll_any(m, cfg, f, args, t):
    return poll_inner_async(m, cfg, f, args, t)


class IoMachine(Machine):
    def call_fn(self, cfg, fr, f, args, dest, ret_bb, t):
        n = f.get('rpath') or f.get('path') or ''
        if n in self.prog.coroutines:
            # poll of a workspace async fn (resolved to the coroutine body): analysed on its own; here it is one await
            return self.apply_prim_result(cfg, poll_inner_async(self, cfg, f, args, t), dest, ret_bb, t)
        if n.endswith('::poll') and n not in self.overrides and 'async fn body' in ' '.join(f.get('rargs') or f.get('args') or [n]):
            return self.apply_prim_result(cfg, poll_inner_async(self, cfg, f, args, t), dest, ret_bb, t)
        return Machine.call_fn(self, cfg, fr, f, args, dest, ret_bb, t)


    def __init__(self, prog, cuts=(), **kw):
        Machine.__init__(self, prog, prims=dict(prims.P), overrides=io_overrides(), **kw)
        self.cuts = set(cuts)
        self.max_len = 1 << 40



def ev(st, *e):
    st.events.append(tuple(e))


def slice_desc(m, st, v):
    """(base name, start Int, len Int) of a slice handed to the source/sink"""
    if isinstance(v, Ref):
        v = m.read_path(st, v.key, v.path)
    if isinstance(v, Slice):
        return v.data if v.base is None else repr(v.base), v.len
    return repr(v), None


def _std_read(kind):
    """std::io::Read::read / the poll of futures' Read: any n in 0..=len(buf), an error, (Interrupted | Pending)"""
    def h(m, cfg, f, args, t):
        st = cfg.st
        buf = args[1] if kind == 'sync' else None
        nm, ln = slice_desc(m, st, buf)
        return read_outcomes(m, st, nm, ln, sync=True)
    return h


def read_outcomes(m, st, nm, ln, sync, wrap=lambda v: v):
    k = st.extra.get('nreads', 0)
    hi = None
    if isinstance(ln, Int):
        lo_, hi_ = (ln.c, ln.c) if ln.is_const() else m.rng(st, ln)
        hi = hi_
    n = m.new_sym(st, 'n%d' % k, 'usize', ((0, hi if hi is not None else (1 << 40)),))
    nv = Int.sym(n)

    def okm(s_):
        s_.extra['nreads'] = k + 1
        ev(s_, 'READ', nm, nv, ln)
        sb = (s_.extra.get('slicebase') or {}).get(nm)
        if sb is not None:
            # the source filled part of the array behind this slice with bytes we know nothing about
            m.write_path(s_, sb[0], list(sb[1]), Atom('bytes-from-source@%d' % k, {'s': '[u8; 4]', 'k': 'array', 'len': 4, 'elem': {'s': 'u8', 'k': 'int:u8'}}))
        if isinstance(ln, Int) and not ln.is_const():
            m.add_ub(s_, lin_add(nv, ln, -1), 0)    # n <= len offered (AsyncRead / Read contract)

    def errm(s_):
        s_.extra['nreads'] = k + 1
        ev(s_, 'READ_ERR', nm)
    alts = [(okm, wrap(ok(nv))), (errm, wrap(err(Atom('ioerr%d' % k, ty_from_str('std::io::Error')))))]
    return alts


def sync_read(m, cfg, f, args, t):
    st = cfg.st
    nm, ln = slice_desc(m, st, args[1])
    alts = read_outcomes(m, st, nm, ln, True)
    if st.extra.get('interrupts', 0) < 1:
        def intr(s_):
            s_.extra['interrupts'] = s_.extra.get('interrupts', 0) + 1
            ev(s_, 'READ_INTERRUPTED', nm)
        alts.append((intr, err(Atom('interrupted', ty_from_str('std::io::Error')))))
    return Fork(alts)


def io_error_kind(m, cfg, f, args, t):
    e = deref(m, cfg.st, args[0])
    if isinstance(e, Atom) and e.name == 'interrupted':
        return Atom('ErrorKind::Interrupted')
    return Atom('ErrorKind::Other')


def error_kind_eq(m, cfg, f, args, t):
    a = deref(m, cfg.st, args[0])
    b = deref(m, cfg.st, args[1])
    names = []
    for x in (a, b):
        if isinstance(x, Atom):
            names.append(x.name.split('::')[-1])
        elif isinstance(x, Adt):
            ad = m.prog.adts.get(x.adt)
            names.append(ad['variants'][x.variant]['name'] if ad else str(x.variant))
        else:
            names.append(repr(x))
    return Int.const(1 if names[0] == names[1] else 0)


def read_exact(m, cfg, f, args, t):
    st = cfg.st
    nm, ln = slice_desc(m, st, args[1])

    def okm(s_):
        ev(s_, 'READ_EXACT', nm, ln)

    def errm(s_):
        ev(s_, 'READ_EXACT_ERR', nm)
    return Fork([(okm, ok(UNIT)), (errm, err(Atom('ioerr:read_exact', ty_from_str('std::io::Error'))))])


def write_all(m, cfg, f, args, t):
    st = cfg.st
    nm, ln = slice_desc(m, st, args[1])

    def okm(s_):
        ev(s_, 'WRITE_ALL', nm, ln)

    def errm(s_):
        ev(s_, 'WRITE_ALL_ERR', nm)
    return Fork([(okm, ok(UNIT)), (errm, err(Atom('ioerr:write_all', ty_from_str('std::io::Error'))))])


def sink_flush(m, cfg, f, args, t):
    ev(cfg.st, 'FLUSH')
    return Fork([(None, ok(UNIT)), (None, err(Atom('ioerr:flush', ty_from_str('std::io::Error'))))])


# --- Vec<u8> buffer (self.buffer) ---------------------------------------------------------

def buf_name(m, st, v):
    return m.short_name(st, v)


def buflen(m, st, name):
    bl = st.extra.get('buflen') or {}
    if name in bl:
        return bl[name]
    return m.len_sym(st, name)


def set_buflen(st, name, v):
    d = dict(st.extra.get('buflen') or {})
    d[name] = v
    st.extra['buflen'] = d


def vec_len(m, cfg, f, args, t):
    return buflen(m, cfg.st, buf_name(m, cfg.st, args[0]))


def vec_resize(m, cfg, f, args, t):
    st = cfg.st
    nm = buf_name(m, st, args[0])
    ev(st, 'RESIZE', nm, args[1])
    set_buflen(st, nm, args[1])
    return UNIT


def vec_clear(m, cfg, f, args, t):
    st = cfg.st
    nm = buf_name(m, st, args[0])
    ev(st, 'CLEAR', nm)
    set_buflen(st, nm, Int.const(0))
    return UNIT


def vec_deref(m, cfg, f, args, t):
    st = cfg.st
    nm = buf_name(m, st, args[0])
    return Slice(None, nm + '[..]', buflen(m, st, nm))


def vec_index(m, cfg, f, args, t):
    st = cfg.st
    nm = buf_name(m, st, args[0])
    ln = buflen(m, st, nm)
    idx = args[1]
    if isinstance(idx, Adt) and 'RangeFrom' in idx.adt:
        start = idx.fields[0]
        check_prim(m, cfg, t, m.compare(st, 'Le', start, ln), 'slice index start <= len')
        return Slice(None, '%s[%r..]' % (nm, start), lin_add(ln, start, -1) if isinstance(ln, Int) and isinstance(start, Int) else Atom(fresh('len')))
    if isinstance(idx, Adt) and idx.adt.endswith('RangeTo'):
        end = idx.fields[0]
        check_prim(m, cfg, t, m.compare(st, 'Le', end, ln), 'slice index end <= len')
        return Slice(None, '%s[..%r]' % (nm, end), end)
    if isinstance(idx, Adt) and 'RangeFull' in idx.adt:
        return Slice(None, nm + '[..]', ln)
    return NotImplemented


def array_index(m, cfg, f, args, t):
    """`&mut buf[o..]` on the 4-byte prefix array held inside the state"""
    st = cfg.st
    base = args[0]
    idx = args[1]
    nm = m.short_name(st, base)
    ra = f.get('rargs') or []
    n = int(ra[2]) if len(ra) > 2 and ra[2].isdigit() else 4
    if isinstance(idx, Adt) and 'RangeFrom' in idx.adt:
        start = idx.fields[0]
        check_prim(m, cfg, t, m.compare(st, 'Le', start, Int.const(n)), 'slice index start <= len')
        sl = Slice(None, '%s[%r..]' % (nm, start), lin_add(Int.const(n), start, -1) if isinstance(start, Int) else Atom(fresh('len')))
        if isinstance(base, Ref):
            d = dict(st.extra.get('slicebase') or {})
            d[sl.data] = (base.key, base.path)
            st.extra['slicebase'] = d
        return sl
    if isinstance(idx, Adt) and idx.adt.endswith('RangeTo'):
        end = idx.fields[0]
        return Slice(None, '%s[..%r]' % (nm, end), end)
    return NotImplemented


def copy_from_slice(m, cfg, f, args, t):
    st = cfg.st
    dst, src = args[0], args[1]
    dn, dl = slice_desc(m, st, dst)
    sn, sl = slice_desc(m, st, src)
    if isinstance(dl, Int) and isinstance(sl, Int):
        check_prim(m, cfg, t, m.compare(st, 'Eq', dl, sl), 'copy_from_slice lengths equal')
    srcv = None
    if isinstance(src, Slice) and src.base is not None:
        srcv = m.read_path(st, src.base.key, src.base.path)
    elif isinstance(src, Ref):
        srcv = m.read_path(st, src.key, src.path)
    ev(st, 'PATCH', dn, srcv if srcv is not None else sn)
    return UNIT


def decode_with(m, cfg, f, args, t):
    st = cfg.st
    nm, ln = slice_desc(m, st, args[0])
    ev(st, 'DECODE', nm, ln)
    return Fork([(None, ok(Atom('decoded(%s)' % nm))), (lambda s_: ev(s_, 'DECODE_ERR'), err(Atom('decode-error', ty_from_str('minicbor::decode::error::Error'))))])


def encode_with(m, cfg, f, args, t):
    st = cfg.st
    w = args[1]
    nm = buf_name(m, st, w)
    cur = buflen(m, st, nm)
    k = st.extra.get('nenc', 0)
    p = m.new_sym(st, 'plen%d' % k, 'usize', ((0, 1 << 40),))

    def okm(s_):
        s_.extra['nenc'] = k + 1
        ev(s_, 'ENCODE', nm, cur)
        set_buflen(s_, nm, lin_add(cur, Int.sym(p), 1) if isinstance(cur, Int) else Atom('len'))

    def errm(s_):
        s_.extra['nenc'] = k + 1
        ev(s_, 'ENCODE_ERR', nm)
        set_buflen(s_, nm, Atom(fresh('len-after-failed-encode')))
    return Fork([(okm, ok(UNIT)), (errm, err(Atom('encode-error', ty_from_str('minicbor::encode::error::Error<std::convert::Infallible>'))))])


# --- futures -------------------------------------------------------------------------------

FUT = 'mcv::Future'


def mk_future(kind):
    def h(m, cfg, f, args, t):
        return Adt(FUT, 0, [Atom(kind), args[1] if len(args) > 1 else UNIT])
    return h


def poll_future(m, cfg, f, args, t):
    st = cfg.st
    fut = args[0]
    # Pin<&mut Fut> -> the future value
    for _ in range(4):
        if isinstance(fut, Adt) and fut.adt.endswith('pin::Pin'):
            fut = fut.fields[0]
        if isinstance(fut, Ref):
            fut = m.read_path(st, fut.key, fut.path)
    if not (isinstance(fut, Adt) and fut.adt == FUT):
        return NotImplemented
    kind = fut.fields[0].name
    ev(st, 'POLL', kind)
    alts = []
    if kind == 'read':
        nm, ln = slice_desc(m, st, fut.fields[1])
        alts = read_outcomes(m, st, nm, ln, False, wrap=ready)
    elif kind == 'write':
        nm, ln = slice_desc(m, st, fut.fields[1])
        k = st.extra.get('nwrites', 0)
        hi = None
        if isinstance(ln, Int):
            hi = ln.c if ln.is_const() else m.rng(st, ln)[1]
        n = m.new_sym(st, 'w%d' % k, 'usize', ((0, hi if hi is not None else (1 << 40)),))
        nv = Int.sym(n)

        def okm(s_):
            s_.extra['nwrites'] = k + 1
            ev(s_, 'WRITE', nm, nv, ln)
            if isinstance(ln, Int) and not ln.is_const():
                m.add_ub(s_, lin_add(nv, ln, -1), 0)

        def errm(s_):
            s_.extra['nwrites'] = k + 1
            ev(s_, 'WRITE_ERR', nm)
        alts = [(okm, ready(ok(nv))), (errm, ready(err(Atom('ioerr-w%d' % k, ty_from_str('std::io::Error')))))]
    elif kind == 'flush':
        alts = [(lambda s_: ev(s_, 'FLUSH'), ready(ok(UNIT))), (None, ready(err(Atom('ioerr:flush', ty_from_str('std::io::Error')))))]
    else:
        return NotImplemented
    if st.extra.get('pendings', 0) < 1:
        def pend(s_):
            s_.extra['pendings'] = s_.extra.get('pendings', 0) + 1
            ev(s_, 'PENDING', kind)
        alts.append((pend, PENDING))
    return Fork(alts)


def poll_inner_async(m, cfg, f, args, t):
    """poll of a workspace async fn's future (write_with awaits sync()): opaque single await with both results"""
    st = cfg.st
    ev(st, 'POLL', 'inner')
    alts = [(lambda s_: ev(s_, 'INNER_DONE'), ready(ok(UNIT))), (lambda s_: ev(s_, 'INNER_ERR'), ready(err(Atom('inner-error', ty_from_str(IOERR)))))]
    if st.extra.get('pendings', 0) < 1:
        def pend(s_):
            s_.extra['pendings'] = s_.extra.get('pendings', 0) + 1
            ev(s_, 'PENDING', 'inner')
        alts.append((pend, PENDING))
    return Fork(alts)


def identity(m, cfg, f, args, t):
    return args[0]


def pin_new(m, cfg, f, args, t):
    return Adt('std::pin::Pin', 0, [args[0]])


def io_overrides():
    o = {}
    o['std::io::Read::read'] = sync_read
    o['std::io::Read::read_exact'] = read_exact
    o['std::io::Write::write_all'] = write_all
    o['std::io::Write::flush'] = sink_flush
    o['futures_io::Error::kind'] = io_error_kind
    o['std::io::Error::kind'] = io_error_kind
    o['<futures_io::ErrorKind as std::cmp::PartialEq>::eq'] = error_kind_eq
    o['<std::io::ErrorKind as std::cmp::PartialEq>::eq'] = error_kind_eq
    o['std::vec::Vec::<T, A>::len'] = vec_len
    o['std::vec::Vec::<T, A>::resize'] = vec_resize
    o['std::vec::Vec::<T, A>::clear'] = vec_clear
    o['<std::vec::Vec<T, A> as std::ops::Deref>::deref'] = vec_deref
    o['<std::vec::Vec<T, A> as std::ops::DerefMut>::deref_mut'] = vec_deref
    o['<std::vec::Vec<T, A> as std::ops::Index<I>>::index'] = vec_index
    o['<std::vec::Vec<T, A> as std::ops::IndexMut<I>>::index_mut'] = vec_index
    o['std::array::<impl std::ops::IndexMut<I> for [T; N]>::index_mut'] = array_index
    o['std::array::<impl std::ops::Index<I> for [T; N]>::index'] = array_index
    o['core::slice::<impl [T]>::copy_from_slice'] = copy_from_slice
    o['minicbor::decode_with'] = decode_with
    o['minicbor::encode_with'] = encode_with
    o['futures_util::AsyncReadExt::read'] = mk_future('read')
    o['futures_util::AsyncWriteExt::write'] = mk_future('write')
    o['futures_util::AsyncWriteExt::flush'] = mk_future('flush')
    o['<F as std::future::IntoFuture>::into_future'] = identity
    o['std::pin::Pin::<Ptr>::new_unchecked'] = pin_new
    o['std::future::get_context'] = lambda m, cfg, f, args, t: Atom('cx')
    o["<futures_util::io::Read<'_, R> as futures_util::Future>::poll"] = poll_future
    o["<futures_util::io::Write<'_, W> as futures_util::Future>::poll"] = poll_future
    o["<futures_util::io::Flush<'_, W> as futures_util::Future>::poll"] = poll_future
    return o


# ---------------------------------------------------------------------------
# helpers for rules

def events_of(o, kinds):
    return [e for e in o.st.events if e[0] in kinds]


def io_error_class(prog, v):
    """('Io'|'Decode'|'Encode'|'InvalidLen', payload repr) of an Err(minicbor_io::Error) value"""
    if isinstance(v, Adt) and norm_adt(v.adt) == RESULT and v.variant == 1:
        e = v.fields[0]
        if isinstance(e, Adt) and e.adt == IOERR:
            ad = prog.adts.get(IOERR)
            return ad['variants'][e.variant]['name'], (repr(e.fields[0]) if e.fields else '')
        return '?', repr(e)
    return None, None


def window(desc):
    """(base, start) of the slice `base[start..]` handed to the source / sink, however the slicing was spelled
    (`v[o..]` on the Vec, `&v[..][o..]`, a helper taking the slice and the offset)"""
    import re
    d = str(desc)
    for _ in range(4):
        m_ = re.match(r'^sub\((.*),\s*(.*?)\.\.\)$', d)
        if m_:
            inner, start = m_.group(1), m_.group(2)
            b_, s_ = window(inner)
            if s_ in ('', '0', None):
                return b_, start
            return b_, '%s + %s' % (s_, start)
        break
    m_ = re.match(r'^(.*)\[(.*?)\.\.\]$', d)
    if m_:
        return m_.group(1), m_.group(2)
    return d, None


def known(o):
    return o.st.extra.get('known') or {}


def self_obj(o, name='self'):
    return o.st.mem.get(('arg', name))


def field(prog, adt_val, name):
    ad = prog.adts.get(adt_val.adt)
    names = ad['variants'][adt_val.variant]['fields']
    return adt_val.fields[names.index(name)]


def loop_heads(body):
    """entry blocks of the outermost loops (SCCs) of a body"""
    cfg = mir.CFG(body)
    heads = []
    for scc in cfg.sccs():
        entries = [b for b in scc if any(p not in scc for p in cfg.pred[b])]
        heads.append((len(scc), sorted(entries)))
    heads.sort(reverse=True)
    return heads


def coroutine_inst(prog, path):
    c = prog.coroutines.get(path)
    if c is None or not c.get('pre_body'):
        return None
    return {'key': path, 'path': path, 'body': c['pre_body'], 'krate': 'minicbor_io', 'sp': c['sp'], 'saved': c.get('saved', [])}


def run_io(prog, inst, cuts=(), setup=None):
    m = IoMachine(prog, cuts=cuts)
    st = State()
    body = inst['body']
    names = dict((l, n) for l, n in body['names'])
    args = [m.make_value(st, body['locals'][i], names.get(i, 'a%d' % i)) for i in range(1, body['argc'] + 1)]
    if setup:
        args = setup(m, st, args) or args
    outs = m.run(inst, args, st)
    return m, outs


def natural_loop_heads(body):
    """targets of back edges (u -> v with v dominating u): heads of all (nested) natural loops"""
    cfg = mir.CFG(body)
    dom = cfg.dominators()
    heads = set()
    for u in cfg.reach:
        for v in cfg.succ[u]:
            if v in dom.get(u, ()):
                heads.add(v)
    return sorted(heads)
