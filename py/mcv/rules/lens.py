"""T-LEN: CborLen of scalars vs the length of the encoder tables (C07, C20)."""
from ..absint import Int, BeBytes, Machine, State, Abort, iv_and, iv_str
from .. import tables, mir, l1, prims

SCALARS = ['u8', 'u16', 'u32', 'u64', 'i8', 'i16', 'i32', 'i64', 'bool', 'char', 'f32', 'f64']


def stream_len(s):
    n = 0
    for t in s:
        if isinstance(t, BeBytes):
            n += t.n
        elif isinstance(t, Int):
            n += 1
        else:
            return None
    return n


def len_rows(prog, ty):
    path = '<%s as minicbor::encode::CborLen<C>>::cbor_len' % ty
    inst = prog.one(path)
    if inst is None:
        return None
    m = Machine(prog, prims=prims.P)
    st = State()
    body = inst['body']
    args = [m.make_value(st, body['locals'][i], 'a%d' % i) for i in range(1, body['argc'] + 1)]
    outs = m.run(inst, args, st)
    return inst, outs, m


def single_sym(st, prefix):
    c = [s for s in st.ranges if s.startswith(prefix)]
    return c[0] if len(c) == 1 else None


def check_scalar(ctx, prog, ty, enc_method=None):
    enc_method = enc_method or ty
    er = tables.enc_rows(prog, enc_method)
    try:
        lr = len_rows(prog, ty)
    except Abort as e:
        ctx.fail_closed('T-LEN', 'CborLen for %s cannot be summarised: %s' % (ty, e))
        return False
    if er is None or lr is None:
        ctx.fail_closed('T-LEN', 'anchor for %s missing (encoder %s, cbor_len %s)' % (ty, er is not None, lr is not None))
        return False
    einst, erows, em = er
    linst, louts, lm = lr
    where = mir.loc(linst['sp'])
    cells = []
    for r in erows:
        if r.result != 'Ok':
            continue
        n = stream_len(r.stream)
        s = single_sym(r.st, 'x')
        cells.append((r.st.ranges[s] if s else None, n, r))
    for o in louts:
        if o.kind != 'return' or not isinstance(o.value, Int) or not o.value.is_const():
            ctx.violation('T-LEN', 'CborLen for %s' % ty, 'length is not a constant per cell: %r (%s)' % (o.value, sorted(o.st.flags)), where)
            continue
        ls = single_sym(o.st, 'a1')
        lset = o.st.ranges[ls] if ls else None
        for eset, n, r in cells:
            if eset is not None and lset is not None:
                inter = iv_and(eset, lset)
                if not inter:
                    continue
                cellname = iv_str(inter)
            else:
                cellname = 'all'
            if n is None:
                ctx.violation('T-LEN', 'CborLen for %s' % ty, 'encoder stream length not constant on %s' % cellname, where)
            elif n != o.value.c:
                ctx.violation('T-LEN', 'CborLen for %s|%s' % (ty, 'mismatch'), 'for values %s cbor_len = %d but Encoder::%s writes %d byte(s)' % (cellname, o.value.c, enc_method, n), where)
            else:
                ctx.ok('T-LEN', 'CborLen for %s|%s' % (ty, cellname))
                if ty == 'u32':
                    ctx.sample({'type': ty, 'values': cellname, 'len': n})
    return True
