"""S-ENC / S-LEN summaries of built-in impls and their comparison (C07, C03, C01)."""
import re
from ..absint import Int, Adt, Abort, State
from .. import l1, l2, mir
from ..prims import RESULT, norm_adt

_cache = {}


def summary(prog, path, kind, leaf_crates=()):
    key = (id(prog), path, kind, tuple(leaf_crates))
    if key in _cache:
        return _cache[key]
    ov = l2.encoder_overrides() if kind == 'enc' else l2.len_overrides()
    try:
        r = l2.run_root(prog, path, ov, leaf_crates)
    except Abort as e:
        r = ('abort', str(e))
    _cache[key] = r
    return r


def choices(st):
    return dict(st.extra.get('choices') or ())


def compatible(a, b):
    ca, cb = choices(a), choices(b)
    for k in ca:
        if k in cb and ca[k] != cb[k]:
            return False
    ka, kb = a.extra.get('known') or {}, b.extra.get('known') or {}
    for k in ka:
        if k in kb and ka[k] != kb[k]:
            return False
    return True


def bad_flags(st):
    return sorted(f for f in st.flags if f.startswith(('imprecise', 'opaque', 'trunc')) and not f.startswith('imprecise:branch'))


def expand_sums(v, sums):
    """replace every SUM(coll) symbol by its per-element term (one representative iteration)"""
    from ..absint import lin_add
    if not isinstance(v, Int):
        return v
    out = Int.const(v.c)
    for s_, k in v.terms:
        if s_ in sums and isinstance(sums[s_], Int):
            e = sums[s_]
            out = lin_add(out, Int([(a, b * k) for a, b in e.terms], e.c * k), 1)
        else:
            out = lin_add(out, Int([(s_, k)], 0), 1)
    return out


def compare_len_enc(ctx, rule, label, prog, enc_path, len_path, leaf_crates=(), where=None, allow_flags=(), classify=None):
    """returns number of compared (enc outcome, len outcome) pairs"""
    e = summary(prog, enc_path, 'enc', leaf_crates)
    l = summary(prog, len_path, 'len', leaf_crates)
    if e is None or l is None:
        ctx.fail_closed(rule, '%s: anchor missing (%s / %s)' % (label, enc_path if e is None else 'ok', len_path if l is None else 'ok'))
        return 0
    if e[0] == 'abort' or l[0] == 'abort':
        ctx.fail_closed(rule, '%s: cannot be summarised: %s' % (label, (e[1] if e[0] == 'abort' else l[1])))
        return 0
    einst, eouts, em = e
    linst, louts, lm = l
    where = where or mir.loc(linst['sp'])
    n = 0
    for lo in louts:
        if lo.kind != 'return':
            ctx.violation(rule + '.total', label, 'cbor_len path does not return: %s' % lo.why, where)
            continue
        matched = False
        for eo in eouts:
            if eo.kind != 'return' or l1.result_kind(eo.value) != 'Ok':
                continue
            if not compatible(eo.st, lo.st):
                continue
            matched = True
            n += 1
            fl = [f for f in bad_flags(eo.st) + bad_flags(lo.st) if not any(f.endswith(a) or a in f for a in allow_flags)]
            total, notes = l2.items_len(lm, lo.st, eo.st.events)
            key = '%s|%s' % (label, ','.join('%s=%s' % kv for kv in sorted(choices(lo.st).items())) or 'all')
            if not isinstance(lo.value, Int):
                ctx.violation(rule, label + '|nonint', 'cbor_len returns %r' % (lo.value,), where)
                continue
            sums_l = dict(lo.st.extra.get('sums') or ())
            sums_e = dict(notes)
            def nostar(v):
                # `elem(x)` and `elem(x)*` (the element / the element behind a reference) have the same length
                return Int([(re.sub(r'\*+(?=\))', '', s_), k_) for s_, k_ in v.terms], v.c) if isinstance(v, Int) else v
            if total != lo.value and nostar(expand_sums(total, sums_e)) == nostar(expand_sums(lo.value, sums_l)):
                # the same header plus the same per-element term: one side sums over the collection with an iterator adaptor, the
                # other adds the element's length in an explicit loop (one representative iteration) - the same function
                ctx.ok(rule, key + '|loop')
                continue
            if total != lo.value:
                items = l2.items_of(eo.st.events)
                alt = classify(lm, lo.st, eo.st.events, total, lo.value) if classify else None
                if alt:
                    ctx.violation(rule, alt, '%s on {%s}: cbor_len = %r but encode writes %r bytes' % (label, key.split('|', 1)[1], lo.value, total), where)
                    continue
                ctx.violation(rule, label + '|mismatch|' + key.split('|', 1)[1], 'on {%s}: cbor_len = %r but encode writes %r bytes (items %s)' % (key.split('|', 1)[1], lo.value, total, items[:8]), where)
                continue
            bad = [k for k in sums_l if k in sums_e and nostar(sums_l[k]) != nostar(sums_e[k])]
            if bad:
                ctx.violation(rule, label + '|element', 'per-element length %r differs from per-element encoding %r' % (sums_l[bad[0]], sums_e[bad[0]]), where)
                continue
            if fl:
                ctx.violation(rule + '.precision', label, 'summary not exact (%s)' % ','.join(sorted(set(fl))), where)
                continue
            ctx.ok(rule, key)
        if not matched:
            # a cbor_len path with no successful encode counterpart (encoder refuses the value): excluded by the property
            ctx.ok(rule + '.refused', label + '|' + ','.join('%s=%s' % kv for kv in sorted(choices(lo.st).items())), nontrivial=False)
    return n
