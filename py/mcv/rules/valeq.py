"""MIRROR.value (C01): the value a Decode impl builds from the type's own encoding *is* the value that was encoded.

Both sides are terms of the abstract interpretation: `self` of the Encode run (a structure of opaque atoms `self*.f`, or
one opaque atom for std types whose fields are private) and the `Ok(..)` value of the Decode run over the emitted items,
whose leaves are named after the atoms the encoder wrote (`input:x` = the bytes written for x, read back from the input).
The decoded term is normalised with a small set of *reconstruction axioms* - each says that a constructor applied to the
projections of x gives back x, a documented fact of std (one line each, below) - and then has to be literally the encoded
value.  Field-for-field equality of crate-visible structs / enums / tuples needs no axiom.  A decoded term no axiom explains
is reported: either the impl rebuilds something else (swapped fields, reordered octets, a changed unit) or it uses an idiom
that has to be added here after reading it.  Collections and `[T; N]` are summarised by one representative element and are
not decided here (C01's level note)."""
import re

# ---------------------------------------------------------------------------
# terms: ('atom', inner-term) | ('app', head, [args]) | ('id', text) ; parsed from the deterministic repr of abstract values


def tokenize(s):
    toks = []
    i = 0
    n = len(s)
    while i < n:
        c = s[i]
        if c in '(),':
            toks.append(c)
            i += 1
        elif c == ' ':
            i += 1
        elif c == '<' and (not toks or toks[-1] in ('(', ',', '<ATOM')):
            toks.append('<ATOM')
            i += 1
        elif c == '>' and toks and toks[-1] != '<ATOM' and _atom_open(toks):
            toks.append('ATOM>')
            i += 1
        elif c == "'":
            j = s.index("'", i + 1)
            toks.extend(tokenize(s[i + 1:j]))       # quoted data names are terms themselves
            i = j + 1
        else:
            j = i
            depth = 0
            while j < n:
                ch = s[j]
                if ch == '<':
                    depth += 1
                elif ch == '>':
                    if depth == 0:
                        break
                    depth -= 1
                elif ch in '(),' and depth == 0:
                    break
                elif ch == ' ' and depth == 0:
                    break
                j += 1
            toks.append(('id', s[i:j]))
            i = j
    return toks


def _atom_open(toks):
    d = 0
    for t in toks:
        if t == '<ATOM':
            d += 1
        elif t == 'ATOM>':
            d -= 1
    return d > 0


def parse(s):
    toks = tokenize(s)
    pos = [0]

    def term():
        t = toks[pos[0]]
        if t == '<ATOM':
            pos[0] += 1
            inner = term()
            # an atom may carry a trailing '*' / '.0' suffix after a call: fold what follows into an id chain
            while pos[0] < len(toks) and toks[pos[0]] != 'ATOM>':
                nxt = toks[pos[0]]
                if isinstance(nxt, tuple):
                    inner = ('suffix', inner, nxt[1])
                    pos[0] += 1
                else:
                    break
            if pos[0] < len(toks) and toks[pos[0]] == 'ATOM>':
                pos[0] += 1
            return inner
        if isinstance(t, tuple):
            pos[0] += 1
            head = t[1]
            if pos[0] < len(toks) and toks[pos[0]] == '(':
                pos[0] += 1
                args = []
                while toks[pos[0]] != ')':
                    args.append(term())
                    if toks[pos[0]] == ',':
                        pos[0] += 1
                pos[0] += 1
                node = ('app', head, args)
                # suffixes like `.0` or `*` directly after the closing parenthesis
                while pos[0] < len(toks) and isinstance(toks[pos[0]], tuple) and re.match(r'^[\*\.]', toks[pos[0]][1]):
                    node = ('suffix', node, toks[pos[0]][1])
                    pos[0] += 1
                return node
            return ('id', head)
        raise ValueError('unexpected token %r in %r' % (t, s))
    try:
        r = term()
    except (IndexError, ValueError):
        return ('id', s)
    return r


def show(t):
    if t[0] == 'id':
        return t[1]
    if t[0] == 'suffix':
        return show(t[1]) + t[2]
    return '%s(%s)' % (t[1], ', '.join(show(a) for a in t[2]))


# ---------------------------------------------------------------------------
# reconstruction axioms.  X stands for any term; each line: what std documents.

def _id(t):
    return t[1] if t[0] == 'id' else None


def strip_input(t):
    """`input:x` (the bytes written for x, read back) -> x ; slices keep their length argument"""
    if t[0] == 'id':
        return ('id', re.sub(r'^input:', '', t[1]))
    if t[0] == 'suffix':
        return ('suffix', strip_input(t[1]), t[2])
    return ('app', re.sub(r'^input:', '', t[1]), [strip_input(a) for a in t[2]])


def proj(name, t):
    """if t is name(X) (possibly followed by deref stars) return X"""
    while t[0] == 'suffix' and set(t[2]) <= {'*'}:
        t = t[1]
    if t[0] == 'app' and t[1] == name and len(t[2]) >= 1:
        return t[2][0]
    return None


def same(a, b):
    return a is not None and b is not None and show(a) == show(b)


def rewrite(t):
    """one bottom-up pass of the axioms"""
    if t[0] == 'id':
        return t
    if t[0] == 'suffix':
        inner = rewrite(t[1])
        # Option/Result payload projections produced by `?` on a value that is Some/Ok on this path: x.0 of checked_add(..) etc.
        return ('suffix', inner, t[2])
    head, args = t[1], [rewrite(a) for a in t[2]]
    t = ('app', head, args)
    h = head.split('#')[0]
    # -- byte containers: the bytes read back from the input are the bytes written (C03/C04 tables)
    if h in ('bytes', 'array', 'raw4', 'raw16') and len(args) == 1:
        return strip_input(args[0])
    if h == 'to_vec' and len(args) == 1:
        return strip_input(args[0])                       # <[u8]>::to_vec copies the slice
    if h == 'slice' and args:
        x = strip_input(args[0])
        if len(args) == 2 and show(args[1]).replace(' ', '') in ('len=len(%s)' % show(x), 'len=%s.len' % show(x).rstrip('*')):
            return x                                      # the slice over the whole of x
        return ('app', 'slice', [x] + args[1:])
    # -- net: From<[u8; 4|16]> for Ipv4Addr|Ipv6Addr is the inverse of octets()
    if re.match(r'^into<std::net::Ipv[46]Addr>$', h) and len(args) == 1:
        x = proj('octets', args[0])
        if x is not None:
            return x
    # SocketAddrV4::new(ip, port) / SocketAddrV6::new(ip, port, 0, 0): inverse of ip() / port() (flowinfo, scope id: stated exclusion)
    if h in ('SocketAddrV4::new', 'SocketAddrV6::new') and len(args) >= 2:
        x, y = proj('ip', args[0]), proj('port', args[1])
        if same(x, y) and all(_id(a) == '0' for a in args[2:]):
            return x
    # -- time: Duration::from_secs(d.as_secs()) + Duration::from_nanos(d.subsec_nanos()) == d ; Duration::new likewise
    if h == 'checked_add' and len(args) == 2:
        a, b = args
        if a[0] == 'app' and a[1] == 'from_secs' and b[0] == 'app' and b[1] == 'from_nanos':
            x, y = proj('as_secs', a[2][0]), proj('subsec_nanos', b[2][0])
            if same(x, y):
                return ('app', 'Some', [x])
        # UNIX_EPOCH + t.duration_since(UNIX_EPOCH)? == t
        if _id(a) == 'const:std::time::UNIX_EPOCH':
            d = b
            while d[0] == 'suffix' and d[2] == '.0':
                d = d[1]
            if d[0] == 'app' and d[1] in ('duration_since', 'Some', 'Ok'):
                inner = d
                if d[1] in ('Some', 'Ok'):
                    inner = d[2][0]
                    while inner[0] == 'suffix' and inner[2] == '.0':
                        inner = inner[1]
                if inner[0] == 'app' and inner[1] == 'duration_since' and len(inner[2]) == 2 and _id(inner[2][1]) == 'const:std::time::UNIX_EPOCH':
                    return ('app', 'Some', [inner[2][0]])
    if h == 'Duration::new' and len(args) == 2:
        x, y = proj('as_secs', args[0]), proj('subsec_nanos', args[1])
        if same(x, y):
            return x
    # -- cells and atomics: T::new(x.get()) / new(*x.borrow()) / new(x.load(_)) hold the same value
    if h == 'new' and len(args) == 1:
        for p in ('get', 'cell', 'load'):
            x = proj(p, args[0])
            if x is not None:
                return x
    # -- Box::new(*x) == x ; the pointer read is how the interpreter names `**self` of a Box
    if h == 'Box' and len(args) == 1:
        m = re.match(r'^transmute\((.*)\.0\.pointer\)\*$', show(args[0]))
        if m:
            return parse(m.group(1))
    # -- owned strings / paths: String::from(s) of the str written for x; Path::new(s).to_path_buf(); CString::from(CStr)
    def whole(x):
        """the data argument of a (possibly already folded) slice term"""
        return x[2][0] if x[0] == 'app' and x[1] == 'slice' and x[2] else x

    def unsuffix(x):
        while x[0] == 'suffix':
            x = x[1]
        return x
    if h == 'String::from' and len(args) == 1:
        return whole(args[0])                             # String::from(s) holds the characters of s
    if h == 'to_path_buf' and len(args) == 1:
        a = args[0]
        if a[0] == 'app' and a[1] == 'Path::new' and a[2]:
            x = proj('to_str', unsuffix(whole(a[2][0])))   # PathBuf from the text p.to_str() gave
            if x is not None:
                y = proj('as_path', x)
                return y if y is not None else x
    if h == 'from' and len(args) == 1:
        a = unsuffix(args[0])
        if a[0] == 'app' and a[1] == 'from_bytes_with_nul' and a[2]:
            x = proj('to_bytes_with_nul', whole(a[2][0]))   # CString::from(CStr::from_bytes_with_nul(c.to_bytes_with_nul()))
            if x is not None:
                y = proj('as_c_str', x)
                return y if y is not None else x
    # -- RangeInclusive::new(*r.start(), *r.end()) == r
    if h == 'RangeInclusive::new' and len(args) == 2:
        x, y = proj('start', args[0]), proj('end', args[1])
        if same(x, y):
            return x
    # -- Cow::Owned(x.as_ref().to_owned()) == x (as a value)
    if head.startswith('Cow#1') and len(args) == 1:
        x = proj('as_ref', args[0])
        if x is not None:
            return x
    # -- NonZero::new(x.get()) == x ; `nz:x` is the interpreter's name for the checked constructor applied to x.get()
    if head.startswith('NonZero#0') and len(args) == 1 and _id(args[0]) and _id(args[0]).startswith('nz:'):
        return ('id', _id(args[0])[3:])
    return t


def fold_fields(t, adts):
    """T#v(x.f1, x.f2, ..) with the fields of one opaque x in declaration order -> x"""
    if t[0] == 'id':
        return t
    if t[0] == 'suffix':
        return ('suffix', fold_fields(t[1], adts), t[2])
    head, args = t[1], [fold_fields(a, adts) for a in t[2]]
    t = ('app', head, args)
    m = re.match(r'^(\w+)#(\d+)$', head)
    if m and args:
        cands = [a for name, a in adts.items() if name.split('::')[-1] == m.group(1)]
        for ad in cands:
            vi = int(m.group(2))
            if vi >= len(ad['variants']) or ad['kind'] != 'struct':
                continue
            names = ad['variants'][vi]['fields']
            if len(names) != len(args):
                continue
            bases = set()
            good = True
            for nm, a in zip(names, args):
                s_ = show(a)
                mm = re.match(r'^(.*)\.%s$' % re.escape(str(nm)), s_)
                if not mm:
                    good = False
                    break
                bases.add(mm.group(1))
            if good and len(bases) == 1:
                return parse(bases.pop())
    return t


def norm_term(s, adts):
    t = parse(s)
    for _ in range(8):
        t2 = fold_fields(rewrite(t), adts)
        if show(t2) == show(t):
            break
        t = t2
    # unwrap a `Some(x)` / `.0` left by the checked constructors on the success path
    while True:
        if t[0] == 'suffix' and t[2] == '.0' and t[1][0] == 'app' and t[1][1] in ('Some', 'Ok') and len(t[1][2]) == 1:
            t = t[1][2][0]
            continue
        break
    return strip_input(t)


def normalise(s, adts):
    return show(norm_term(s, adts))


def equal_values(self_repr, dec_repr, adts):
    """(True, None) or (False, (normalised self, normalised decoded))"""
    a, b = norm_term(self_repr, adts), norm_term(dec_repr, adts)
    if show(a) == show(b):
        return True, None
    # `x.into()` into an enum wrapper: From<Ipv4Addr> for IpAddr is V4, etc. - the target variant is fixed by the argument's type
    if b[0] == 'app' and b[1] == 'into' and len(b[2]) == 1 and a[0] == 'app' and re.match(r'^\w+#\d+$', a[1]) and len(a[2]) == 1 and show(a[2][0]) == show(b[2][0]):
        return True, None
    # a type with a single field-less value (PhantomData)
    if a[0] == 'id' and b[0] == 'app' and re.match(r'^\w+#0$', b[1]) and not b[2]:
        return True, None
    return False, (show(a), show(b))


UNDECIDED = ('havoc#', 'read(repeat')      # collections / arrays: one representative element (level note of C01)
