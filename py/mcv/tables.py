"""Normalised L1 tables extracted by the range analysis (shared by several properties)."""
from .absint import Int, Atom, Adt, BeBytes, Abort, iv_str, iv_min, iv_max, lin_add, State
from . import l1, oracle, mir

ENC_METHODS = ['u8', 'i8', 'u16', 'i16', 'u32', 'i32', 'u64', 'i64', 'int', 'null', 'undefined', 'simple',
               'f16', 'f32', 'f64', 'bool', 'char', 'tag', 'bytes', 'str', 'array', 'map',
               'begin_array', 'begin_bytes', 'begin_map', 'begin_str', 'end']


class Row:
    def __init__(self, st, kind, stream, result, flags, events):
        self.st = st
        self.kind = kind
        self.stream = stream   # flattened byte terms
        self.result = result   # 'Ok' / 'Err' / '?'
        self.flags = flags
        self.events = events

    def cell(self, syms=None):
        return l1.fmt_cell(self.st, syms)


def flatten_puts(events):
    out = []
    for e in events:
        if e[0] == 'PUT':
            out.extend(e[1])
    return out


def recombine(stream, st, m=None):
    """a run of byte symbols (absint.be_byte) that are the trailing k bytes of the n-byte image of v, on a cell where v < 256^k,
    is the k-byte big-endian image of v"""
    bs = st.extra.get('bytesyms') or {}
    if not bs:
        return stream
    out = []
    i = 0
    while i < len(stream):
        t = stream[i]
        info = None
        if isinstance(t, Int):
            sg = t.single()
            if sg and sg[1] == 1 and sg[2] == 0 and sg[0] in bs:
                info = bs[sg[0]]
        if info is None:
            out.append(t)
            i += 1
            continue
        val, n, idx = info[:3]
        k = n - idx
        run = [t]
        j = i + 1
        want = idx + 1
        while j < len(stream) and want < n:
            u = stream[j]
            inf2 = None
            if isinstance(u, Int):
                sg2 = u.single()
                if sg2 and sg2[1] == 1 and sg2[2] == 0 and sg2[0] in bs:
                    inf2 = bs[sg2[0]]
            if inf2 is None or inf2[1] != n or inf2[2] != want or inf2[0] != val:
                # the lowest byte may have been resolved to `val - base` already
                break
            run.append(u)
            want += 1
            j += 1
        if want == n:
            lo = hi = None
            try:
                lo = val.c + sum(min(iv_min(st.ranges[s_]) * k_, iv_max(st.ranges[s_]) * k_) for s_, k_ in val.terms)
                hi = val.c + sum(max(iv_min(st.ranges[s_]) * k_, iv_max(st.ranges[s_]) * k_) for s_, k_ in val.terms)
            except KeyError:
                pass
            if lo is not None and lo >= 0 and hi < 1 << (8 * k):
                out.append(BeBytes(val, k, 'be'))
                i = j
                continue
        out.append(t)
        i += 1
    return out


_enc_cache = {}


def enc_rows(prog, method):
    """rows of Encoder::<method>; for `tag` the instantiation with T = Tag is used"""
    key = (id(prog), method)
    if key in _enc_cache:
        return _enc_cache[key]
    m = l1.encoder_machine(prog)
    if method == 'tag':
        cands = [i for i in prog.find(l1.ENC + 'tag') if i['args'][-1].endswith('data::Tag')]
        inst = cands[0] if cands else None
    else:
        inst = prog.one(l1.ENC + method)
    if inst is None:
        _enc_cache[key] = None
        return None
    st = State()
    body = inst['body']
    names = dict((l, n) for l, n in body['names'])
    args = [m.make_value(st, body['locals'][i], names.get(i, 'a%d' % i)) for i in range(1, body['argc'] + 1)]
    outs = m.run(inst, args, st)
    rows = []
    for o in outs:
        rows.append(Row(o.st, o.kind, recombine(flatten_puts(o.st.events), o.st), l1.result_kind(o.value) if o.kind == 'return' else 'diverge', set(o.st.flags), list(o.st.events)))
    res = (inst, rows, m)
    _enc_cache[key] = res
    return res


def term_eq(a, b):
    if isinstance(a, Int) and isinstance(b, Int):
        return a == b
    if isinstance(a, BeBytes) and isinstance(b, BeBytes):
        return a.n == b.n and a.kind == b.kind and term_eq(a.val, b.val)
    if isinstance(a, Atom) and isinstance(b, Atom):
        return a.name == b.name
    return a == b


def stream_eq(a, b):
    return len(a) == len(b) and all(term_eq(x, y) for x, y in zip(a, b))


def expected_head(m, st, major, arg):
    """RFC 8949 preferred head for (major, arg) on the current cell; returns (terms, None) or (None, reason)"""
    if arg.is_const():
        lo = hi = arg.c
    else:
        lo, hi = m.rng(st, arg)
    r = oracle.regime(lo, hi)
    if r is None:
        return None, 'argument range [%#x, %#x] straddles a preferred-serialisation boundary' % (lo, hi)
    w = r[2]
    if w == 0:
        return [lin_add(arg, Int.const(major << 5), 1)], None
    head = Int.const((major << 5) | oracle.INFO_FOR_WIDTH[w])
    if w == 1:
        return [head, arg], None
    return [head, BeBytes(arg, w, 'be')], None


def fmt_stream(s):
    return '[' + ', '.join(repr(x) if not isinstance(x, Int) or not x.is_const() else '%#04x' % x.c for x in s) + ']'


# ---------------------------------------------------------------------------
# decoder tables

class DRow:
    def __init__(self, prog, o):
        self.st = o.st
        self.kind = o.kind
        self.events = list(o.st.events)
        self.flags = set(o.st.flags)
        self.why = o.why
        if o.kind == 'return':
            self.result, self.value = l1.describe_result(prog, o.value)
        else:
            self.result, self.value = 'diverge', None
        self.raw = o.value

    def consumed(self):
        return [e for e in self.events if e[0] in ('READ1', 'READN', 'READSLICE')]

    def eoi(self):
        return [e for e in self.events if e[0] == 'EOI']

    def cell(self):
        syms = set()
        for e in self.events:
            if e[0] in ('READ1', 'CUR'):
                syms.add(e[1])
            elif e[0] == 'READN':
                syms.add(e[2])
            elif e[0] == 'PEEK':
                syms.add(e[1])
        return l1.fmt_cell(self.st, syms)


_dec_cache = {}


def dec_rows(prog, path, max_configs=6000):
    key = (id(prog), path)
    if key in _dec_cache:
        return _dec_cache[key]
    inst = prog.one(path)
    if inst is None:
        _dec_cache[key] = None
        return None
    m = l1.decoder_machine(prog, max_configs=max_configs)
    st = State()
    body = inst['body']
    names = dict((l, n) for l, n in body['names'])
    args = [m.make_value(st, body['locals'][i], names.get(i, 'a%d' % i)) for i in range(1, body['argc'] + 1)]
    outs = m.run(inst, args, st)
    outs = split_cond_results(outs)
    rows = [DRow(prog, o) for o in outs]
    res = (inst, rows, m)
    _dec_cache[key] = res
    return res


def split_cond_results(outs):
    """an accessor that returns a comparison of a byte it read (`Ok(b == 0xf5)`, `Ok(Token::Bool(b == 0xf5))`) has one path for two
    table cells: the row is split at the comparison so that each cell carries its constant"""
    from .absint import Cond, Outcome, Tup, iv_and, iv_sub
    from .prims import RESULT, norm_adt

    def find(v, depth=0):
        if isinstance(v, Cond):
            return v
        if depth > 6:
            return None
        kids = v.fields if isinstance(v, (Adt, Tup)) else ()
        for k in kids:
            c = find(k, depth + 1)
            if c is not None:
                return c
        return None

    def subst(v, c, const):
        if v is c:
            return Int.const(const)
        if isinstance(v, Adt):
            return Adt(v.adt, v.variant, [subst(k, c, const) for k in v.fields])
        if isinstance(v, Tup):
            return Tup([subst(k, c, const) for k in v.fields])
        return v
    work = list(outs)
    res = []
    guard = 0
    while work:
        o = work.pop(0)
        guard += 1
        v = o.value
        c = None
        if guard < 4000 and o.kind == 'return' and isinstance(v, Adt) and norm_adt(v.adt) == RESULT and v.variant == 0 and v.fields:
            c = find(v.fields[0])
        rng = o.st.ranges.get(c.sym) if c is not None else None
        if c is None or rng is None:
            res.append(o)
            continue
        parts = [(p_, b_) for p_, b_ in ((iv_and(rng, c.tset), 1), (iv_sub(rng, c.tset), 0)) if p_]
        for p_, b_ in parts:
            st2 = o.st.clone()
            st2.ranges[c.sym] = p_
            work.append(Outcome(st2, o.kind, subst(v, c, b_), o.why))
    return res
