#!/usr/bin/env python3
"""Confirm a seeded change in a scratch worktree of /repo: it applies, the workspace tests still pass with it,
and its demonstration fails with it and passes without.  Usage: confirm_seed.py <out_dir> <n> <seed-name>"""
import json, os, re, shutil, subprocess, sys, time

out, n, name = sys.argv[1], sys.argv[2], sys.argv[3]
patch = os.path.join(out, 'patch_%s.diff' % n)
demo = os.path.join(out, 'demo_%s.rs' % n)
meta = json.load(open(os.path.join(out, 'meta_%s.json' % n)))
wt = '/tmp/confirm/' + name
dst = '/verif/seeded/' + name
os.makedirs('/tmp/confirm', exist_ok=True)
if os.path.exists(wt):
    subprocess.run(['git', '-C', '/repo', 'worktree', 'remove', '--force', wt])
subprocess.check_call(['git', '-C', '/repo', 'worktree', 'add', '-q', '--detach', wt, 'HEAD'])
env = dict(os.environ, CARGO_TARGET_DIR=wt + '/target', CARGO_NET_OFFLINE='true')
log = []


def sh(cmd, **kw):
    p = subprocess.run(cmd, shell=True, cwd=wt, env=env, stdout=subprocess.PIPE, stderr=subprocess.STDOUT, text=True, **kw)
    log.append('$ %s\n(rc=%d)\n%s' % (cmd, p.returncode, '\n'.join(p.stdout.splitlines()[-25:])))
    return p.returncode, p.stdout

first = open(demo).readline()
m = re.search(r'([\w\-/\.]+\.rs)', first)
place = m.group(1) if m else 'minicbor-tests/tests/seed_demo.rs'
cmdm = re.search(r'(cargo test[^\n]*)', open(demo).read()[:600])
democmd = cmdm.group(1).strip().rstrip('`).,;').strip() if cmdm else None
if democmd is None:
    democmd = 'cargo test -p minicbor-tests --features std --test %s --offline' % os.path.basename(place)[:-3]
democmd = re.split(r'\s{2,}|\s\(|\s#', democmd)[0].strip()
if '--offline' not in democmd:
    democmd += ' --offline'
res = {'name': name, 'place': place, 'democmd': democmd}
os.makedirs(os.path.dirname(os.path.join(wt, place)), exist_ok=True)
shutil.copy(demo, os.path.join(wt, place))
rc, _ = sh(democmd)
res['demo_without'] = rc
rc, o = sh('git apply %s' % patch)
res['apply'] = rc
rc, o = sh('cargo test --workspace --no-fail-fast --offline 2>&1 | grep -E "^test result|FAILED|failed|error(\\[|:)" | head -40')
res['suite_out'] = o[-1500:]
res['suite_ok'] = ('FAILED' not in o) and ('error' not in o) and ('test result: ok' in o)
os.remove(os.path.join(wt, place))
rc2, o2 = sh('cargo test --workspace --no-fail-fast --offline 2>&1 | grep -E "^test result|FAILED|failed|error(\\[|:)" | head -40')
res['suite_ok'] = ('FAILED' not in o2) and ('error' not in o2) and ('test result: ok' in o2)
shutil.copy(demo, os.path.join(wt, place))
rc, _ = sh(democmd)
res['demo_with'] = rc
res['confirmed'] = bool(res['demo_without'] == 0 and res['apply'] == 0 and res['suite_ok'] and res['demo_with'] != 0)
if res['confirmed']:
    os.makedirs(dst, exist_ok=True)
    shutil.copy(patch, os.path.join(dst, 'patch.diff'))
    shutil.copy(demo, os.path.join(dst, os.path.basename(place)))
    meta2 = {'property': meta.get('property'), 'summary': meta.get('summary'), 'needs': meta.get('needs'),
             'demo_path': place, 'demo_cmd': democmd,
             'confirmed': {'demo_passes_without_patch': True, 'patch_applies': True, 'workspace_tests_pass_with_patch': True, 'demo_fails_with_patch': True,
                           'when': time.strftime('%F %T'), 'how': 'tools/confirm_seed.py in scratch worktree ' + wt},
             'agent_ran': meta.get('ran')}
    json.dump(meta2, open(os.path.join(dst, 'meta.json'), 'w'), indent=1)
open('/tmp/confirm/%s.log' % name, 'w').write('\n\n'.join(log) + '\n\n' + json.dumps(res, indent=1))
subprocess.run(['git', '-C', '/repo', 'worktree', 'remove', '--force', wt])
shutil.rmtree(wt, ignore_errors=True)
print(json.dumps({k: v for k, v in res.items() if k != 'suite_out'}))
