#!/usr/bin/env python3
"""Regenerates MANIFEST.json from the table below (keeps it schema-valid at all times)."""
import json, os, sys
V = os.path.abspath(os.path.join(os.path.dirname(__file__), '..'))
props = [json.loads(l) for l in open(os.path.join(V, 'properties.jsonl'))]

TECH = 'static analysis: value-range abstract interpretation of exported MIR (complete input->output tables) + dominance/who-may-call rules'
CLAIMS = json.load(open(os.path.join(V, 'tools', 'claims.json')))

checks = []
na = []
for p in props:
    c = CLAIMS.get(p['id'])
    if not c or not c.get('claimed'):
        na.append({'property_id': p['id'], 'reason': (c or {}).get('reason', 'check not built yet (work in progress; see DESIGN.md section 9)')})
        continue
    checks.append({
        'property_id': p['id'],
        'quick_cmd': './bin/check %s --tier quick' % p['id'],
        'thorough_cmd': './bin/check %s --tier thorough' % p['id'],
        'evidence_file': '/verif/evidence/%s.json' % p['id'],
        'replay_cmd_template': './bin/check --replay {path}',
        'engine': 'mcv',
        'level_claimed': {'category': 'other', 'text': c['text'], 'design_ref': c.get('design_ref', 'DESIGN.md section 5')},
        'level_note': c['note'],
        'technique': c.get('technique', TECH),
    })
m = {
    'version': 1,
    'setup_cmd': './bin/setup',
    'hooks': {'guard': 'minicbor_verif', 'enable': 'none: static analysis needs no instrumentation; /repo is only compiled under the analysis driver',
              'baseline_off_cmd': 'cd /repo && cargo test --workspace --no-fail-fast --offline', 'source_commits': [], 'add_only': True},
    'engines': [
        {'name': 'mcv-export', 'path': 'driver/', 'serves_properties': [c['property_id'] for c in checks], 'kind_free_text': 'rustc_private driver exporting resolved MIR instances, impl tables, coroutine layouts as JSON facts'},
        {'name': 'mcv', 'path': 'py/mcv/', 'serves_properties': [c['property_id'] for c in checks], 'kind_free_text': 'Python: CFG/dominators, value-range abstract interpreter (L1 byte tables, L2 item summaries), rule catalogue, oracles'},
        {'name': 'harness', 'path': 'harness/', 'serves_properties': ['C07', 'C08', 'C09', 'C10', 'C02'], 'kind_free_text': 'generated derive schema corpus, positive-control fixtures, compile-fail witnesses (compiled, never run)'},
    ],
    'checks': checks,
    'notes': 'Every check decides its property from the MIR / attribute structure exported from /repo on that run; nothing from /repo is executed. Clause-level limits are in DESIGN.md section 6 and in each level_note.',
    'not_applicable': na,
}
json.dump(m, open(os.path.join(V, 'MANIFEST.json'), 'w'), indent=1)
print('claimed:', [c['property_id'] for c in checks])
