#!/usr/bin/env python3
"""Generates the derive schema corpus: harness/schemas/src/lib.rs + harness/schemas/schemas.json.

The corpus is designed so that every `quote!` template of minicbor-derive (encode.rs, decode.rs,
cbor_len.rs) is expanded at least once (see DESIGN.md Appendix B).  Deterministic.
With --random N --seed S extra random schemas are appended (thorough tier).
"""
import json, os, random, sys

V = os.path.abspath(os.path.join(os.path.dirname(__file__), '..'))

LEAF_TYPES = ['u8', 'u16', 'u32', 'u64', 'i8', 'i16', 'i32', 'i64', 'bool', 'char', 'f32', 'f64', 'String']


def F(name, ty, idx, b=False, tag=None, skip=False, codec=None, nilable=None, long=None):
    """nilable: the field type is not spelled Option<..> but *is* an Option (type alias) - nil by the Encode/Decode traits
    long: spelling of the index attribute: 'cbor' = #[cbor(n(1))] / #[cbor(b(1))], 'merged' = the index inside the same #[cbor(..)]
    list as the tag"""
    return {'name': name, 'ty': ty, 'idx': idx, 'b': b, 'tag': tag, 'skip': skip, 'codec': codec, 'nilable': nilable, 'long': long}


def S(name, kind, fields=(), enc=None, tag=None, transparent=False, lifetimes=False, generics=None, doc=''):
    return {'name': name, 'kind': kind, 'fields': list(fields), 'enc': enc, 'tag': tag, 'transparent': transparent,
            'lifetimes': lifetimes, 'generics': generics or [], 'doc': doc}


def Var(name, idx, kind='unit', fields=(), enc=None, tag=None):
    return {'name': name, 'idx': idx, 'kind': kind, 'fields': list(fields), 'enc': enc, 'tag': tag}


def E(name, variants, enc=None, tag=None, index_only=False, lifetimes=False, generics=None, doc=''):
    return {'name': name, 'kind': 'enum', 'variants': list(variants), 'enc': enc, 'tag': tag, 'index_only': index_only,
            'lifetimes': lifetimes, 'generics': generics or [], 'transparent': False}


def corpus():
    C = []
    # --- structs, array encoding -------------------------------------------------------
    C.append(S('A00', 'struct', [F('f00', 'u8', 0), F('f01', 'String', 1), F('f02', 'bool', 2)]))
    C.append(S('A01', 'struct', [F('f00', 'u32', 0), F('f01', 'Option<u16>', 1), F('f02', 'Option<String>', 2)]))
    C.append(S('A02', 'struct', [F('f00', 'Option<u8>', 0), F('f01', 'u64', 1), F('f02', 'Option<i32>', 2)]))
    C.append(S('A03', 'struct', [F('f00', 'u8', 2), F('f01', 'Option<u8>', 5), F('f02', 'i64', 7)], doc='gaps'))
    C.append(S('A04', 'struct', [F('f00', 'u8', 3), F('f01', 'u8', 0), F('f02', 'Option<u8>', 1)], doc='declaration order != index order'))
    C.append(S('A05', 'struct', [F('f00', 'u8', 0), F('f01', 'Option<u8>', 1, tag=5), F('f02', 'u8', 2)], doc='tagged optional in the middle'))
    C.append(S('A06', 'struct', [F('f00', 'u8', 1, tag=7), F('f01', 'String', 4, tag=300)], tag=99, doc='struct tag + field tags + gaps'))
    C.append(S('A07', 'struct', [F('f00', 'u8', 0), F('f01', 'u16', 0, skip=True), F('f02', 'Option<u8>', 1)], doc='skipped field'))
    C.append(S('A08', 'tuple', [F('_0', 'u8', 0), F('_1', 'Option<u16>', 1), F('_2', 'String', 2)]))
    C.append(S('A09', 'tuple', [F('_0', 'u8', 2), F('_1', 'u16', 0), F('_2', 'Option<u8>', 4)], doc='tuple with gaps and permuted indices'))
    C.append(S('A10', 'unit', []))
    C.append(S('A11', 'struct', [F('f00', 'Option<u8>', 0), F('f01', 'Option<u8>', 1), F('f02', 'Option<u8>', 2), F('f03', 'Option<u8>', 3)], doc='all optional'))
    C.append(S('A12', 'struct', [F('f00', "&'a str", 0, b=True), F('f01', "Cow<'a, str>", 1, b=True), F('f02', "Cow<'a, str>", 2)], lifetimes=True, doc='borrowing'))
    C.append(S('A13', 'struct', [F('f00', 'Vec<u8>', 0, codec='bytes'), F('f01', 'Option<Vec<u8>>', 1, codec='bytes'), F('f02', '[u8; 4]', 2, codec='bytes')]))
    C.append(S('A14', 'struct', [F('f00', 'u8', 0), F('f01', 'Opaque', 1, codec='custom'), F('f02', 'Opaque', 3, codec='custom_nil')], doc='custom codecs'))
    C.append(S('A15', 'struct', [F('f00', 'T', 0), F('f01', 'Option<T>', 1)], generics=['T'], doc='generic'))
    C.append(S('A16', 'struct', [F('f00', 'A00', 0), F('f01', 'Option<A01>', 1), F('f02', 'Vec<A00>', 2)], doc='nested'))
    C.append(S('A17', 'struct', [F('f00', 'u8', 0)], transparent=True))
    C.append(S('A18', 'tuple', [F('_0', 'String', 0)], transparent=True))
    C.append(S('A19', 'struct', [F('f00', 'u8', 0), F('f01', 'u8', 1)], tag=1000))
    # --- structs, map encoding -------------------------------------------------------------
    C.append(S('M00', 'struct', [F('f00', 'u8', 0), F('f01', 'String', 1), F('f02', 'bool', 2)], enc='map'))
    C.append(S('M01', 'struct', [F('f00', 'u32', 0), F('f01', 'Option<u16>', 1), F('f02', 'Option<String>', 2)], enc='map'))
    C.append(S('M02', 'struct', [F('f00', 'u8', 9), F('f01', 'Option<u8>', 2), F('f02', 'i64', 300)], enc='map', doc='unsorted declaration, large index'))
    C.append(S('M03', 'struct', [F('f00', 'u8', 0, tag=2), F('f01', 'Option<u8>', 1, tag=3)], enc='map', tag=4))
    C.append(S('M04', 'tuple', [F('_0', 'u8', 1), F('_1', 'Option<u16>', 0)], enc='map'))
    C.append(S('M05', 'struct', [F('f00', 'u8', 0), F('f01', 'u16', 0, skip=True), F('f02', 'Option<u8>', 5)], enc='map'))
    C.append(S('M06', 'struct', [F('f%02d' % i, 'Option<u8>' if i % 5 == 3 else 'u8', i) for i in range(24)], enc='map', doc='24 fields: header length crosses 23'))
    C.append(S('M07', 'struct', [F('f00', "&'a str", 0, b=True), F('f01', "Option<&'a str>", 1, b=True)], enc='map', lifetimes=True))
    C.append(S('M08', 'struct', [F('f00', 'Opaque', 0, codec='custom_nil'), F('f01', 'Vec<u8>', 1, codec='bytes')], enc='map'))
    C.append(S('M09', 'unit', [], enc='map'))
    # --- enums ---------------------------------------------------------------------------------
    C.append(E('E00', [Var('V0', 0), Var('V1', 1), Var('V2', 7)]))
    C.append(E('E01', [Var('V0', 0), Var('V1', 1), Var('V2', 2)], index_only=True))
    C.append(E('E02', [Var('V0', 0), Var('V1', 1, 'named', [F('f00', 'u8', 0), F('f01', 'Option<u8>', 1)]),
                       Var('V2', 2, 'tuple', [F('_0', 'String', 0), F('_1', 'Option<u16>', 1)])]))
    C.append(E('E03', [Var('V0', 0), Var('V1', 1, 'named', [F('f00', 'u8', 0), F('f01', 'Option<u8>', 1)]),
                       Var('V2', 2, 'tuple', [F('_0', 'String', 0), F('_1', 'Option<u16>', 1)])], enc='map'))
    C.append(E('E04', [Var('V0', 0, enc='map'), Var('V1', 1, 'named', [F('f00', 'u8', 0)], enc='map'),
                       Var('V2', 2, 'tuple', [F('_0', 'u8', 3)], enc='array')], enc='array', doc='variant-level encoding overrides'))
    C.append(E('E05', [Var('V0', 0, tag=10), Var('V1', 1, 'named', [F('f00', 'u8', 0, tag=11)], tag=12),
                       Var('V2', 2, 'tuple', [F('_0', 'u8', 0)])], tag=13, doc='tags at every level'))
    C.append(E('E06', [Var('V0', 0, 'named', [F('f00', 'u8', 2), F('f01', 'Option<u8>', 0), F('f02', 'u8', 5)]),
                       Var('V1', 1, 'tuple', [F('_0', 'u8', 1), F('_1', 'u8', 0, skip=True), F('_2', 'Option<u8>', 3)])], doc='gaps/skips in variants'))
    C.append(E('E07', [Var('V0', 3, 'named', [F('f00', 'T', 0)]), Var('V1', 4)], generics=['T']))
    C.append(E('E08', [Var('V0', 0, 'named', [F('f00', "&'a str", 0, b=True)]), Var('V1', 1, 'tuple', [F('_0', "Cow<'a, str>", 0, b=True)])], lifetimes=True))
    C.append(E('E09', [Var('V0', 0, enc='array'), Var('V1', 1, 'named', [F('f00', 'Option<u8>', 0), F('f01', 'Option<u8>', 1)])], enc='map', doc='enum-level map, unit variant array'))
    # struct holding enums as optional fields (for C10 unknown-variant handling)
    C.append(S('H00', 'struct', [F('f00', 'u8', 0), F('f01', 'Option<E00>', 1), F('f02', 'u8', 2)]))
    C.append(S('H01', 'struct', [F('f00', 'u8', 0), F('f01', 'Option<E01>', 1), F('f02', 'u8', 2)], doc='index_only enum as optional field'))
    C.append(S('H02', 'struct', [F('f00', 'u8', 0), F('f01', 'Option<E02>', 1), F('f02', 'u8', 2)], enc='map'))
    # --- borrowing x codec x container kind (every #[b] form: the decoded value must point into the input) ----------------
    C.append(S('B00', 'struct', [F('f00', "Cow<'a, [u8]>", 0, b=True, codec='bytes'), F('f01', "&'a [u8]", 1, b=True, codec='bytes'),
                                 F('f02', "&'a ByteSlice", 2, b=True), F('f03', "Cow<'a, ByteSlice>", 3, b=True)], lifetimes=True, doc='borrowed byte strings, array'))
    C.append(S('B01', 'struct', [F('f00', "Cow<'a, [u8]>", 4, b=True, codec='bytes'), F('f01', "Option<&'a [u8]>", 1, b=True, codec='bytes'),
                                 F('f02', "Cow<'a, str>", 2, b=True), F('f03', "Option<&'a str>", 0, b=True)], enc='map', lifetimes=True, doc='borrowed strings, map'))
    C.append(E('B02', [Var('V0', 0, 'named', [F('f00', "Cow<'a, [u8]>", 0, b=True, codec='bytes'), F('f01', "Cow<'a, ByteSlice>", 1, b=True)]),
                       Var('V1', 1, 'tuple', [F('_0', "&'a ByteSlice", 0, b=True), F('_1', "Cow<'a, str>", 1, b=True)], enc='map')], lifetimes=True, doc='borrowing inside enum variants'))
    C.append(S('B03', 'tuple', [F('_0', "Cow<'a, [u8]>", 0, b=True, codec='bytes')], transparent=True, lifetimes=True, doc='transparent, borrowed bytes with codec'))
    C.append(S('B04', 'struct', [F('f00', "Cow<'a, str>", 0, b=True)], transparent=True, lifetimes=True, doc='transparent, borrowed str'))
    C.append(S('B05', 'tuple', [F('_0', "Cow<'a, ByteSlice>", 0, b=True)], transparent=True, lifetimes=True, doc='transparent, borrowed ByteSlice'))
    # --- the long spellings of the index attribute: #[cbor(n(N))], #[cbor(b(N))], and the index merged with a tag --------------
    C.append(S('L00', 'struct', [F('f00', "Cow<'a, str>", 0, b=True, long='cbor'), F('f01', "Cow<'a, ByteSlice>", 1, b=True, long='cbor'),
                                 F('f02', 'u8', 2, long='cbor'), F('f03', "Option<&'a str>", 3, b=True, long='cbor')], lifetimes=True, doc='long-form index attributes, array'))
    C.append(S('L01', 'struct', [F('f00', "Cow<'a, str>", 2, b=True, long='merged', tag=7), F('f01', "Cow<'a, [u8]>", 0, b=True, long='cbor', codec='bytes'),
                                 F('f02', 'Option<u16>', 1, long='merged', tag=9)], enc='map', lifetimes=True, doc='long-form index merged with a tag, map'))
    C.append(E('L02', [Var('V0', 0, 'named', [F('f00', "Cow<'a, str>", 0, b=True, long='cbor'), F('f01', 'u8', 1, long='cbor')]),
                       Var('V1', 1, 'tuple', [F('_0', "Cow<'a, ByteSlice>", 0, b=True, long='cbor')], enc='map')], lifetimes=True, doc='long-form borrowing inside enum variants'))
    C.append(S('L03', 'tuple', [F('_0', "Cow<'a, str>", 0, b=True, long='cbor')], transparent=True, lifetimes=True, doc='transparent, long-form borrow'))
    # --- Option spelled with its path, with and without a codec; enums whose variants are not declared in index order ----------------
    C.append(S('Q00', 'struct', [F('f00', 'u8', 0), F('f01', 'core::option::Option<u8>', 1), F('f02', 'std::option::Option<String>', 2)], doc='path-qualified Option, array'))
    C.append(S('Q01', 'struct', [F('f00', 'u8', 0), F('f01', "core::option::Option<&'a [u8]>", 1, b=True, codec='bytes'), F('f02', "std::option::Option<Cow<'a, [u8]>>", 3, b=True, codec='bytes')],
               enc='map', lifetimes=True, doc='path-qualified Option with a codec that has no nil functions, map'))
    C.append(S('Q02', 'struct', [F('f00', "alloc::borrow::Cow<'a, str>", 0, b=True), F('f01', "alloc::borrow::Cow<'a, ByteSlice>", 1, b=True),
                                 F('f02', "::alloc::borrow::Cow<'a, str>", 2, b=True), F('f03', "Option<alloc::borrow::Cow<'a, str>>", 3, b=True)], lifetimes=True,
               doc='path-qualified Cow (alloc::borrow::Cow) in borrowing fields'))
    C.append(S('Q03', 'tuple', [F('_0', "alloc::borrow::Cow<'a, str>", 0, b=True)], transparent=True, lifetimes=True, doc='transparent, alloc::borrow::Cow'))
    C.append(E('E17', [Var('V2', 2), Var('V0', 0, 'tuple', [F('_0', 'u8', 0)]), Var('V1', 1, 'named', [F('f00', 'u8', 0), F('f01', 'Option<u8>', 1)])], doc='variants declared out of index order'))
    C.append(E('E18', [Var('V3', 3), Var('V1', 1), Var('V2', 2)], index_only=True, doc='index_only, variants declared out of index order'))
    # --- tag numbers and indices at the width boundaries of a CBOR head (23|24, 2^8-1|2^8, 2^16-1|2^16, 2^32-1|2^32, 2^64-1) at
    #     every level a tag / an index can be written: a length or head computed at expansion time from a hand-made table shows here
    C.append(S('W00', 'struct', [F('f00', 'u8', 0, tag=24), F('f01', 'u8', 1, tag=255), F('f02', 'Option<u8>', 2, tag=256)], tag=23, doc='tags at 23|24, 255|256'))
    C.append(S('W01', 'struct', [F('f00', 'u8', 0, tag=65536), F('f01', 'String', 1, tag=4294967295)], tag=65535, enc='map', doc='tags at 65535|65536, 2^32-1'))
    C.append(S('W02', 'struct', [F('f00', 'u8', 0, tag=18446744073709551615)], tag=4294967296, doc='tags at 2^32, 2^64-1'))
    C.append(E('W03', [Var('V0', 0, tag=255), Var('V1', 1, 'named', [F('f00', 'u8', 0, tag=24)], tag=65535), Var('V2', 2, 'tuple', [F('_0', 'u8', 0)], tag=4294967295)],
               tag=23, doc='boundary tags on an enum and its variants'))
    C.append(S('W04', 'struct', [F('f00', 'u8', 23), F('f01', 'u8', 24), F('f02', 'Option<u8>', 255), F('f03', 'u8', 256), F('f04', 'Option<u8>', 65535), F('f05', 'u8', 65536),
                                 F('f06', 'u8', 4294967295)], enc='map', doc='map keys at the head-width boundaries'))
    C.append(E('W05', [Var('V0', 23), Var('V1', 24, 'tuple', [F('_0', 'u8', 0)]), Var('V2', 255), Var('V3', 256, 'named', [F('f00', 'u8', 0)]), Var('V4', 65535), Var('V5', 65536),
                       Var('V6', 4294967295)], doc='variant indices at the head-width boundaries'))
    C.append(E('W06', [Var('V0', 23), Var('V1', 24), Var('V2', 255), Var('V3', 256), Var('V4', 65535), Var('V5', 65536), Var('V6', 4294967295)], index_only=True,
               doc='index_only, boundary indices'))
    C.append(S('W07', 'struct', [F('f00', 'u8', 0), F('f01', 'Option<u8>', 23), F('f02', 'u8', 24)], doc='array positions across the 23|24 header boundary (gaps filled with null)'))
    # --- values that are nil without being spelled Option<..>, and wrappers around Option that are *not* nil ----------------------
    C.append(S('T00', 'tuple', [F('_0', 'Option<u8>', 0)], transparent=True, doc='transparent newtype around an Option'))
    C.append(S('T01', 'tuple', [F('_0', 'u8', 0, tag=37)], transparent=True, doc='transparent newtype whose field carries a tag attribute (ignored by the derive)'))
    C.append(S('T02', 'struct', [F('f00', 'String', 0, tag=9)], transparent=True, doc='transparent struct, tagged field'))
    C.append(S('N00', 'struct', [F('f00', 'u8', 0), F('f01', 'Box<Option<u8>>', 1), F('f02', 'Option<u8>', 2)], doc='boxed option (never nil) in the middle'))
    C.append(S('N01', 'struct', [F('f00', 'u8', 0), F('f01', 'Box<Option<u8>>', 1)], enc='map', doc='boxed option, map'))
    C.append(S('N02', 'struct', [F('f00', 'u8', 0), F('f01', 'Box<Option<u8>>', 1)], doc='boxed option, trailing'))
    C.append(S('N03', 'struct', [F('f00', 'T00', 0), F('f01', 'u8', 1)], doc='transparent-over-Option, leading'))
    C.append(S('N04', 'struct', [F('f00', 'u8', 0), F('f01', 'T00', 1)], doc='transparent-over-Option, trailing'))
    C.append(S('N05', 'struct', [F('f00', 'u8', 0), F('f01', 'T00', 1)], enc='map', doc='transparent-over-Option, map'))
    C.append(S('N06', 'struct', [F('f00', 'u8', 0), F('f01', 'Tagged<7, Option<u8>>', 1), F('f02', 'u8', 2)], doc='Tagged<N, Option>, middle'))
    C.append(S('N07', 'struct', [F('f00', 'u8', 0), F('f01', 'Tagged<7, Option<u8>>', 1)], enc='map', doc='Tagged<N, Option>, map'))
    C.append(S('N08', 'struct', [F('f00', 'u8', 0), F('f01', 'OptAlias', 1, nilable=True), F('f02', 'u8', 2)], doc='alias of Option: nil through the traits, middle'))
    C.append(S('N09', 'struct', [F('f00', 'u8', 0), F('f01', 'OptAlias', 1, nilable=True)], enc='map', doc='alias of Option, map'))
    C.append(S('N10', 'struct', [F('f00', 'u8', 0), F('f01', 'OptAlias', 1, nilable=True)], doc='alias of Option, trailing'))
    C.append(S('N11', 'struct', [F('f00', 'u8', 0), F('f01', 'OptAlias', 1, nilable=True, codec='decode_only')], enc='map', doc='alias of Option with a decode-only codec'))
    C.append(E('N12', [Var('V0', 0, 'named', [F('f00', 'u8', 0), F('f01', 'OptAlias', 1, nilable=True, codec='decode_only')]),
                       Var('V1', 1, 'tuple', [F('_0', 'T00', 0), F('_1', 'Box<Option<u8>>', 1)], enc='map')], doc='nil-ness inside enum variants'))
    C.append(S('N13', 'struct', [F('f00', 'u8', 0), F('f01', 'Option<Opaque>', 1, codec='custom_nil_opt'), F('f02', 'u8', 2)], doc='Option field whose codec defines nil differently from None'))
    C.append(S('N14', 'struct', [F('f00', 'u8', 0), F('f01', 'Option<Opaque>', 1, codec='custom_nil_opt')], enc='map', doc='same, map'))
    C.append(E('N15', [Var('V0', 0, 'named', [F('f00', 'u8', 0), F('f01', 'Option<Opaque>', 1, codec='custom_nil_opt')], enc='map')], doc='same, enum variant'))
    # --- every spelling of a nil-aware codec (attribute order, split attributes, module form) -----------------------------------
    for k, cd in enumerate(('custom_nil_enc_first', 'custom_nil_dec_first', 'custom_nil_interleaved', 'custom_nil_module', 'custom_nil_module_rev', 'custom_nil_module_split',
                            'custom_nil_dec_nil_enc', 'custom_nil_enc_isnil_dec')):
        C.append(S('K%d0' % k, 'struct', [F('f00', 'u8', 0), F('f01', 'Opaque', 1, codec=cd)], enc='map', doc='codec spelling %s, map' % cd))
        C.append(S('K%d1' % k, 'struct', [F('f00', 'u8', 0), F('f01', 'Opaque', 1, codec=cd), F('f02', 'Option<u8>', 2)], doc='codec spelling %s, array' % cd))
    # --- tuple variants / tuple structs whose declaration order is not the index order, nothing skipped ---------------------------
    C.append(E('E15', [Var('V0', 0, 'tuple', [F('_0', 'u8', 2), F('_1', 'String', 0), F('_2', 'Option<u16>', 1)]),
                       Var('V1', 1, 'tuple', [F('_0', 'bool', 1), F('_1', 'u32', 0)], enc='map')], doc='permuted tuple variants'))
    C.append(E('E16', [Var('V0', 0, 'named', [F('f00', 'u8', 2), F('f01', 'String', 0), F('f02', 'Option<u16>', 1)], enc='map')], enc='map', doc='permuted named variant, map'))
    # --- 24 fields, none spelled Option, one nil through an alias: the map header still depends on the value -----------------------
    C.append(S('M10', 'struct', [F('f%02d' % i, 'OptAlias' if i == 7 else 'u8', i, nilable=(i == 7) or None) for i in range(24)], enc='map', doc='24 fields, the only nil-able one is an alias'))
    C.append(S('M11', 'struct', [F('f%02d' % i, 'T' if i == 23 else 'u8', i) for i in range(24)], enc='map', generics=['T'], doc='24 fields, the only nil-able one is a type parameter'))
    C.append(S('N16', 'struct', [F('f00', 'A17', 0), F('f01', 'Option<A18>', 1), F('f02', 'E01', 2)], enc='map', doc='nested transparent / index_only types as fields'))
    return C


# version pairs for C10: (old, new, relation)
def version_pairs():
    P = []
    P.append((S('P00a', 'struct', [F('f00', 'u8', 0), F('f01', 'String', 1)]),
              S('P00b', 'struct', [F('f00', 'u8', 0), F('f01', 'String', 1), F('f02', 'Option<u8>', 2)]), 'add optional field at a new index (array)'))
    P.append((S('P01a', 'struct', [F('f00', 'u8', 0), F('f01', 'String', 3)]),
              S('P01b', 'struct', [F('f00', 'u8', 0), F('f02', 'Option<u16>', 1), F('f01', 'String', 3)]), 'add optional field at a gap index (array)'))
    P.append((S('P02a', 'struct', [F('f00', 'u8', 0), F('f01', 'String', 1)], enc='map'),
              S('P02b', 'struct', [F('f00', 'u8', 0), F('f01', 'String', 1), F('f02', 'Option<u8>', 2)], enc='map'), 'add optional field (map)'))
    P.append((S('P03a', 'struct', [F('f00', 'u8', 0), F('f01', 'String', 5)], enc='map'),
              S('P03b', 'struct', [F('f00', 'u8', 0), F('f02', 'Option<String>', 2), F('f01', 'String', 5)], enc='map'), 'add optional field at a gap key (map)'))
    P.append((S('P04a', 'struct', [F('f00', 'u8', 0), F('f01', 'u8', 1)]),
              S('P04b', 'struct', [F('g00', 'u8', 0), F('g01', 'u8', 1)]), 'rename'))
    P.append((S('P05a', 'struct', [F('f00', 'u8', 0), F('f01', 'Option<E10a>', 1), F('f02', 'u8', 2)]),
              S('P05b', 'struct', [F('f00', 'u8', 0), F('f01', 'Option<E10b>', 1), F('f02', 'u8', 2)]), 'enum in optional field gains a variant (array)'))
    P.append((S('P06a', 'struct', [F('f00', 'u8', 0), F('f01', 'Option<E10a>', 1), F('f02', 'u8', 2)], enc='map'),
              S('P06b', 'struct', [F('f00', 'u8', 0), F('f01', 'Option<E10b>', 1), F('f02', 'u8', 2)], enc='map'), 'enum in optional field gains a variant (map)'))
    P.append((S('P07a', 'struct', [F('f00', 'u8', 0), F('f01', 'Option<E11a>', 1), F('f02', 'u8', 2)]),
              S('P07b', 'struct', [F('f00', 'u8', 0), F('f01', 'Option<E11b>', 1), F('f02', 'u8', 2)]), 'index_only enum in optional field gains a variant'))
    P.append((S('P08a', 'struct', [F('f00', 'u8', 0), F('f01', 'String', 1)]),
              S('P08b', 'struct', [F('f00', 'u8', 0), F('f02', 'Option<u8>', 1, tag=5), F('f01', 'String', 2)], doc=''),
              'NOT compatible (index moved) - negative control'))
    P.append((S('P10a', 'struct', [F('f00', 'u8', 0)], enc='map'),
              S('P10b', 'struct', [F('f00', 'u8', 0), F('f01', "core::option::Option<&'a [u8]>", 1, b=True, codec='bytes')], enc='map', lifetimes=True),
              'add an optional field spelled core::option::Option with a nil-less codec (map)'))
    P.append((S('P09a', 'struct', [F('f00', 'u8', 0), F('f01', 'String', 2)]),
              S('P09b', 'struct', [F('f00', 'u8', 0), F('f02', 'Option<u8>', 1, tag=5), F('f01', 'String', 2)]), 'add tagged optional field at a gap index (array)'))
    return P


def aux_enums():
    return [
        E('E10a', [Var('V0', 0), Var('V1', 1, 'named', [F('f00', 'u8', 0)])]),
        E('E10b', [Var('V0', 0), Var('V1', 1, 'named', [F('f00', 'u8', 0)]), Var('V2', 2, 'tuple', [F('_0', 'String', 0)])]),
        E('E11a', [Var('V0', 0), Var('V1', 1)], index_only=True),
        E('E11b', [Var('V0', 0), Var('V1', 1), Var('V2', 2)], index_only=True),
        E('E12a', [Var('V0', 0), Var('V1', 1)]),
        E('E12b', [Var('V0', 0, 'named', [F('f00', 'Option<u8>', 0)]), Var('V1', 1, 'tuple', [F('_0', 'Option<String>', 0)])]),
        # unit variants that carry their own encoding override (the body written for them must already be of the kind the later version reads)
        E('E13a', [Var('V0', 0, enc='map'), Var('V1', 1, enc='array'), Var('V2', 2)], enc='array'),
        E('E13b', [Var('V0', 0, 'named', [F('f00', 'Option<u8>', 0)], enc='map'), Var('V1', 1, 'tuple', [F('_0', 'Option<u8>', 0)], enc='array'), Var('V2', 2, 'named', [F('f00', 'Option<u8>', 1)])], enc='array'),
        E('E14a', [Var('V0', 0, enc='array'), Var('V1', 1)], enc='map'),
        E('E14b', [Var('V0', 0, 'tuple', [F('_0', 'Option<u8>', 0)], enc='array'), Var('V1', 1, 'named', [F('f00', 'Option<String>', 3)])], enc='map'),
    ]


# ---------------------------------------------------------------------------
# Rust emission

def attr_field(f, default_n=True):
    a = []
    if f['skip']:
        a.append('#[cbor(skip)]')
    elif f.get('long') == 'merged' and f['tag'] is not None:
        a.append('#[cbor(%s(%d), tag(%d))]' % ('b' if f['b'] else 'n', f['idx'], f['tag']))
    elif f.get('long'):
        a.append('#[cbor(%s(%d))]' % ('b' if f['b'] else 'n', f['idx']))
    else:
        a.append('#[%s(%d)]' % ('b' if f['b'] else 'n', f['idx']))
    if f['tag'] is not None and f.get('long') != 'merged':
        a.append('#[cbor(tag(%d))]' % f['tag'])
    c = f['codec']
    if c == 'bytes':
        a.append('#[cbor(with = "minicbor::bytes")]')
    elif c == 'custom':
        a.append('#[cbor(encode_with = "crate::codec::enc_opaque", decode_with = "crate::codec::dec_opaque", cbor_len = "crate::codec::len_opaque")]')
    elif c == 'decode_only':
        a.append('#[cbor(decode_with = "crate::codec::fwd_alias")]')
    elif c == 'custom_nil_opt':
        a.append('#[cbor(encode_with = "crate::codec::enc_oo", decode_with = "crate::codec::dec_oo", cbor_len = "crate::codec::len_oo", '
                 'is_nil = "crate::codec::is_nil_oo", nil = "crate::codec::nil_oo")]')
    elif c == 'custom_nil_enc_first':
        a.append('#[cbor(encode_with = "crate::codec::enc_opaque", is_nil = "crate::codec::is_nil_opaque")] '
                 '#[cbor(decode_with = "crate::codec::dec_opaque", nil = "crate::codec::nil_opaque")] #[cbor(cbor_len = "crate::codec::len_opaque")]')
    elif c == 'custom_nil_dec_first':
        a.append('#[cbor(decode_with = "crate::codec::dec_opaque", nil = "crate::codec::nil_opaque")] '
                 '#[cbor(encode_with = "crate::codec::enc_opaque", is_nil = "crate::codec::is_nil_opaque", cbor_len = "crate::codec::len_opaque")]')
    elif c == 'custom_nil_interleaved':
        a.append('#[cbor(encode_with = "crate::codec::enc_opaque", is_nil = "crate::codec::is_nil_opaque", decode_with = "crate::codec::dec_opaque", '
                 'nil = "crate::codec::nil_opaque", cbor_len = "crate::codec::len_opaque")]')
    elif c == 'custom_nil_module':
        a.append('#[cbor(with = "crate::codec::opq", has_nil)]')
    elif c == 'custom_nil_module_rev':
        a.append('#[cbor(has_nil, with = "crate::codec::opq")]')
    elif c == 'custom_nil_module_split':
        a.append('#[cbor(has_nil)] #[cbor(with = "crate::codec::opq")]')
    elif c == 'custom_nil_dec_nil_enc':
        a.append('#[cbor(decode_with = "crate::codec::dec_opaque", nil = "crate::codec::nil_opaque", encode_with = "crate::codec::enc_opaque", '
                 'is_nil = "crate::codec::is_nil_opaque", cbor_len = "crate::codec::len_opaque")]')
    elif c == 'custom_nil_enc_isnil_dec':
        a.append('#[cbor(encode_with = "crate::codec::enc_opaque", is_nil = "crate::codec::is_nil_opaque", cbor_len = "crate::codec::len_opaque", '
                 'decode_with = "crate::codec::dec_opaque", nil = "crate::codec::nil_opaque")]')
    elif c == 'custom_nil':
        a.append('#[cbor(encode_with = "crate::codec::enc_opaque", decode_with = "crate::codec::dec_opaque", cbor_len = "crate::codec::len_opaque", '
                 'is_nil = "crate::codec::is_nil_opaque", nil = "crate::codec::nil_opaque")]')
    return ' '.join(a)


def gens(s):
    g = []
    if s.get('lifetimes'):
        g.append("'a")
    g += s.get('generics', [])
    return '<%s>' % ', '.join(g) if g else ''


def emit_fields(fields, named):
    out = []
    for f in fields:
        if named:
            out.append('    %s pub %s: %s,' % (attr_field(f), f['name'], f['ty']))
        else:
            out.append('    %s pub %s,' % (attr_field(f), f['ty']))
    return '\n'.join(out)


def emit(s):
    lines = ['#[derive(Debug, Encode, Decode, CborLen)]']
    attrs = []
    if s.get('enc'):
        attrs.append(s['enc'])
    if s.get('tag') is not None:
        attrs.append('tag(%d)' % s['tag'])
    if s.get('transparent'):
        attrs.append('transparent')
    if s.get('index_only'):
        attrs.append('index_only')
    if attrs:
        lines.append('#[cbor(%s)]' % ', '.join(attrs))
    g = gens(s)
    if s['kind'] == 'struct':
        lines.append('pub struct %s%s {\n%s\n}' % (s['name'], g, emit_fields(s['fields'], True)))
    elif s['kind'] == 'tuple':
        lines.append('pub struct %s%s(\n%s\n);' % (s['name'], g, emit_fields(s['fields'], False)))
    elif s['kind'] == 'unit':
        lines.append('pub struct %s;' % s['name'])
    else:
        vs = []
        for v in s['variants']:
            va = ['#[n(%d)]' % v['idx']]
            ca = []
            if v.get('enc'):
                ca.append(v['enc'])
            if v.get('tag') is not None:
                ca.append('tag(%d)' % v['tag'])
            if ca:
                va.append('#[cbor(%s)]' % ', '.join(ca))
            if v['kind'] == 'unit':
                vs.append('    %s %s,' % (' '.join(va), v['name']))
            elif v['kind'] == 'named':
                inner = '\n'.join('        %s %s: %s,' % (attr_field(f), f['name'], f['ty']) for f in v['fields'])
                vs.append('    %s %s {\n%s\n    },' % (' '.join(va), v['name'], inner))
            else:
                inner = '\n'.join('        %s %s,' % (attr_field(f), f['ty']) for f in v['fields'])
                vs.append('    %s %s(\n%s\n    ),' % (' '.join(va), v['name'], inner))
        lines.append('pub enum %s%s {\n%s\n}' % (s['name'], g, '\n'.join(vs)))
    return '\n'.join(lines)


HEADER = '''// GENERATED by tools/gen_schemas.py - do not edit.
#![allow(dead_code, unused_imports)]
extern crate alloc;
use minicbor::{Encode, Decode, CborLen};
use minicbor::bytes::ByteSlice;
use minicbor::data::Tagged;
use std::borrow::Cow;

/// an Option that is not spelled `Option<..>` where the derive macro looks at it
pub type OptAlias = Option<u16>;

/// Opaque leaf type with a custom codec (bodies are irrelevant: the analysis treats `codec::*` as leaves).
#[derive(Debug, Default)]
pub struct Opaque(pub u32);

pub mod codec {
    use super::Opaque;
    use minicbor::{Decoder, Encoder};
    use minicbor::encode::{Error, Write};

    #[inline(never)]
    pub fn enc_opaque<C, W: Write>(v: &Opaque, e: &mut Encoder<W>, _: &mut C) -> Result<(), Error<W::Error>> {
        e.u32(v.0)?.ok()
    }
    #[inline(never)]
    pub fn dec_opaque<'b, C>(d: &mut Decoder<'b>, _: &mut C) -> Result<Opaque, minicbor::decode::Error> {
        d.u32().map(Opaque)
    }
    #[inline(never)]
    pub fn len_opaque<C>(v: &Opaque, ctx: &mut C) -> usize {
        use minicbor::CborLen;
        v.0.cbor_len(ctx)
    }
    #[inline(never)]
    pub fn is_nil_opaque(v: &Opaque) -> bool {
        v.0 == 0
    }
    #[inline(never)]
    pub fn nil_opaque() -> Option<Opaque> {
        Some(Opaque(0))
    }
    /// the same codec as a module (`with = "crate::codec::opq", has_nil`)
    pub mod opq {
        use super::super::Opaque;
        use minicbor::{Decoder, Encoder};
        use minicbor::encode::{Error, Write};
        #[inline(never)]
        pub fn encode<C, W: Write>(v: &Opaque, e: &mut Encoder<W>, _: &mut C) -> Result<(), Error<W::Error>> { e.u32(v.0)?.ok() }
        #[inline(never)]
        pub fn decode<'b, C>(d: &mut Decoder<'b>, _: &mut C) -> Result<Opaque, minicbor::decode::Error> { d.u32().map(Opaque) }
        #[inline(never)]
        pub fn cbor_len<C>(v: &Opaque, ctx: &mut C) -> usize { use minicbor::CborLen; v.0.cbor_len(ctx) }
        #[inline(never)]
        pub fn is_nil(v: &Opaque) -> bool { v.0 == 0 }
        #[inline(never)]
        pub fn nil() -> Option<Opaque> { Some(Opaque(0)) }
    }
    // a codec for Option<Opaque> whose notion of nil (Some(Opaque(0))) is not `None`
    #[inline(never)]
    pub fn enc_oo<C, W: Write>(v: &Option<Opaque>, e: &mut Encoder<W>, _: &mut C) -> Result<(), Error<W::Error>> {
        match v { Some(o) => e.u32(o.0)?.ok(), None => e.u32(u32::MAX)?.ok() }
    }
    #[inline(never)]
    pub fn dec_oo<'b, C>(d: &mut Decoder<'b>, _: &mut C) -> Result<Option<Opaque>, minicbor::decode::Error> {
        d.u32().map(|n| if n == u32::MAX { None } else { Some(Opaque(n)) })
    }
    #[inline(never)]
    pub fn len_oo<C>(v: &Option<Opaque>, ctx: &mut C) -> usize {
        use minicbor::CborLen;
        v.as_ref().map(|o| o.0).unwrap_or(u32::MAX).cbor_len(ctx)
    }
    #[inline(never)]
    pub fn is_nil_oo(v: &Option<Opaque>) -> bool {
        matches!(v, Some(Opaque(0)))
    }
    #[inline(never)]
    pub fn nil_oo() -> Option<Option<Opaque>> {
        Some(Some(Opaque(0)))
    }
    // a decode-only codec that simply forwards to the trait (not opaque: the analysis follows it)
    pub fn fwd_alias<'b, C>(d: &mut Decoder<'b>, ctx: &mut C) -> Result<super::OptAlias, minicbor::decode::Error> {
        minicbor::Decode::decode(d, ctx)
    }
}

'''


def main():
    rnd_n = 0
    seed = 0
    only_random = False
    outdir = os.path.join(V, 'harness', 'schemas')
    args = sys.argv[1:]
    while args:
        a = args.pop(0)
        if a == '--random':
            rnd_n = int(args.pop(0))
        elif a == '--seed':
            seed = int(args.pop(0))
        elif a == '--out':
            outdir = args.pop(0)
        elif a == '--only-random':
            only_random = True
    if only_random:
        C = random_schemas(rnd_n, seed)
        src = HEADER + '\n\n'.join(emit(s) for s in C) + '\n'
        os.makedirs(os.path.join(outdir, 'src'), exist_ok=True)
        open(os.path.join(outdir, 'src', 'lib.rs'), 'w').write(src)
        json.dump({'schemas': C, 'pairs': [], 'seed': seed, 'random': rnd_n}, open(os.path.join(outdir, 'schemas.json'), 'w'), indent=1)
        print('wrote %d random schemas' % len(C))
        return
    C = corpus() + aux_enums()
    pairs = version_pairs()
    for a, b, rel in pairs:
        C.append(a)
        C.append(b)
    # E12 pair: unit -> struct/tuple variant with only optional fields
    pair_meta = [{'old': a['name'], 'new': b['name'], 'relation': rel} for a, b, rel in pairs]
    pair_meta.append({'old': 'E12a', 'new': 'E12b', 'relation': 'unit variants become struct/tuple variants with only optional fields'})
    pair_meta.append({'old': 'E13a', 'new': 'E13b', 'relation': 'unit variants with variant-level encoding overrides become struct/tuple variants (array enum)'})
    pair_meta.append({'old': 'E14a', 'new': 'E14b', 'relation': 'unit variants with variant-level encoding overrides become struct/tuple variants (map enum)'})
    if rnd_n:
        C += random_schemas(rnd_n, seed)
    src = HEADER + '\n\n'.join(emit(s) for s in C) + '\n'
    os.makedirs(os.path.join(outdir, 'src'), exist_ok=True)
    open(os.path.join(outdir, 'src', 'lib.rs'), 'w').write(src)
    json.dump({'schemas': C, 'pairs': pair_meta, 'seed': seed, 'random': rnd_n}, open(os.path.join(outdir, 'schemas.json'), 'w'), indent=1)
    if not rnd_n and outdir == os.path.join(V, 'harness', 'schemas'):
        # the same corpus as a no_std + alloc crate: the proc-macro picks some templates by its own cargo features (std / alloc)
        adir = os.path.join(V, 'harness', 'schemas-alloc')
        os.makedirs(os.path.join(adir, 'src'), exist_ok=True)
        asrc = src.replace('#![allow(dead_code, unused_imports)]', '#![no_std]\n#![allow(dead_code, unused_imports)]\nuse alloc::{string::String, boxed::Box, vec::Vec};', 1)
        asrc = asrc.replace('use std::borrow::Cow;', 'use alloc::borrow::Cow;').replace('std::option::Option', 'core::option::Option')
        open(os.path.join(adir, 'src', 'lib.rs'), 'w').write(asrc)
        open(os.path.join(adir, 'Cargo.toml'), 'w').write('[package]\nname = "mcv-schemas-alloc"\nversion = "0.0.0"\nedition = "2021"\npublish = false\n\n[lib]\nname = "mcv_schemas"\npath = "src/lib.rs"\n\n'
                                                          '[dependencies]\nminicbor = { path = "/repo/minicbor", default-features = false, features = ["alloc", "derive"] }\n')
    print('wrote %d schemas, %d pairs' % (len(C), len(pair_meta)))


def random_field(r, name, ix, lifetimes):
    """one random field: plain / optional leaf, wrapped or aliased options, borrowed forms, custom codecs"""
    k = r.random()
    tag = r.choice([None, None, None, r.randint(0, 70000)])
    if lifetimes and k < 0.35:
        ty, codec = r.choice([("&'a str", None), ("Cow<'a, str>", None), ("Cow<'a, [u8]>", 'bytes'), ("&'a [u8]", 'bytes'),
                              ("&'a ByteSlice", None), ("Cow<'a, ByteSlice>", None), ("Option<&'a str>", None)])
        return F(name, ty, ix, b=True, tag=tag, codec=codec)
    if k < 0.45:
        ty = r.choice(LEAF_TYPES)
        if r.random() < 0.45:
            ty = 'Option<%s>' % ty
        return F(name, ty, ix, tag=tag)
    if k < 0.55:
        return F(name, r.choice(['Box<Option<u8>>', 'Tagged<9, Option<u16>>', 'Box<u32>', 'Tagged<70000, String>']), ix, tag=tag)
    if k < 0.65:
        return F(name, 'OptAlias', ix, nilable=True, tag=tag, codec=r.choice([None, None, 'decode_only']))
    if k < 0.75:
        return F(name, 'RT0', ix, tag=tag)                       # transparent newtype around an Option (a leaf here)
    if k < 0.85:
        ty, codec = r.choice([('Vec<u8>', 'bytes'), ('Option<Vec<u8>>', 'bytes'), ('Opaque', 'custom'), ('Opaque', 'custom_nil'), ('Option<Opaque>', 'custom_nil_opt')])
        return F(name, ty, ix, tag=tag, codec=codec)
    ty = r.choice(LEAF_TYPES)
    if r.random() < 0.45:
        ty = 'Option<%s>' % ty
    return F(name, ty, ix, tag=tag)


def random_schemas(n, seed):
    r = random.Random(seed)
    out = [S('RT0', 'tuple', [F('_0', 'Option<u8>', 0)], transparent=True, doc='transparent newtype around an Option')]
    for k in range(n):
        nm = 'R%03d' % k
        enc = r.choice([None, 'map'])
        nf = r.randint(1, 5)
        idxs = sorted(r.sample(range(0, 12), nf))
        r.shuffle(idxs)
        lifetimes = r.random() < 0.3
        fields = [random_field(r, 'f%02d' % j, ix, lifetimes) for j, ix in enumerate(idxs)]
        kind = r.choice(['struct', 'struct', 'tuple', 'enum'])
        if kind == 'enum':
            vs = []
            for vi in range(r.randint(1, 3)):
                vk = r.choice(['unit', 'named', 'tuple'])
                vf = []
                if vk != 'unit':
                    for j, ix in enumerate(sorted(r.sample(range(0, 8), r.randint(1, 3)))):
                        vf.append(random_field(r, ('f%02d' % j) if vk == 'named' else '_%d' % j, ix, lifetimes))
                vs.append(Var('V%d' % vi, vi * 3, vk, vf, enc=r.choice([None, None, 'map', 'array']), tag=r.choice([None, None, r.randint(0, 300)])))
            uses_a = any(f['b'] for v in vs for f in v['fields'])
            out.append(E(nm, vs, enc=enc, tag=r.choice([None, None, r.randint(0, 300)]), lifetimes=uses_a, index_only=False))
        elif kind == 'tuple':
            for j, f in enumerate(fields):
                f['name'] = '_%d' % j
            out.append(S(nm, 'tuple', fields, enc=enc, tag=r.choice([None, None, r.randint(0, 300)]), lifetimes=any(f['b'] for f in fields)))
        else:
            out.append(S(nm, 'struct', fields, enc=enc, tag=r.choice([None, None, r.randint(0, 300)]), lifetimes=any(f['b'] for f in fields)))
    # at most 5 fields whose presence is a free choice per container keeps the presence vectors enumerable
    return out


if __name__ == '__main__':
    main()
