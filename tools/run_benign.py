#!/usr/bin/env python3
"""Run the registered quick checks against each behaviour-preserving refactoring under benign/<id>/patch.diff (applied to a scratch copy
of /repo).  Every check must stay silent: any VIOLATION / BROKEN-PRECONDITION / non-zero exit is a false alarm to be fixed in the checker.
usage: run_benign.py [ids...] [--checks=C01,C02] [--slots=3] [--jobs=4] [--out=benign/RESULTS.json]"""
import json, os, subprocess, sys, time, threading, queue, shutil
from concurrent.futures import ThreadPoolExecutor
V = os.path.dirname(os.path.dirname(os.path.abspath(__file__)))
ROOT = '/tmp/mcv-benign-%d' % os.getpid()
args = [a for a in sys.argv[1:] if not a.startswith('--')]
opt = dict(a[2:].split('=', 1) for a in sys.argv[1:] if a.startswith('--') and '=' in a)
man = json.load(open(V + '/MANIFEST.json'))
checks = opt.get('checks', ','.join(c['property_id'] for c in man['checks'])).split(',')
ids = args or sorted(d for d in os.listdir(V + '/benign') if os.path.isdir(os.path.join(V, 'benign', d)))
resf = os.path.join(V, opt.get('out', 'benign/RESULTS.json'))
results = json.load(open(resf)) if os.path.exists(resf) else {}
lock = threading.Lock()
q = queue.Queue()
for s in ids:
    q.put(s)


def run_one(s, slot):
    d = os.path.join(V, 'benign', s)
    base = os.path.join(ROOT, str(slot))
    scr = os.path.join(base, 'repo')
    os.makedirs(base, exist_ok=True)
    subprocess.check_call(['rsync', '-a', '--delete', '--exclude', 'target', '--exclude', '.git', '/repo/', scr + '/'])
    p = subprocess.run(['patch', '-p1', '-s', '-i', d + '/patch.diff'], cwd=scr, stdout=subprocess.PIPE, stderr=subprocess.STDOUT, text=True)
    if p.returncode != 0:
        return {'error': 'patch does not apply: ' + p.stdout[-200:]}
    env = dict(os.environ, MCV_REPO=scr, MCV_CACHE=os.path.join(base, 'cache'), MCV_EVDIR=os.path.join(base, 'evidence'))

    def one(c):
        r = subprocess.run(['./bin/check', c, '--tier', 'quick'], cwd=V, env=env, stdout=subprocess.PIPE, stderr=subprocess.STDOUT, text=True)
        return c, r.stdout, r.returncode
    outs = [one(checks[0])]
    with ThreadPoolExecutor(max_workers=int(opt.get('jobs', '4'))) as ex:
        outs += list(ex.map(one, checks[1:]))
    row = {'alarms': {}, 'ran': checks, 'when': time.strftime('%F %T')}
    for c, out, rc in outs:
        lines = [l for l in out.splitlines() if not l.startswith(('VIOLATION', 'KNOWN-FINDING', '['))]
        if rc != 0 or 'VIOLATION property=' in out or 'BROKEN-PRECONDITION' in out:
            row['alarms'][c] = [l[:400] for l in lines[:4]]
    return row


def worker(slot):
    while True:
        try:
            s = q.get_nowait()
        except queue.Empty:
            return
        try:
            row = run_one(s, slot)
        except Exception as e:  # noqa
            row = {'error': 'runner: %r' % e}
        with lock:
            results[s] = row
            json.dump(results, open(resf, 'w'), indent=1, sort_keys=True)
            print(s, 'ERROR ' + row['error'][:150] if 'error' in row else ('silent' if not row['alarms'] else 'FALSE ALARM %s' % {k: v[:1] for k, v in row['alarms'].items()}), flush=True)


ts = [threading.Thread(target=worker, args=(i,)) for i in range(int(opt.get('slots', '3')))]
for t in ts:
    t.start()
for t in ts:
    t.join()
shutil.rmtree(ROOT, ignore_errors=True)
