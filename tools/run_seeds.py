#!/usr/bin/env python3
"""Run the registered quick checks against each confirmed seeded change (applied to a scratch copy of /repo).
usage: run_seeds.py [seed names...] [--checks C01,C02]   -> seeded/RESULTS.json"""
import json, os, re, shutil, subprocess, sys, time
V = '/verif'
SCR = '/tmp/scratch/repo'
args = [a for a in sys.argv[1:] if not a.startswith('--')]
opt = dict(a[2:].split('=', 1) for a in sys.argv[1:] if a.startswith('--') and '=' in a)
man = json.load(open(V + '/MANIFEST.json'))
claimed = [c['property_id'] for c in man['checks']]
checks = opt.get('checks', ','.join(claimed)).split(',')
seeds = args or sorted(os.listdir(V + '/seeded'))
seeds = [s for s in seeds if os.path.isdir(os.path.join(V, 'seeded', s))]
resf = V + '/seeded/RESULTS.json'
results = json.load(open(resf)) if os.path.exists(resf) else {}
for s in seeds:
    d = os.path.join(V, 'seeded', s)
    meta = json.load(open(d + '/meta.json'))
    os.makedirs('/tmp/scratch', exist_ok=True)
    subprocess.check_call(['rsync', '-a', '--delete', '--exclude', 'target', '--exclude', '.git', '/repo/', SCR + '/'])
    p = subprocess.run(['patch', '-p1', '-s', '-i', d + '/patch.diff'], cwd=SCR, stdout=subprocess.PIPE, stderr=subprocess.STDOUT, text=True)
    if p.returncode != 0:
        results[s] = {'property': meta['property'], 'error': 'patch does not apply to the current /repo: ' + p.stdout[-300:]}
        print(s, 'PATCH FAILED')
        continue
    row = {'property': meta['property'], 'summary': meta.get('summary', '')[:200], 'detected_by': {}, 'ran': checks, 'when': time.strftime('%F %T')}
    env = dict(os.environ, MCV_REPO=SCR)
    order = [meta['property']] + [c for c in checks if c != meta['property']]
    order = [c for c in order if c in checks]

    def one(c):
        q = subprocess.run(['./bin/check', c, '--tier', 'quick'], cwd=V, env=env, stdout=subprocess.PIPE, stderr=subprocess.STDOUT, text=True)
        return c, q.stdout
    # the first check builds the exports of this tree state; the others then share the cache
    outs = [one(order[0])] if order else []
    from concurrent.futures import ThreadPoolExecutor
    with ThreadPoolExecutor(max_workers=int(opt.get('jobs', '5'))) as ex:
        outs += list(ex.map(one, order[1:]))
    for c, out in outs:
        lines = [l for l in out.splitlines() if not l.startswith(('VIOLATION', 'KNOWN-FINDING', '[', 'BROKEN'))]
        nv = out.count('VIOLATION property=')
        nb = out.count('BROKEN-PRECONDITION')
        if nv or nb:
            row['detected_by'][c] = {'violations': nv, 'broken': nb, 'first': (lines[0][:300] if lines else ([l for l in out.splitlines() if l.startswith('BROKEN')] or [''])[0][:300])}
    results[s] = row
    print(s, meta['property'], '->', {k: v['violations'] or ('broken:%d' % v['broken']) for k, v in row['detected_by'].items()} or 'MISSED')
    json.dump(results, open(resf, 'w'), indent=1)
# restore evidence from the real tree
print('re-running checks on /repo to restore evidence files')
for c in checks:
    subprocess.run(['./bin/check', c, '--tier', 'quick'], cwd=V, stdout=subprocess.DEVNULL, stderr=subprocess.DEVNULL)
