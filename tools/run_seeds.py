#!/usr/bin/env python3
"""Run the registered quick checks against each confirmed seeded change (applied to a scratch copy of /repo).
usage: run_seeds.py [seed names...] [--checks=C01,C02] [--slots=3] [--jobs=5] [--out=seeded/RESULTS.json]
Each slot has its own scratch copy of /repo and its own export cache (under /tmp/mcv-seeds/<slot>), removed at the end.
Evidence files of /verif are not touched (with MCV_REPO set, evidence goes to a temporary directory)."""
import json, os, re, shutil, subprocess, sys, time, threading, queue
from concurrent.futures import ThreadPoolExecutor
V = os.path.dirname(os.path.dirname(os.path.abspath(__file__)))
ROOT = '/tmp/mcv-seeds-%d' % os.getpid()
args = [a for a in sys.argv[1:] if not a.startswith('--')]
opt = dict(a[2:].split('=', 1) for a in sys.argv[1:] if a.startswith('--') and '=' in a)
man = json.load(open(V + '/MANIFEST.json'))
claimed = [c['property_id'] for c in man['checks']]
checks = opt.get('checks', ','.join(claimed)).split(',')
seeds = args or sorted(os.listdir(V + '/seeded'))
seeds = [s for s in seeds if os.path.isdir(os.path.join(V, 'seeded', s))]
resf = os.path.join(V, opt.get('out', 'seeded/RESULTS.json'))
results = json.load(open(resf)) if os.path.exists(resf) else {}
lock = threading.Lock()
q = queue.Queue()
for s in seeds:
    q.put(s)


def run_seed(s, slot):
    d = os.path.join(V, 'seeded', s)
    meta = json.load(open(d + '/meta.json'))
    base = os.path.join(ROOT, str(slot))
    scr = os.path.join(base, 'repo')
    os.makedirs(base, exist_ok=True)
    subprocess.check_call(['rsync', '-a', '--delete', '--exclude', 'target', '--exclude', '.git', '/repo/', scr + '/'])
    p = subprocess.run(['patch', '-p1', '-s', '-i', d + '/patch.diff'], cwd=scr, stdout=subprocess.PIPE, stderr=subprocess.STDOUT, text=True)
    if p.returncode != 0:
        return {'property': meta['property'], 'error': 'patch does not apply to the current /repo: ' + p.stdout[-300:]}
    row = {'property': meta['property'], 'summary': (meta.get('summary') or '')[:200], 'detected_by': {}, 'ran': checks, 'when': time.strftime('%F %T')}
    env = dict(os.environ, MCV_REPO=scr, MCV_CACHE=os.path.join(base, 'cache'), MCV_EVDIR=os.path.join(base, 'evidence'))
    order = [meta['property']] + [c for c in checks if c != meta['property']]
    order = [c for c in order if c in checks]
    if '--own' in sys.argv:
        order = [meta['property']]
        row['ran'] = order

    def one(c):
        r = subprocess.run(['./bin/check', c, '--tier', 'quick'], cwd=V, env=env, stdout=subprocess.PIPE, stderr=subprocess.STDOUT, text=True)
        return c, r.stdout, r.returncode
    # the first check builds the exports of this tree state; the others then share the cache
    outs = [one(order[0])] if order else []
    with ThreadPoolExecutor(max_workers=int(opt.get('jobs', '5'))) as ex:
        outs += list(ex.map(one, order[1:]))
    for c, out, rc in outs:
        lines = [l for l in out.splitlines() if not l.startswith(('VIOLATION', 'KNOWN-FINDING', '[', 'BROKEN'))]
        nv = out.count('VIOLATION property=')
        nb = out.count('BROKEN-PRECONDITION')
        if nv or nb or rc != 0:
            row['detected_by'][c] = {'violations': nv, 'broken': nb, 'rc': rc,
                                     'first': (lines[0][:300] if lines else ([l for l in out.splitlines() if l.startswith('BROKEN')] or [''])[0][:300])}
    return row


def worker(slot):
    while True:
        try:
            s = q.get_nowait()
        except queue.Empty:
            return
        try:
            row = run_seed(s, slot)
        except Exception as e:  # noqa
            row = {'property': '?', 'error': 'runner: %r' % e}
        with lock:
            results[s] = row
            json.dump(results, open(resf, 'w'), indent=1, sort_keys=True)
            if 'error' in row:
                print(s, 'ERROR', row['error'][:200], flush=True)
            else:
                print(s, row['property'], '->', {k: v['violations'] or ('broken:%d' % v['broken']) for k, v in row['detected_by'].items()} or 'MISSED', flush=True)


ts = [threading.Thread(target=worker, args=(i,)) for i in range(int(opt.get('slots', '3')))]
for t in ts:
    t.start()
for t in ts:
    t.join()
shutil.rmtree(ROOT, ignore_errors=True)
