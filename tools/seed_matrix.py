#!/usr/bin/env python3
"""Insert the seeded-change matrix (seeded/RESULTS.json) into DESIGN.md between the SEED-MATRIX markers."""
import json, re
V = '/verif'
r = json.load(open(V + '/seeded/RESULTS.json'))
lines = ['| seed | property | what was changed | detected by (violations) | own check |', '|---|---|---|---|---|']
miss = []
for s in sorted(r):
    row = r[s]
    if 'error' in row:
        lines.append('| %s | %s | %s | – | patch no longer applies (the defect it built on was fixed) |' % (s, row['property'], row['error'][:80].replace('|', '/')))
        continue
    det = row['detected_by']
    own = row['property'] in det
    if not det:
        miss.append(s)
    summ = re.sub(r'\s+', ' ', row.get('summary', ''))[:150].replace('|', '/')
    lines.append('| %s | %s | %s | %s | %s |' % (s, row['property'], summ, ', '.join('%s (%s)' % (k, v['violations'] or 'fail-closed') for k, v in sorted(det.items())) or '**missed**', 'yes' if own else ('no' if det else '**no**')))
txt = '\n'.join(lines) + '\n\n%d seeds, %d detected by the check of their own property, %d by another check only, %d missed%s.\n' % (
    len(r), sum(1 for s in r if 'detected_by' in r[s] and r[s]['property'] in r[s]['detected_by']),
    sum(1 for s in r if 'detected_by' in r[s] and r[s]['detected_by'] and r[s]['property'] not in r[s]['detected_by']), len(miss), (' (' + ', '.join(miss) + ')') if miss else '')
p = V + '/DESIGN.md'
d = open(p).read()
d = re.sub(r'<!-- SEED-MATRIX-BEGIN -->.*?<!-- SEED-MATRIX-END -->', lambda m: '<!-- SEED-MATRIX-BEGIN -->\n' + txt + '<!-- SEED-MATRIX-END -->', d, flags=re.S)
open(p, 'w').write(d)
print(txt[-300:])
