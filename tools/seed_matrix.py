#!/usr/bin/env python3
"""Insert the seeded-change table into DESIGN.md between the SEED-MATRIX markers.
seeded/RESULTS-own.json: every seed against the check of its own property (tools/run_seeds.py --own) at HEAD;
seeded/RESULTS-full-partial.json: the seeds for which all 20 checks were run (cross-detection)."""
import json, os, re
V = os.path.dirname(os.path.dirname(os.path.abspath(__file__)))
own = json.load(open(V + '/seeded/RESULTS-own.json'))
full = json.load(open(V + '/seeded/RESULTS-full-partial.json')) if os.path.exists(V + '/seeded/RESULTS-full-partial.json') else {}
seeds = sorted((s for s in os.listdir(V + '/seeded') if os.path.isdir(os.path.join(V, 'seeded', s))), key=lambda s: (s.split('-')[0], int(s.split('-')[1])))
lines = ['| seed | what was changed | report of the property\'s own check (first of n) | also reported by |', '|---|---|---|---|']
nown = nother = nmiss = nerr = 0
for s in seeds:
    row = own.get(s)
    meta = json.load(open(os.path.join(V, 'seeded', s, 'meta.json')))
    summ = re.sub(r'\s+', ' ', meta.get('summary', ''))[:170].replace('|', '/')
    if row is None:
        lines.append('| %s | %s | (not run) | |' % (s, summ))
        continue
    if 'error' in row:
        nerr += 1
        lines.append('| %s | %s | patch no longer applies (the defect it built on was repaired in /repo) | |' % (s, summ))
        continue
    pid = row['property']
    det = row.get('detected_by') or {}
    others = ''
    fr = full.get(s)
    if fr and fr.get('when', '') >= '2026-09-28 15' and 'detected_by' in fr:
        others = ', '.join(k for k in sorted(fr['detected_by']) if k != pid)
    if pid in det:
        nown += 1
        d = det[pid]
        first = re.sub(r'\s+', ' ', d.get('first', ''))[:150].replace('|', '/')
        n = d.get('violations') or 0
        lines.append('| %s | %s | %s (%s) | %s |' % (s, summ, first, ('%d' % n) if n else 'fail-closed', others))
    elif others:
        nother += 1
        lines.append('| %s | %s | **not reported** | %s |' % (s, summ, others))
    else:
        nmiss += 1
        lines.append('| %s | %s | **not reported** | |' % (s, summ))
txt = '\n'.join(lines) + '\n\n%d seeds: %d reported by the check of their own property, %d by another check only, %d missed, %d no longer applicable.\n' % (len(seeds), nown, nother, nmiss, nerr)
p = V + '/DESIGN.md'
d = open(p).read()
d = re.sub(r'<!-- SEED-MATRIX-BEGIN -->.*?<!-- SEED-MATRIX-END -->', lambda m: '<!-- SEED-MATRIX-BEGIN -->\n' + txt + '<!-- SEED-MATRIX-END -->', d, flags=re.S)
open(p, 'w').write(d)
print(txt[-200:])
