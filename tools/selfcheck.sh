#!/bin/bash
# usage: tools/selfcheck.sh [quick|thorough] [ids...]  - runs the registered checks on /repo, prints one line per check
T=${1:-quick}; shift
IDS=${@:-"C01 C02 C03 C04 C05 C06 C07 C08 C09 C10 C11 C12 C13 C14 C15 C16 C17 C18 C19 C20"}
cd /verif
for c in $IDS; do
  out=$(./bin/check $c --tier $T 2>&1); rc=$?
  echo "$c rc=$rc $(echo "$out" | tail -1 | cut -c1-160)"
  [ $rc -ne 0 ] && echo "$out" | grep -v "^\[export" | head -5 | cut -c1-300
done
