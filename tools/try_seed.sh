#!/bin/bash
# usage: try_seed.sh <seed-dir-name | path/to/patch.diff> <check...>   (private scratch copy under /tmp, removed afterwards)
set -u
D=/tmp/scratch2-$$
S=$D/repo
mkdir -p $D
rsync -a --delete --exclude target --exclude .git /repo/ $S/
P=$1; shift
[ -f "$P" ] || P=/verif/seeded/$P/patch.diff
( cd $S && patch -p1 -s -i $P ) || { echo "PATCH FAILED"; rm -rf $D; exit 2; }
cd /verif
for c in "$@"; do
  MCV_REPO=$S MCV_EVDIR=$D/evidence ./bin/check $c --tier quick 2>&1 | grep -v "^VIOLATION\|^\[export" | cut -c1-420 | head -${LINES_MAX:-6}
done
H=$(python3 -c "import hashlib;print(hashlib.sha256('$S'.encode()).hexdigest()[:10])")
rm -rf $D /verif/.cache/target-repo-$H /verif/.cache/target-harness-$H /verif/.cache/harness-$H
