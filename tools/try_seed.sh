#!/bin/bash
# usage: try_seed.sh <seed-dir-name | path/to/patch.diff> <check...>   (scratch copy under /tmp/scratch2, removed afterwards)
set -u
S=/tmp/scratch2/repo
mkdir -p /tmp/scratch2
rsync -a --delete --exclude target --exclude .git /repo/ $S/
P=$1; shift
[ -f "$P" ] || P=/verif/seeded/$P/patch.diff
( cd $S && patch -p1 -s -i $P ) || { echo "PATCH FAILED"; exit 2; }
cd /verif
for c in "$@"; do
  MCV_REPO=$S ./bin/check $c --tier quick 2>&1 | grep -v "^VIOLATION\|^\[export" | cut -c1-420 | head -${LINES_MAX:-6}
done
rm -rf /tmp/scratch2
